import pty, os, sys, select, time
cmds = ["gdb", "-q", "-batch",
        "-ex", "set pagination off", "-ex", "set confirm off",
        "-ex", "break emulator-2a/src/tui/mod.rs:156",
        "-ex", "run",
        "-ex", "shell sleep 0.2",
        "-ex", "continue",
        "-ex", "bt 6",
        "--args", "/var/tmp/mk/target/debug/2a-emulator"]
pid, fd = pty.fork()
if pid == 0:
    os.environ["TERM"] = "xterm"
    os.execvp(cmds[0], cmds)
out = b""
t0 = time.time()
while time.time() - t0 < 60:
    r, _, _ = select.select([fd], [], [], 1.0)
    if fd in r:
        try:
            d = os.read(fd, 65536)
        except OSError:
            break
        if not d:
            break
        out += d
    else:
        pid_, st = os.waitpid(pid, os.WNOHANG)
        if pid_:
            break
open("/var/tmp/c17race/out.txt", "wb").write(out)
import re
txt = out.decode("utf-8", "replace")
for l in txt.splitlines():
    if any(k in l for k in ("panicked", "overflow when", "Breakpoint 1,", "exited with code", "mod.rs:156")):
        print(re.sub(r"\x1b\[[0-9;?]*[a-zA-Z]", "", l)[:200])
