#!/usr/bin/env python3
"""Checker self-test: apply each seeded patch in selftest/patches to a scratch
copy of /repo and run the named checks.  A patch file starts with header lines
    # expect: fire C05 [C13 ...]      (each named check must report a VIOLATION)
    # expect: silent C05 [...]        (each named check must exit 0)
followed by a unified diff (-p1).  Scratch copies live under /var/tmp and are
removed immediately.  usage: run.py [-j N] [filter-substring ...]"""
import concurrent.futures
import os
import re
import shutil
import subprocess
import sys
import tempfile

HERE = os.path.dirname(os.path.abspath(__file__))
VERIF = os.path.dirname(HERE)


def run_one(path):
    with open(path) as fh:
        text = fh.read()
    expects = re.findall(r"^# expect: (fire|silent) (.*)$", text, re.M)
    s = tempfile.mkdtemp(prefix="verif-selftest.", dir="/var/tmp")
    results = []
    try:
        subprocess.run(["rsync", "-a", "--exclude", "target", "--exclude", ".git", "/repo/", s + "/"], check=True)
        r = subprocess.run(["patch", "-p1", "-s", "-d", s], input=text, text=True,
                           stdout=subprocess.PIPE, stderr=subprocess.STDOUT)
        if r.returncode != 0:
            return path, [("patch", "FAILED-TO-APPLY", r.stdout[-300:])]
        env = dict(os.environ, VERIF_NO_EVIDENCE="1", VERIF_FORCE_CACHE="1")
        for kind, props in expects:
            for prop in props.split():
                r = subprocess.run([os.path.join(VERIF, "check"), prop, "--repo", s], env=env,
                                   stdout=subprocess.PIPE, stderr=subprocess.STDOUT, text=True)
                fired = r.returncode != 0 and "VIOLATION property=%s" % prop in r.stdout
                anchor = "anchor-missing" in r.stdout or "analyser-error" in r.stdout or "no-facts" in r.stdout
                if kind == "fire":
                    ok = fired and not ("no-facts" in r.stdout)
                else:
                    ok = r.returncode == 0
                keys = re.findall(r"^  key:    (.*)$", r.stdout, re.M)[:3]
                results.append((prop, ("ok" if ok else "WRONG") + ":" + kind + (" (anchor)" if anchor and fired else ""),
                                "; ".join(keys) if keys else r.stdout.strip().splitlines()[-1][:200]))
    finally:
        shutil.rmtree(s, ignore_errors=True)
    return path, results


def main():
    args = sys.argv[1:]
    jobs = 4
    if args and args[0] == "-j":
        jobs = int(args[1])
        args = args[2:]
    pdir = os.path.join(HERE, "patches")
    files = sorted(os.path.join(pdir, f) for f in os.listdir(pdir) if f.endswith(".patch"))
    if args:
        files = [f for f in files if any(a in f for a in args)]
    bad = 0
    with concurrent.futures.ThreadPoolExecutor(jobs) as ex:
        for path, results in ex.map(run_one, files):
            for prop, status, info in results:
                print("%-40s %-5s %-22s %s" % (os.path.basename(path), prop, status, info))
                if not status.startswith("ok"):
                    bad += 1
    print("selftest: %d patches, %d wrong" % (len(files), bad))
    return 1 if bad else 0


if __name__ == "__main__":
    sys.exit(main())
