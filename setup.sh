#!/bin/bash
# Build the two fact generators offline. Idempotent.
set -euo pipefail
cd "$(dirname "$0")"
export CARGO_NET_OFFLINE=true
(cd engines/factgen && cargo build --offline 2>&1 | tail -3)
(cd engines/gramgen && cargo build --offline 2>&1 | tail -3)
test -x engines/factgen/target/debug/factgen
test -x engines/gramgen/target/debug/gramgen
echo "setup ok"
