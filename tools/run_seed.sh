#!/bin/bash
# usage: run_seed.sh <seeded-name> <Cxx> [<Cxx>...]  - apply the seeded change to /repo, run the checks, undo
set -u
NAME="$1"; shift
D=/verif/seeded/$NAME
git -C /repo diff --quiet || { echo "/repo is dirty"; exit 2; }
git -C /repo apply "$D/patch.diff" || { echo "apply failed"; exit 2; }
trap 'git -C /repo checkout -- .' EXIT
for P in "$@"; do
  VERIF_NO_EVIDENCE=1 /verif/check "$P" > /var/tmp/seedrun.$NAME.$P.log 2>&1; rc=$?
  echo "== $NAME $P: exit $rc: $(tail -1 /var/tmp/seedrun.$NAME.$P.log)"
  grep "^  key:" /var/tmp/seedrun.$NAME.$P.log | head -5
done
