#!/usr/bin/env python3
"""pretty-print MIR facts of functions: tools/mirpp.py <substring> [...]"""
import sys, json
sys.path.insert(0, '/verif')
from sa import facts


def short_place(pl):
    s = "_%d" % pl["l"]
    for pr in pl["p"]:
        if pr == "*":
            s = "(*%s)" % s
        elif isinstance(pr, dict) and "f" in pr:
            s += ".%s" % pr.get("n", pr["f"])
        elif isinstance(pr, dict) and "d" in pr:
            s = "(%s as %s)" % (s, pr["d"])
        else:
            s += "[%s]" % json.dumps(pr)
    return s


def op(o):
    if "k" in o:
        k = o["k"]
        return "const %s" % (k.get("v", k.get("str", k.get("fn", {}).get("def") if isinstance(k.get("fn"), dict) else k.get("ty"))),)
    return ("move " if "m" in o else "") + short_place(o.get("m") or o.get("c"))


def rv(r):
    k = r["k"]
    if k == "use":
        return op(r["o"])
    if k in ("bin", "chk"):
        return "%s%s(%s, %s)" % (k, r["op"], op(r["a"]), op(r["b"]))
    if k == "ref":
        return "&%s%s" % ("mut " if "mut" in str(r.get("bk")).lower() else "", short_place(r["p"]))
    if k == "discr":
        return "discr(%s)" % short_place(r["p"])
    if k == "cast":
        return "cast[%s](%s as %s)" % (r.get("ck"), op(r["o"]), r["ty"])
    if k == "agg":
        return "agg %s %s" % (r.get("variant") or r.get("name") or r["ak"], [op(f) for f in r["fields"]])
    if k == "un":
        return "%s(%s)" % (r["op"], op(r["a"]))
    return json.dumps(r)[:120]


def main():
    import os
    p = facts.load(os.environ.get('MIRPP_REPO', '/repo'), use_cache=True)
    for pat in sys.argv[1:]:
        for fn in sorted(p.bodies):
            if pat not in fn:
                continue
            b = p.bodies[fn]
            print("==", fn, "argc", b.argc)
            print("  locals:", [(i, l.get("ty")) for i, l in enumerate(b.locals)])
            for i, blk in enumerate(b.blocks):
                for s in blk["s"]:
                    if s["k"] == "assign":
                        print("  bb%d: %s = %s   // %s" % (i, short_place(s["p"]), rv(s["r"]), s.get("ln")))
                    else:
                        print("  bb%d: %s" % (i, json.dumps(s)[:100]))
                t = blk["t"]
                if t["k"] == "call":
                    print("  bb%d: T %s = call %s(%s) -> bb%s   // %s" % (i, short_place(t["dest"]), t["f"].get("res") or t["f"].get("def"),
                                                                  ", ".join(op(a) for a in t["args"]), t["t"], t.get("ln")))
                elif t["k"] == "switch":
                    print("  bb%d: T switch %s %s else %s" % (i, op(t["d"]), t["vals"], t["else"]))
                elif t["k"] == "assert":
                    print("  bb%d: T assert %s == %s (%s) -> bb%s" % (i, op(t["c"]), t["exp"], t["msg"].get("kind"), t["t"]))
                elif t["k"] == "drop":
                    print("  bb%d: T drop %s -> bb%s" % (i, short_place(t["p"]), t["t"]))
                else:
                    print("  bb%d: T %s %s" % (i, t["k"], t.get("t", "")))


main()
