#!/bin/bash
# usage: collect_seed.sh <Cxx> [<name>]  - copy the change a sub-agent left in /tmp/seed-<Cxx> to /verif/seeded/<name>/
set -eu
ID="$1"; NAME="${2:-$1}"
W=/tmp/seed-$ID
D=/verif/seeded/$NAME
mkdir -p "$D"
git -C "$W" diff > "$D/patch.diff"
[ -f "$W/DEMO.md" ] && cp "$W/DEMO.md" "$D/DEMO.md"
[ -d "$W/demo" ] && { rm -rf "$D/demo"; cp -r "$W/demo" "$D/demo"; }
echo "collected $(grep -c '^[-+][^-+]' "$D/patch.diff") changed lines into $D"
git -C "$W" diff --stat | tail -3
