#!/bin/bash
# Run every seeded change against the check of its own property on a scratch copy of /repo (never touches /repo).
# usage: run_all_seeds.sh [-j N]
cd /verif
J=${2:-4}
ls seeded | xargs -P "$J" -I{} bash -c '
  n={}; p=$(python3 -c "import json;print(json.load(open(\"seeded/$n/meta.json\"))[\"property\"])")
  out=$(./mutcheck.sh /verif/seeded/$n/patch.diff $p 2>&1); rc=$?
  echo "$n $p exit=$rc $(echo "$out" | tail -1 | cut -c1-100)"'
