#!/bin/bash
# usage: seed_round.sh <suffix> <Cxx>...   collect /tmp/seed-Cxx into seeded/Cxx<suffix> and run the property's check on a scratch copy
cd /verif
SUF="$1"; shift
for ID in "$@"; do
  tools/collect_seed.sh $ID ${ID}${SUF} > /dev/null
  out=$(./mutcheck.sh /verif/seeded/${ID}${SUF}/patch.diff $ID 2>&1); rc=$?
  echo "== ${ID}${SUF}: exit=$rc $(echo "$out" | tail -1 | cut -c1-110)"
  echo "$out" | grep "^  key:" | head -4
done
