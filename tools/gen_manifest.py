#!/usr/bin/env python3
"""Generate MANIFEST.json from the per-property claim table below."""
import json
import os

VERIF = os.path.dirname(os.path.dirname(os.path.abspath(__file__)))
props = [json.loads(l)["id"] for l in open(os.path.join(VERIF, "properties.jsonl"))]

BASE_NOTE = ("Trusted base: rustc front end/MIR construction as dumped by engines/factgen; models of core/alloc "
             "functions by name (sa/externs.py); soundness of the abstract interpreter sa/absint.py; third-party "
             "crates assumed total. ")

CLAIMS = {
    "C17": dict(
        category="other",
        technique="zone-domain (difference constraints) abstract interpretation of the line editor's MIR under a struct invariant, all paths; reconstruction of the nom combinator tree from MIR compared with the documented command table (token-sequence language equality, ordered-choice shadowing by automata product); abstract interpretation of the dispatch functions with recording stand-ins",
        text=("(A) InputState::handle / next_completion / previous_completion / complete: every panic-capable site (checked "
              "arithmetic, Vec insert/remove/index, remainder, expect) is safe under the invariant cursor <= text length, history "
              "index < history length, completion index < list length; the invariant holds again at every return and before every "
              "sibling call; the constructor establishes it; only these methods write the fields; the editor's unreachable!() arm is "
              "not reachable from the dispatch. (B) parse_cmd's combinator expression, reconstructed from MIR (closures evaluated "
              "symbolically), expands to exactly the documented 548 token-sequence alternatives with the documented command value "
              "(case-insensitive keywords, checked u8 conversions in bases 16/2/10, usize counts), no alternative shadows a later "
              "one, the whole line must be consumed, every keyword matcher is exact up to ASCII case (tag_no_case decided per keyword "
              "against nom's pairing-and-byte-length algorithm). (C) Tui::handle_input maps every Command to exactly the documented machine "
              "call with its payload; CTRL+A/W/E/R/L/C and Enter act as documented, other keys do nothing, a notification swallows "
              "the key, an invalid line only raises a notification. (A') the one library routine the editor hands a position to, "
              "rustyline's complete_path(line, pos), is called within its slicing contract: pos is 0 or the byte offset of a character "
              "boundary of line (from char_indices().nth() or len()), at most its length - decided with character counts in the zone domain."),
        note=("Five genuine defects found and fixed (byte slicing in the FC..FF completion; trailing input accepted: 'FC = 0x1FF' set FC "
              "to 0; 'load ä' + Tab handed a character count to a byte-slicing completer; nom's tag_no_case executed 'quİ' as quit; "
              "a time-of-check/time-of-use panic in the event loop's frame sleep). Of the event loop only the wall-clock arithmetic "
              "is decided (no panicking operator form on Duration/Instant anywhere in the TUI module). "
              "NOT decided: that drawing never fails at every terminal size - InputWidget::render mixes byte and char "
              "offsets and subtracts from the area width; its safety depends on layout values computed inside the tui crate and on "
              "the text being ASCII; the inside of rustyline's file-name completer beyond its slicing contract; the event loop."),
        design="3/C17"),
    "C04": dict(
        category="other",
        technique="micro-CFG analysis of where the interrupt inputs influence sequencing + symbolic register-transfer evaluation of every interrupted micro-path + abstract interpretation of the flip-flop's writers, of the enable gate and of one clock edge per control word",
        text=("(1) Exhaustively over the reachable control states (micro-address x IR) the IE flag / pending flip-flop / level input "
              "influence the next micro-address only where the not-taken successor is an instruction-fetch word. (2) For every "
              "instruction form and every micro-path on which the branch is taken, symbolic evaluation shows the instruction's own "
              "effect complete (equal to the reference semantics without the following fetch) and then: FR pushed, address of the "
              "next instruction pushed, IE cleared with C/Z/N kept, continuation at address 2, R0-R2 untouched. (3) One clock edge "
              "of every control word, abstractly interpreted from flip-flop set and clear: words that test the interrupt leave it "
              "clear, all others keep it, skipped edges (halt, memory wait) keep it, the level input stays clear. (4) The only "
              "writers of the flip-flop are the trigger, reset, constructor and two pipeline stages; the trigger sets it exactly "
              "under MICR bit 0 and never clears it; the bus raises no interrupts; MICR is written only by Bus::write and resets. "
              "(5) RETI pops PC then FR. The data-path model is tied to the pipeline code as in C01. Machine::trigger_key_interrupt is one unconditional call of the analysed trigger in every machine state (must-call marker)."),
        note=("Equality of the final state of an interrupted run with the uninterrupted run is a statement about executions and is "
              "not decided as such; decided are the structural conditions it rests on. EI, DI and RETI never test the interrupt "
              "inputs (a pending interrupt waits one more instruction), MUL/DIV test them only at their delivering word. A key "
              "press that arrives while a DI is executing is discarded at the next boundary (flip-flop cleared with IE clear): "
              "the property speaks only about triggers while enabled. MISR status bits are not decided."),
        design="3/C04"),
    "C01": dict(
        category="other",
        technique="symbolic register-transfer evaluation of every micro-path of the control store (expression trees, NOR networks by truth table) compared structurally with a reference ISA semantics; the evaluator's data-path model is checked against the MIR of the clock-edge pipeline by abstract interpretation with opaque register tags",
        text=("For every defined first opcode byte and every defined second byte of the two-byte forms (1565 forms) all micro-paths "
              "from dispatch to the next instruction fetch are enumerated on the micro-CFG (built from Signals::* evaluated per "
              "control word and IR class) and evaluated as register transfers over symbolic initial registers; the final "
              "expressions of R0-R3/PC/SP, the bus writes, the operand fetches and the flag rule class (untouched / C,Z,N of the "
              "result / Z,N of the result / loaded byte / IE only) must equal spec/isa_sem.py, so the write-set is exact. "
              "Conditional jumps must test the flag their condition names. MUL/DIV (data-dependent loops): write-set of the whole "
              "routine, carry accumulation discipline of MUL by forward dataflow over the routine (cleared, then only "
              "carry-holding additions), every addition recorded, Z/N from the delivered product, and the acyclic "
              "division-by-zero path (0xFF, carry set). Pipeline agreement: stage order of one clock edge, operand provenance of "
              "the three back-half stages for all 719 (word, register-class) pairs, commit stage, flag bit positions. The ALU "
              "function shapes (rule of C08) are re-decided here. Every opcode the assembler can emit is a defined form. The pipeline agreement includes: bus read/write happen on every path of a word that asks for them (must-call marker), and the commit stage applies the flag update before the register write (LDFR loads its operand verbatim)."),
        note=("Numeric ALU results for all operand values are not decided beyond the shape facts of C08 (dependence sets, pass-through, "
              "constants, carry classes); MUL/DIV numeric results are not decided, only the carry discipline and the zero-divisor path. "
              "Instruction sequences: per-instruction effects compose because the comparison covers the complete architectural state "
              "and the micro-CFG returns to the same fetch word (C15); a dependence on stale scratch registers would appear as an R6/R7 "
              "symbol in a final expression and is therefore decided."),
        design="3/C01"),
    "C16": dict(
        category="other",
        technique="abstract evaluation of the Display impls (decoding the compiled format templates) + PEG matching of the printed forms against the grammar + exhaustive lexical-class check",
        text=("The Display impls of the AST are evaluated abstractly for every Instruction variant and operand shape (2125 shapes) "
              "with a model of core::fmt that decodes the compiled format templates; the resulting symbolic text (literals plus "
              "numeric, label and padding tokens) is instantiated with representatives of each token class, matched with a PEG "
              "matcher against the grammar file and read back: it must be claimed - under ordered choice - by the alternative "
              "of the same variant with the same operands. The numeric printers are checked against the numeric readers "
              "exhaustively over their lexical classes (all bytes in hex and decimal, all words in decimal). Label, comment "
              "and instruction lines and whole programs (header + lines) must re-parse to the same lines; the parser's step from "
              "`line` pairs to the program's lines is one-to-one and in order for every file-level parse-tree shape (AsmParser::parse "
              "interpreted abstractly, shared with C03)."),
        note=("One genuine defect found and fixed (Display for Asm: padded header, trailing newline). Round-trip equality of "
              "arbitrary runtime strings is not decided as such; the decided part is printer-subset-of-grammar and back to the "
              "same constructor, with labels/comments restricted to text their grammar rules accept."),
        design="3/C16"),
    "C02": dict(
        category="other",
        technique="abstract interpretation of the translator on exhaustively enumerated abstract AST shapes, compared with a reference encoding table",
        text=("Translator::push_instruction is interpreted abstractly on every Instruction variant with every operand shape and "
              "register (2100 shapes; constants and addresses unknown, labels opaque): the emitted slot sequence (opcode byte with "
              "mode/register bits, operand bytes, label and relative-label slots) must equal the reference encoding, the address "
              "counter must advance by exactly the number of slots, and exactly one line record with the same instruction must be "
              "appended. .ORG/.BYTE zero fill, .DB order, .DW byte order (on word cells with disjoint high/low byte sets), .EQU and "
              "label definitions, the relative-jump closure and the late substitution in finish are decided on cells. The symbol "
              "table must come out of every non-defining instruction and directive exactly as it went in (4600 cases; any write "
              "or unmodelled access to it counts). The symbol-table key at both definitions and both look-ups is exactly to_lowercase(name) (sa/symkeys.py): no two names share an entry."),
        note=("One genuine defect found and fixed (.BYTE advanced the counter twice). Not decided: whole multi-line programs "
              "as a composition (follows from the per-line clauses), wrap-around beyond 255 bytes (C06 findings). The reference "
              "encoding is transcribed from the instruction table and cross-checked against the control store's dispatch in C01."),
        design="3/C02"),
    "C06": dict(
        category="other",
        technique="panic-site enumeration over MIR + abstract interpretation of translator, loader and display code on exhaustively enumerated abstract AST shapes; cross-stage key-normalisation data-flow",
        text=("Every assert terminator and panicking call reachable from Translator::compile, ByteCode::bytes, Machine::load/"
              "new_with_program, the TUI's program pane and the Display impls of the AST is an obligation. The entry points are "
              "interpreted abstractly on every Instruction variant with every operand shape the ADTs admit (2127 shapes; numeric "
              "payloads, the address counter, the label table and the image size unknown). The label look-ups are discharged by "
              "the cross-stage argument: the parser validated every reference, and definition, look-up and validation normalise "
              "names identically (data-flow through to_lowercase at every HashMap::insert/get). A failing label check comes out of AsmParser::parse as an error for every error variant; symbol-table keys are to_lowercase(name) at all four sites."),
        note=("Known findings (8 keys, all genuine crash paths for parser-accepted text that need an error channel compile() does "
              "not have): backward .ORG (deliberate panic), and images above 255/240 bytes (u8 address counter, unchecked RAM "
              "index, debug assertion, TUI line ranges). Two defects were fixed (label case, DEC with memory operand). "
              "Not decided: stack exhaustion, allocation failure, panics inside dependencies; .DB/.DW payload lengths are "
              "represented by 1, 2, 3 and 40 elements."),
        design="3/C06"),
    "C03": dict(
        category="other",
        technique="abstract interpretation of the parse-tree consumers against the grammar's child language (abstract pest API); PEG analysis of the grammar file; lexical class enumeration",
        text=("Every consumer function of the pest parse tree is abstractly interpreted on every child-sequence alternative the "
              "grammar can produce for every rule it is called with (1719 runs over 74 function/rule pairs; sub-parsers replaced "
              "by tagged stand-ins; repetitions unrolled 0/1/2 times): no expect/unwrap/unreachable!/slice site may be able to "
              "fail, which is exactly the agreement of the grammar with its hand-written consumer. The same runs yield, per rule, "
              "the AST variant built and the order in which operand children reach its fields. Numeral classes are bounded "
              "lexically (max value <= target type, two ASCII prefix bytes); mnemonics, header, numeric ranges in three bases "
              "with leading zeros, the 40-label limit and the coverage and normalisation of the undefined-label scan are decided "
              "on the grammar file and on MIR; the undefined-label scan is interpreted on every instruction shape; AsmParser::parse "
              "yields exactly one Line per `line` pair of the tree, in order, and the header comment iff the header has one."),
        note=("Not decided: equality of the accepted language with the manual beyond the listed clauses (no independent formal "
              "grammar exists in the sandbox); panics inside pest itself; repetitions longer than two iterations are covered by "
              "the uniform treatment of repeated children (filter/map or a loop body independent of the iteration count), "
              "recorded as an assumption."),
        design="3/C03"),
    "C14": dict(
        category="other",
        technique="abstract interpretation of the board's methods on interval cells (binary32-exact float bounds) and single flag configurations",
        text=("The board's setters are interpreted abstractly on cells: float intervals incl. the NaN cell and both infinities for "
              "the clamping rule (stored = argument inside 0-5 V, 5 V above, 0 V below and for non-numbers), the whole byte "
              "range for the DAC law constant, separated intervals for the comparator refresh after each of the five operations "
              "that move a comparator input (incl. max(input 2, temperature)), all direction/level combinations for the UIO and "
              "jumper bits, all 144 combinations of source x polarity x old level x new level x selected/other for the edge "
              "interrupt of the six sources (comparators moved by their analog input and by a DAC write), and interval cells "
              "for the fan period law; the comparator threshold is the stored DAC voltage byte/100 also at ties: for every byte, the "
              "input equal to that binary32 value gives 0 and the next float above gives 1 (float operations rounded to binary32)."),
        note=("One genuine defect found and fixed (fan period was constantly 0). Not decided: interleaving-dependent flag "
              "histories beyond the per-operation shape."),
        design="3/C14"),
    "C12": dict(
        category="other",
        technique="abstract interpretation of the runner loop against logging stand-ins (loop unrolling); cell-wise abstract interpretation of verify; data-flow checks of the CLI glue",
        text=("RunnerConfig::run is interpreted abstractly with parser, compiler and the machine's entry points replaced by "
              "stand-ins that log calls; for budgets 0/1/n, interrupt/reset lists with duplicates, cycle 0, beyond the end and a "
              "halt at some cycle, the per-cycle call log and the reported cycle count must equal the property's reference loop - "
              "independent of how the loop is written. verify is interpreted on all 27 expectation-subset x match/mismatch cells "
              "(mismatch cells are whole complements, not samples). Exit status, print-before-fail, radix selection, checked u8 "
              "parsing and the 13-way configuration mapping are decided by dominance and data-flow on MIR."),
        note=("Not decided: the printed text (format strings), clap/structopt argument handling, time_taken. The stand-ins assume "
              "the machine entry points have no effect on the runner's own variables (they take &mut Machine only)."),
        design="3/C12"),
    "C08": dict(
        category="other",
        technique="per-function dependence (information-flow) analysis on MIR + abstract interpretation on bit-defined sub-domains and on a partition of the operand space into ~5600 cells (adaptive bisection where the non-relational domain is imprecise)",
        text=("For each of the 16 ALU functions the dependence sets of result and carry-out on (A, B, carry-in) are computed by a "
              "forward dependence analysis of the function's arm and must equal the documented sets; shape facts that follow from "
              "the documentation are decided by abstract interpretation on sub-domains selected by one bit (A odd/even, A or B "
              "with bit 7 set/clear, carry-in set/clear): constant outputs, pass-through identity, bit 0 to carry, the value of "
              "bit 7 for the four shifts, carry hold/invert, carry-in forcing carry-out of the carry-holding add, and Z/N derived "
              "from the result. On a partition of the operand space on which the documented carry-out is constant (adders: A "
              "fixed, B an interval on one side of the carry threshold; NOR: A fixed; shifts: aligned blocks of 16 with fixed bit "
              "0) the result set, carry, zero and negative sets of every cell must be the documented ones."),
        note=("Pointwise equality of the function table is not decided as such: inside a cell only the set of results is compared "
              "(a permutation inside a cell would be invisible); no operand pair is evaluated on its own except where bisection of an "
              "imprecise cell bottoms out. Two genuine defects were found and fixed (ADDH dropped carry-in; RR behaved "
              "as LSR)."),
        design="3/C08"),
    "C15": dict(
        category="proof",
        technique="abstract interpretation of the bus stages per control word and address cell; path enumeration over the micro-program CFG; write-log counting",
        text=("Per control word the data-path stages are interpreted with the address register in the RAM cell and in the I/O cell: "
              "the wait flag is raised exactly for RAM accesses; a waiting edge consumes the flag and changes nothing else; the "
              "micro-address is written exactly once per un-skipped edge. On the micro-CFG all data-condition outcomes of each of "
              "the 1493 instruction forms have the same number of control words and the same sequence of bus accesses, the only "
              "exceptions being the conditional relative jumps (two lengths), MUL and DIV; the interrupt entry has a fixed tail. "
              "Forms that differ only in register numbers (aliased entry words) must have equal cost, and every one of the 123 "
              "form groups must have the documented number of control words and bus accesses (spec/cycles.toml). The MUL/DIV routines touch the bus only for the closing opcode fetch."),
        note=("Decides the cost rule (micro-steps + one wait per RAM access, none for I/O) and its independence of history and step "
              "mode. Not decided: the concrete cycle number of a concrete program (needs register values to classify each access)."),
        design="3/C15"),
    "C11": dict(
        category="other",
        technique="abstract interpretation of the step function against scripted abstract clock edges (loop unrolling) + micro-program reachability analysis",
        text=("The control skeleton of Machine::trigger_key_clock is decided independently of how its loops are written: the "
              "function is abstractly interpreted with the clock edge replaced by an abstract edge that walks a scripted sequence "
              "of DONE/non-DONE control words and halts; in every scenario (at a boundary, with a wait, mid-instruction, halting "
              "during the step, already halted, an instruction of 600 edges; both step modes) the number of edges issued must equal the reference definition "
              "and nothing else may be written. On the micro-CFG no boundary has a boundary successor, and 'a step returns' is "
              "decided per opcode by reachability of a boundary from every control state of its routine."),
        note=("Known findings (36 keys): the 20 undefined first bytes and, for each two-byte form, the undefined second bytes "
              "0x48-0x4f/0x70-0xff sit in exit-less non-DONE self-loops, so an assembly step never returns there. Not decided: "
              "MUL/DIV termination as a numeric fact."),
        design="3/C11"),
    "C07": dict(
        category="other",
        technique="mod-set and reset-value analysis by abstract interpretation over MIR against a reset-class table",
        text=("cpu_reset, master_reset (RawMachine and Machine) and Machine::load are abstractly interpreted on a machine whose "
              "every field is unknown; the interpreter's write log gives the exact set of written leaf fields, which is compared "
              "in both directions with the reset class of every field (spec/reset_classes.toml; an unclassified new field fails "
              "closed), and the value left in every must-reset field is compared with the constant RawMachine::new() assigns. "
              "RAM after load is the image followed by zeros over 240 opaque cells; the externally driven bits of the board's status "
              "register (jumpers, UIO levels) are bit-for-bit unchanged by a master reset; the CPU reset leaves the board untouched. "
              "This covers every history because nothing about the prior state is assumed."),
        note=("Decides: exact reset coverage and power-on values for all 40 leaf fields, load = master reset + RAM clear + image "
              "copy shape + limits, NotSet never stored. Not decided: cycle-for-cycle equality with a fresh machine as an executed "
              "comparison (implied for programs that read no surviving field; the surviving fields are listed in the evidence)."),
        design="3/C07"),
    "C10": dict(
        category="proof",
        technique="decoder-constant partition + abstract interpretation of Bus::read/Bus::write per address cell; def-use identity of RAM index/value; field-writer index",
        text=("The 256 addresses are partitioned by the constants the two decoders compare against; each cell is interpreted "
              "abstractly with byte and bus unknown, giving per cell the mod-set of a write and the storage a read returns, which "
              "must match the address map; RAM index/value identity is shown by def-use chains (no arithmetic between the address "
              "parameter and the index); reads are pure (&self, Freeze types, empty write log); register fields have only their "
              "documented writers; after a write the addressed cell/register holds the written byte (its defined bits for flag "
              "registers) whatever it held before, and no other RAM cell changes; the CPU's clock-edge stages reach the bus only "
              "through Bus::read/Bus::write and only the documented functions may obtain the MISR mutably (who-may-call)."),
        note=("Decides all clauses of DESIGN 3/C10. The sequence-level statement (later reads return the last write) follows for a "
              "plain array from index identity and single writers."),
        design="3/C10"),
    "C13": dict(
        category="proof",
        technique="panic-site enumeration over MIR + abstract interpretation (intervals, finite sets, float intervals) of every stimulus entry point",
        text=("Every assert terminator (bounds, overflow, division) and every call to a panicking function reachable from the "
              "public functions of the machine modules is an obligation; each is discharged by abstract interpretation of all "
              "entry points with the whole machine state and all arguments unknown (only two struct invariants are assumed, and "
              "both are proved by writer/caller analysis). A site the analysis never reached is not discharged silently."),
        note=("Decides panic- and overflow-freedom of the emulator core for every RAM image, state and stimulus value incl. NaN/inf. "
              "Not decided: non-termination (C11), panics inside the log crate. Excluded entry points (with reasons in the evidence): "
              "program loading (C06), MicroprogramRam::set_address and its Index impl (caller-chosen raw index)."),
        design="3/C13"),
    "C05": dict(
        category="proof",
        technique="abstract interpretation over MIR (interval cells, per-entry-point state effects) + complete field-writer index",
        text=("Every public &mut entry point of RawMachine/Machine is abstractly interpreted per initial machine state "
              "with all other fields unknown: a halted machine is shown to be left untouched by clock edges in both step "
              "modes, the only state transitions are those the property lists, the stack/PC predicates are checked on "
              "interval cells that must each yield a single outcome (so a shifted constant or a wrong comparison is caught "
              "for every value, not a sample), every syntactic writer of `state` is covered by an analysed entry point, and an "
              "error stop raised by the register commit of a clock edge survives the opcode load of the same edge. The edge that loads STOP leaves the micro-sequencer at the successor of the fetch word (a continue resumes with the next instruction); Machine::trigger_key_continue is an unconditional call of the analysed routine."),
        note=("One genuine defect found and fixed (error stop downgraded to a regular stop when the same edge loaded STOP). "
              "Decides: absorption of halt states, exact writer set and state effect per entry point, exact bands of the "
              "supervision predicates for the five stack sizes and the program-size limit, halting bytes at every IR load. "
              "Not decided: behaviour when external code pokes registers through registers_mut(), numeric claims about "
              "programs. Assumes set_stacksize is never called with NotSet from outside the workspace."),
        design="3/C05"),
    "C09": dict(
        category="proof",
        technique="micro-program control-flow graph analysis; successor function by abstract interpretation of the sequencer logic on control-store constants",
        text=("The complete control space (260 programmed control words x 256 IR values x every outcome of every data "
              "condition and the pending-interrupt input) is built through the repository's own next-address logic, "
              "evaluated by abstract interpretation on (control word, IR) constants. On that graph: reachability of "
              "programmed words only, return to a fetch on every path for every defined opcode and defined second byte, "
              "the exact undefined-opcode set, absence of cycles outside MUL/DIV, exit edges and loop-variant shape of "
              "the MUL/DIV loops; every IR-loading word latches exactly the byte read (so the routine entered is that of the "
              "fetched opcode, also after STOP + continue)."),
        note=("Decides clauses 1-5 of DESIGN 3/C09. Not decided: termination of MUL/DIV for all 65 536 operand pairs as a "
              "numeric fact (the structural loop variant is decided; the ALU arithmetic is C08's)."),
        design="3/C09"),
}

PENDING_REASON = "check under construction (framework being built; see DESIGN.md section 3 for the planned static rule)"


COMMON_TEXT = (" The rule is decided on MIR built with debug assertions; it carries over to release builds because no debug "
               "assertion in the property's files evaluates an expression with a side effect (sa/profile.py, reported as "
               "profile/debug-assertions-are-pure).")
EXTRA = {
    "C16": "parse/*: the parser reads printed text as the variant, operands and numbers printed (C03's ast/*, numeric/value/hex|dec, program/*).",
    "C12": "The run loop ends on an error halt as on a regular stop (run-loop/error-halt-*). cli/multi-option-one-value: repeatable options of `run` take one value per occurrence (generated clap definition). cli/args-reach-runner/*: each RunnerConfigBuilder call in the CLI wrapper receives the like-named field of the parsed arguments (the program: the file read from args.program) through clone/into/deref/`?` only, by backward provenance on MIR; run() is called on the one builder chain that starts at the default builder.",
    "C04": "pipeline/frame/registers: per programmed word, an edge without a pending commit leaves R0-R7 (the interrupt-enable bit included) unchanged. gate/enable-store: a store of b to 0xF9 enables the key exactly for odd b (256 bytes).",
    "C01": "The bus rule of C10 (bus/*), the ALU rule of C08 (alu/*) and the fetch latch clause (fetch/*) are part of this rule.",
    "C02": "Under parse/*: the parser clauses ast/* (AST variant, operand order, no operand child dropped) and numeric/value "
           "(every numeral consumer interpreted on concrete numeral texts) of C03; the encoding is independent of which names are "
           "already defined.",
    "C03": "entry/text-as-written/*: every caller of AsmParser::parse in both crates (read_asm_file, RunnerConfig::run) hands the file content / configured program to the parser unchanged (backward provenance on MIR, sa/provenance.py). Further clauses: grammar/label-lines (names beginning with a keyword), ast/no-operand-dropped, numeric/value on concrete "
           "numerals, comment/trimmed on 341 concrete comment texts, label-check-propagates, program/* (one Line per line pair), and "
           "error-path/* (the conversion of a pest error interpreted for 0..5 expected rules). labels/limit is evaluated on concrete numbers of definitions on both sides of 40 and of 256. ast/operand-forms: the real operand parsers interpreted on PEG parse trees of concrete operand texts. grammar/no-call-limit: nothing in the workspace arms pest's process-wide call limit.",
    "C05": "The pipeline agreement of C01 runs here as cpu-pipeline/*. fetch/*: an IR-loading control word reads the bus in the same word and latches that byte. limits/load/*: the load clauses of C07's rule (stored stack limit never NOSET, stated program size stored, AUTO = number of image bytes, per directive value) are part of this rule - the supervised limits are the limits the program states.",
    "C06": "The sites of Machine::load are analysed per *PROGRAMSIZE kind and keyed by the kinds they can fail for. contract/*: every call from the analysed functions to a std routine with a panic contract is an obligation.",
    "C07": "A latch classed 'constant None' is shown to be that constant (constant-none/*). load/default-limits: a program without limit directives is translated with the power-on stack limit and AUTO.",
    "C09": "The ALU rule of C08 runs here as alu/* (the loop exits are ALU conditions); both resets leave the power-on control state. sequencer-inputs/accessors: Signals::from wires each sequencer input to the source of its name. loop-data-path/*: the pipeline agreement of C01 restricted to the data-driven control words (registers only).",
    "C10": "construct/*: Machine::new, Machine::new_with_program and the interactive front end's constructors present the configured "
           "input registers; the MICR stores exactly the documented six bits, each at its position. write-port-callers: Bus::write is called by the CPU write stage only. reset_ram-callers: RAM is cleared by the program loaders only. outside/command-register-names: the interactive command FC..FF = v sets the register it names. master-reset-callers/*: a master reset is issued by the program loaders only.",
    "C11": "The sequencer rule of C09 (with the ALU rule of C08) runs here as sequencer/*: a step returns because every defined opcode "
           "reaches the next fetch. step-skeleton/Assembly/every-word: the step skeleton with every programmed non-fetch word in the middle. boundary-predicate: is_instruction_done is true exactly on the fetch words.",
    "C13": "no-recursion on the resolved call graph. contract/* as in C06; operator-trait calls on primitive integers (reference operands) are checked operations (site kind arith-call). premise/load/*: the premise 'the raw machine's stack limit is never NOSET' behind the unreachable! arm of the stack supervision is decided where the limit is stored (C07's load clauses, per directive value).",
    "C14": "fan-period/pointwise: all 256 DAC bytes against the exact two-stage law, float operations evaluated in their MIR type. f2-write-reaches-board/*: every write to 0xF2 reaches the selected board setter exactly once with the written byte in every board state (must-call by marker join; 3 x 64 bytes) - an ICR write is not idempotent because it clears the interrupt flip-flop.",
    "C15": "The interrupt hand-over word and the MUL/DIV routines touch no bus address. documented-path/*: the pipeline agreement of C01 restricted to the data-driven control words (registers only). history/reset-control-state/*: a reset leaves the power-on control state (shared with C09). boundary-predicate: is_instruction_done is true exactly on the fetch words. wait/by-address: the wait flag follows the address handed to the bus, on register assignments that separate every pair of registers. edges/only-the-clock-key: RawMachine::trigger_clock_edge is reached only through Machine::trigger_key_clock (who-may-call over the resolved call graph of both crates) - no key handler or setter issues an uncounted edge.",
    "C17": "Key and command dispatch are must-calls (marker cell); every (code, modifiers) event forwarded to the editor is interpreted "
           "in InputState::handle; no panicking operator arithmetic on Duration/Instant in the TUI module. The helpers the dispatch analysis takes as given (InputState::is_empty, NotificationState::is_empty/clear) are decided on concrete states. load/*: the parser's no-panic clauses (C03 site/*, lexical/*, error-path/*) for the text handed over by `load PATH`.",
}


def main():
    checks = []
    for pid in props:
        c = CLAIMS.get(pid)
        if not c:
            continue
        checks.append({
            "property_id": pid,
            "quick_cmd": "./check %s --tier quick" % pid,
            "thorough_cmd": "./check %s --tier thorough" % pid,
            "evidence_file": "evidence/%s.json" % pid,
            "replay_cmd_template": "./check %s --replay {path}" % pid,
            "engine": "sa",
            "level_claimed": {"category": c["category"], "text": (c["text"] + " " + EXTRA.get(pid, "")).rstrip() + COMMON_TEXT,
                              "design_ref": c["design"]},
            "level_note": BASE_NOTE + c["note"],
            "technique": c["technique"],
        })
    m = {
        "version": 1,
        "setup_cmd": "./setup.sh",
        "hooks": {"guard": "none",
                  "enable": "no hooks: the checks analyse /repo's unmodified source through a rustc_private driver "
                            "(RUSTC_WORKSPACE_WRAPPER) under cargo +nightly check",
                  "baseline_off_cmd": "cd /repo && cargo test --workspace --no-fail-fast --offline",
                  "source_commits": [], "add_only": True},
        "engines": [
            {"name": "factgen", "path": "engines/factgen", "serves_properties": props,
             "kind_free_text": "rustc_private driver dumping resolved MIR, types and constants of the workspace crates as JSON facts"},
            {"name": "gramgen", "path": "engines/gramgen", "serves_properties": ["C03", "C06", "C16"],
             "kind_free_text": "pest_meta dump of syntax/mrasm.pest as pest_derive sees it"},
            {"name": "sa", "path": "sa", "serves_properties": props,
             "kind_free_text": "python3 stdlib rule engine: call graph, mod-sets, dominators, abstract interpretation over MIR, "
                               "micro-program CFG analyser, grammar analyser"}],
        "checks": checks,
        "not_applicable": [{"property_id": p, "reason": NA.get(p, PENDING_REASON)} for p in props if p not in CLAIMS],
        "notes": "Static analysis only; see DESIGN.md.",
    }
    with open(os.path.join(VERIF, "MANIFEST.json"), "w") as fh:
        json.dump(m, fh, indent=1)
    print("MANIFEST.json: %d checks, %d not applicable" % (len(checks), len(m["not_applicable"])))


NA = {}

if __name__ == "__main__":
    main()
