// factgen: a rustc_private driver that dumps the resolved program (MIR, types,
// constants) of the workspace crates of /repo as JSON facts.
//
// Used as RUSTC_WORKSPACE_WRAPPER: argv[1] is the path of the real rustc and is
// dropped.  Facts are written (one write per process) to
// $FACTGEN_OUT/<crate_name>.<crate_type>.json for crates listed in
// $FACTGEN_CRATES (comma separated); all other crates compile normally.
#![feature(rustc_private)]
#![allow(clippy::all)]

extern crate rustc_abi;
extern crate rustc_driver;
extern crate rustc_hir;
extern crate rustc_interface;
extern crate rustc_middle;
extern crate rustc_span;

mod json;
use json::J;

use rustc_hir::def::DefKind;
use rustc_hir::def_id::{DefId, LocalDefId, LOCAL_CRATE};
use rustc_middle::mir::{self, *};
use rustc_middle::ty::{self, Instance, Ty, TyCtxt, TypingEnv};
use rustc_span::{ExpnKind, Span};

struct Cb;

impl rustc_driver::Callbacks for Cb {
    fn after_analysis<'tcx>(
        &mut self,
        _c: &rustc_interface::interface::Compiler,
        tcx: TyCtxt<'tcx>,
    ) -> rustc_driver::Compilation {
        let name = tcx.crate_name(LOCAL_CRATE).to_string();
        let wanted = std::env::var("FACTGEN_CRATES").unwrap_or_default();
        if wanted.split(',').any(|w| w == name) {
            if let Ok(out) = std::env::var("FACTGEN_OUT") {
                let ctype = format!("{:?}", tcx.crate_types().first()).to_lowercase();
                let ctype = if ctype.contains("executable") { "bin" } else { "lib" };
                let j = ty::print::with_no_visible_paths!(ty::print::with_crate_prefix!(dump(tcx, &name)));
                let mut s = String::with_capacity(1 << 24);
                j.write(&mut s);
                let path = format!("{}/{}.{}.json", out, name, ctype);
                std::fs::write(&path, s).expect("factgen: cannot write facts");
            }
        }
        rustc_driver::Compilation::Continue
    }
}

fn main() {
    let mut args: Vec<String> = std::env::args().collect();
    if args.len() > 1 && (args[1].ends_with("rustc") || args[1].contains("/rustc")) {
        args.remove(1);
    }
    rustc_driver::run_compiler(&args, &mut Cb);
}

// ---------------------------------------------------------------------------

fn span_info<'tcx>(tcx: TyCtxt<'tcx>, span: Span) -> (String, i128, i128, Vec<String>) {
    // macro chain, innermost first
    let mut chain = vec![];
    let mut s = span;
    let mut guard = 0;
    while s.from_expansion() && guard < 32 {
        let d = s.ctxt().outer_expn_data();
        match d.kind {
            ExpnKind::Macro(_, name) => chain.push(name.to_string()),
            ExpnKind::Desugaring(k) => chain.push(format!("desugar:{:?}", k)),
            ExpnKind::AstPass(k) => chain.push(format!("astpass:{:?}", k)),
            ExpnKind::Root => {}
        }
        s = d.call_site;
        guard += 1;
    }
    let sm = tcx.sess.source_map();
    let lo = sm.lookup_char_pos(s.lo());
    let hi = sm.lookup_char_pos(s.hi());
    let file = match &lo.file.name {
        rustc_span::FileName::Real(r) => match r.local_path() {
            Some(p) => p.to_string_lossy().to_string(),
            None => format!("{:?}", lo.file.name),
        },
        other => format!("{:?}", other),
    };
    (file, lo.line as i128, hi.line as i128, chain)
}

fn ty_s<'tcx>(ty: Ty<'tcx>) -> String {
    format!("{}", ty)
}

struct Cx<'a, 'tcx> {
    tcx: TyCtxt<'tcx>,
    body: &'a Body<'tcx>,
    env: TypingEnv<'tcx>,
}

impl<'a, 'tcx> Cx<'a, 'tcx> {
    fn place(&self, p: &Place<'tcx>) -> J {
        let mut proj = vec![];
        for (base, elem) in p.iter_projections() {
            let bty = base.ty(self.body, self.tcx);
            let j = match elem {
                ProjectionElem::Deref => J::s("*"),
                ProjectionElem::Field(f, fty) => {
                    let mut o = vec![("f", J::n(f.index() as i128))];
                    match bty.ty.kind() {
                        ty::Adt(adt, _) => {
                            let vi = bty.variant_index.unwrap_or(rustc_abi::FIRST_VARIANT);
                            let v = adt.variant(vi);
                            let fname = v.fields[f].name.to_string();
                            o.push(("n", J::S(fname)));
                            o.push(("adt", J::S(self.tcx.def_path_str(adt.did()))));
                            if adt.is_enum() {
                                o.push(("var", J::S(v.name.to_string())));
                            }
                        }
                        ty::Tuple(_) => o.push(("adt", J::s("(tuple)"))),
                        ty::Closure(..) => o.push(("adt", J::s("(closure)"))),
                        _ => {}
                    }
                    o.push(("ty", J::S(ty_s(fty))));
                    J::obj(o)
                }
                ProjectionElem::Index(l) => J::obj(vec![("i", J::n(l.index() as i128))]),
                ProjectionElem::ConstantIndex { offset, min_length, from_end } => J::obj(vec![
                    ("ci", J::n(offset as i128)),
                    ("min", J::n(min_length as i128)),
                    ("fe", J::B(from_end)),
                ]),
                ProjectionElem::Subslice { from, to, from_end } => J::obj(vec![
                    ("sub", J::n(from as i128)),
                    ("to", J::n(to as i128)),
                    ("fe", J::B(from_end)),
                ]),
                ProjectionElem::Downcast(name, vi) => J::obj(vec![
                    ("d", J::S(name.map(|s| s.to_string()).unwrap_or_default())),
                    ("vi", J::n(vi.index() as i128)),
                ]),
                other => J::S(format!("other:{:?}", other)),
            };
            proj.push(j);
        }
        J::obj(vec![("l", J::n(p.local.index() as i128)), ("p", J::A(proj))])
    }

    fn const_(&self, c: &ConstOperand<'tcx>) -> J {
        let tcx = self.tcx;
        let ty = c.const_.ty();
        let mut o = vec![("ty", J::S(ty_s(ty)))];
        match ty.kind() {
            ty::FnDef(def_id, args) => {
                o.push(("fn", self.callee(*def_id, args)));
                return J::obj(o);
            }
            _ => {}
        }
        let scalar_like = ty.is_integral()
            || ty.is_bool()
            || ty.is_char()
            || matches!(ty.kind(), ty::Adt(..) | ty::Float(_));
        if scalar_like {
            if let Some(si) = c.const_.try_eval_scalar_int(tcx, self.env) {
                let size = si.size();
                let bits = si.to_bits(size);
                let v = if ty.is_signed() {
                    size.sign_extend(bits) as i128
                } else {
                    bits as i128
                };
                o.push(("v", J::n(v)));
                o.push(("sz", J::n(size.bytes() as i128)));
                if let ty::Float(_) = ty.kind() {
                    if size.bytes() == 4 {
                        o.push(("f", J::S(format!("{:?}", f32::from_bits(bits as u32)))));
                    } else if size.bytes() == 8 {
                        o.push(("f", J::S(format!("{:?}", f64::from_bits(bits as u64)))));
                    }
                }
                return J::obj(o);
            }
        }
        // Strings, arrays and everything else: evaluate and inspect the allocation.
        if let Ok(val) = c.const_.eval(tcx, self.env, c.span) {
            self.const_value(val, ty, &mut o);
        } else {
            o.push(("uneval", J::S(format!("{:?}", c.const_))));
        }
        J::obj(o)
    }

    fn const_value(&self, val: ConstValue, ty: Ty<'tcx>, o: &mut Vec<(&'static str, J)>) {
        let tcx = self.tcx;
        match val {
            ConstValue::ZeroSized => o.push(("zst", J::B(true))),
            ConstValue::Scalar(mir::interpret::Scalar::Int(si)) => {
                let size = si.size();
                o.push(("v", J::n(si.to_bits(size) as i128)));
                o.push(("sz", J::n(size.bytes() as i128)));
            }
            ConstValue::Scalar(mir::interpret::Scalar::Ptr(ptr, _)) => {
                // pointer to an allocation: try &[T; N] / &T of scalars
                let (prov, off) = ptr.into_raw_parts();
                let alloc_id = prov.alloc_id();
                if let Some(inner) = ty.builtin_deref(true) {
                    self.dump_alloc(alloc_id, off.bytes() as usize, inner, o);
                } else {
                    o.push(("ptr", J::B(true)));
                }
            }
            ConstValue::Slice { alloc_id, meta } => {
                if let mir::interpret::GlobalAlloc::Memory(a) = tcx.global_alloc(alloc_id) {
                    let a = a.inner();
                    let len = meta as usize;
                    let bytes = a.inspect_with_uninit_and_ptr_outside_interpreter(0..len.min(a.len()));
                    match ty.builtin_deref(true).map(|t| t.kind()) {
                        Some(ty::Str) => {
                            o.push(("str", J::S(String::from_utf8_lossy(bytes).to_string())))
                        }
                        _ => o.push(("bytes", J::A(bytes.iter().map(|b| J::n(*b as i128)).collect()))),
                    }
                }
            }
            ConstValue::Indirect { alloc_id, offset } => {
                self.dump_alloc(alloc_id, offset.bytes() as usize, ty, o);
            }
        }
    }

    /// Structured view of an aggregate constant (struct / tuple / enum) through
    /// rustc's own destructuring of the constant value.
    fn destructure(&self, val: ConstValue, ty: Ty<'tcx>, depth: usize) -> Option<J> {
        let tcx = self.tcx;
        if depth > 4 {
            return None;
        }
        match ty.kind() {
            ty::Adt(..) | ty::Tuple(..) => {}
            _ => return None,
        }
        let d = tcx.try_destructure_mir_constant_for_user_output(val, ty)?;
        let mut fields = vec![];
        for (fv, fty) in d.fields.iter() {
            let mut fo: Vec<(&'static str, J)> = vec![("ty", J::S(ty_s(*fty)))];
            if let Some(sub) = self.destructure(*fv, *fty, depth + 1) {
                fo.push(("agg", sub));
            } else {
                self.const_value(*fv, *fty, &mut fo);
                if let (ty::Float(_), ConstValue::Scalar(mir::interpret::Scalar::Int(si))) = (fty.kind(), fv) {
                    let size = si.size();
                    let bits = si.to_bits(size);
                    if size.bytes() == 4 {
                        fo.push(("f", J::S(format!("{:?}", f32::from_bits(bits as u32)))));
                    } else if size.bytes() == 8 {
                        fo.push(("f", J::S(format!("{:?}", f64::from_bits(bits as u64)))));
                    }
                }
            }
            fields.push(J::obj(fo));
        }
        let mut o: Vec<(&'static str, J)> = vec![("fields", J::A(fields))];
        if let Some(v) = d.variant {
            o.push(("vi", J::n(v.index() as i128)));
        }
        if let ty::Adt(adt, _) = ty.kind() {
            o.push(("name", J::S(tcx.def_path_str(adt.did()))));
            o.push(("is_enum", J::B(adt.is_enum())));
        }
        Some(J::obj(o))
    }

    fn dump_alloc(
        &self,
        alloc_id: mir::interpret::AllocId,
        off: usize,
        ty: Ty<'tcx>,
        o: &mut Vec<(&'static str, J)>,
    ) {
        let tcx = self.tcx;
        if matches!(ty.kind(), ty::Adt(..) | ty::Tuple(..)) {
            let val = ConstValue::Indirect {
                alloc_id,
                offset: rustc_abi::Size::from_bytes(off as u64),
            };
            if let Some(j) = self.destructure(val, ty, 0) {
                o.push(("agg", j));
                return;
            }
        }
        let mir::interpret::GlobalAlloc::Memory(a) = tcx.global_alloc(alloc_id) else {
            o.push(("alloc", J::s("non-memory")));
            return;
        };
        let a = a.inner();
        let Ok(layout) = tcx.layout_of(self.env.as_query_input(ty)) else {
            return;
        };
        let size = layout.size.bytes() as usize;
        if size == 0 || size > 16384 || off + size > a.len() {
            o.push(("alloc_size", J::n(size as i128)));
            return;
        }
        if !a.provenance().ptrs().is_empty() {
            // contains pointers (e.g. &[&str]) - resolve one level for arrays of &str
            if let ty::Array(elem, _) = ty.kind() {
                if let ty::Ref(_, inner, _) = elem.kind() {
                    if inner.is_str() {
                        let ptr_size = tcx.data_layout.pointer_size().bytes() as usize;
                        let n = size / (2 * ptr_size);
                        let mut strs = vec![];
                        for i in 0..n {
                            let base = off + i * 2 * ptr_size;
                            let lenb = a.inspect_with_uninit_and_ptr_outside_interpreter(
                                base + ptr_size..base + 2 * ptr_size,
                            );
                            let mut l = 0usize;
                            for (k, b) in lenb.iter().enumerate() {
                                l |= (*b as usize) << (8 * k);
                            }
                            let mut found = None;
                            for (o2, prov) in a.provenance().ptrs().iter() {
                                if o2.bytes() as usize == base {
                                    found = Some(prov.alloc_id());
                                }
                            }
                            if let Some(aid) = found {
                                if let mir::interpret::GlobalAlloc::Memory(sa) = tcx.global_alloc(aid) {
                                    let sa = sa.inner();
                                    // offset inside target alloc is stored in the bytes
                                    let offb = a.inspect_with_uninit_and_ptr_outside_interpreter(base..base + ptr_size);
                                    let mut so = 0usize;
                                    for (k, b) in offb.iter().enumerate() {
                                        so |= (*b as usize) << (8 * k);
                                    }
                                    if so + l <= sa.len() {
                                        let bytes = sa.inspect_with_uninit_and_ptr_outside_interpreter(so..so + l);
                                        strs.push(J::S(String::from_utf8_lossy(bytes).to_string()));
                                        continue;
                                    }
                                }
                            }
                            strs.push(J::Null);
                        }
                        o.push(("strs", J::A(strs)));
                        return;
                    }
                }
            }
            o.push(("alloc", J::s("has-pointers")));
            return;
        }
        let bytes = a.inspect_with_uninit_and_ptr_outside_interpreter(off..off + size);
        // element size: arrays of scalars / scalar-like ADTs
        let esz = match ty.kind() {
            ty::Array(elem, _) => tcx
                .layout_of(self.env.as_query_input(*elem))
                .map(|l| l.size.bytes() as usize)
                .unwrap_or(1),
            _ => size,
        };
        if esz == 1 || esz == 2 || esz == 4 || esz == 8 || esz == 16 {
            let mut v = vec![];
            for ch in bytes.chunks(esz) {
                let mut x: u128 = 0;
                for (k, b) in ch.iter().enumerate() {
                    x |= (*b as u128) << (8 * k);
                }
                v.push(J::n(x as i128));
            }
            o.push(("arr", J::A(v)));
            o.push(("esz", J::n(esz as i128)));
        } else {
            o.push(("bytes", J::A(bytes.iter().map(|b| J::n(*b as i128)).collect())));
        }
    }

    fn callee(&self, def_id: DefId, args: ty::GenericArgsRef<'tcx>) -> J {
        let tcx = self.tcx;
        let mut o = vec![
            ("def", J::S(tcx.def_path_str(def_id))),
            ("defargs", J::S(tcx.def_path_str_with_args(def_id, args))),
        ];
        let mut resolved = None;
        if let Ok(Some(inst)) = Instance::try_resolve(tcx, self.env, def_id, args) {
            resolved = Some(inst);
        }
        match resolved {
            Some(inst) => {
                let rid = inst.def_id();
                o.push(("res", J::S(tcx.def_path_str(rid))));
                o.push(("local", J::B(rid.is_local())));
                let kind = format!("{:?}", inst.def);
                let kind = kind.split('(').next().unwrap_or("").to_string();
                o.push(("ik", J::S(kind)));
                o.push(("krate", J::S(tcx.crate_name(rid.krate).to_string())));
            }
            None => {
                o.push(("res", J::Null));
                o.push(("local", J::B(def_id.is_local())));
                o.push(("krate", J::S(tcx.crate_name(def_id.krate).to_string())));
            }
        }
        let ga: Vec<J> = args.iter().map(|a| J::S(format!("{}", a))).collect();
        o.push(("ga", J::A(ga)));
        // <T as Into<U>>::into is core's blanket impl calling <U as From<T>>::from:
        // resolve that callee as well so the analysis can follow it.
        if tcx.def_path_str(def_id) == "core::convert::Into::into" && args.len() == 2 {
            if let Some(from_trait) = tcx.lang_items().from_trait() {
                if let Some(from_fn) = tcx
                    .associated_items(from_trait)
                    .in_definition_order()
                    .find(|i| i.name().as_str() == "from")
                {
                    let t = args[0];
                    let u = args[1];
                    let fargs = tcx.mk_args(&[u, t]);
                    if let Ok(Some(inst)) = Instance::try_resolve(tcx, self.env, from_fn.def_id, fargs) {
                        let rid = inst.def_id();
                        o.push(("into_from", J::S(tcx.def_path_str(rid))));
                        o.push(("into_from_local", J::B(rid.is_local())));
                    }
                }
            }
        }
        J::obj(o)
    }

    fn operand(&self, op: &Operand<'tcx>) -> J {
        match op {
            Operand::Copy(p) => J::obj(vec![("c", self.place(p))]),
            Operand::Move(p) => J::obj(vec![("m", self.place(p))]),
            Operand::Constant(c) => J::obj(vec![("k", self.const_(c))]),
            #[allow(unreachable_patterns)]
            other => J::obj(vec![("other", J::S(format!("{:?}", other)))]),
        }
    }

    fn rvalue(&self, rv: &Rvalue<'tcx>) -> J {
        let tcx = self.tcx;
        match rv {
            Rvalue::Use(op, ..) => J::obj(vec![("k", J::s("use")), ("o", self.operand(op))]),
            Rvalue::Repeat(op, n) => {
                let cnt = n.try_to_target_usize(tcx).map(|x| x as i128).unwrap_or(-1);
                J::obj(vec![("k", J::s("repeat")), ("o", self.operand(op)), ("n", J::n(cnt))])
            }
            Rvalue::Ref(_, bk, p) => {
                let b = match bk {
                    BorrowKind::Shared => "shared",
                    BorrowKind::Mut { .. } => "mut",
                    BorrowKind::Fake(_) => "fake",
                };
                J::obj(vec![("k", J::s("ref")), ("bk", J::s(b)), ("p", self.place(p))])
            }
            Rvalue::RawPtr(k, p) => J::obj(vec![
                ("k", J::s("rawptr")),
                ("bk", J::S(format!("{:?}", k))),
                ("p", self.place(p)),
            ]),
            Rvalue::ThreadLocalRef(d) => {
                J::obj(vec![("k", J::s("tlr")), ("def", J::S(tcx.def_path_str(*d)))])
            }
            Rvalue::Cast(ck, op, ty) => {
                let from = op.ty(self.body, tcx);
                J::obj(vec![
                    ("k", J::s("cast")),
                    ("ck", J::S(format!("{:?}", ck))),
                    ("o", self.operand(op)),
                    ("from", J::S(ty_s(from))),
                    ("ty", J::S(ty_s(*ty))),
                ])
            }
            Rvalue::BinaryOp(op, ab) => {
                let (a, b) = &**ab;
                J::obj(vec![
                    ("k", J::s("bin")),
                    ("op", J::S(format!("{:?}", op))),
                    ("a", self.operand(a)),
                    ("b", self.operand(b)),
                    ("aty", J::S(ty_s(a.ty(self.body, tcx)))),
                ])
            }
            Rvalue::UnaryOp(op, a) => J::obj(vec![
                ("k", J::s("un")),
                ("op", J::S(format!("{:?}", op))),
                ("a", self.operand(a)),
                ("aty", J::S(ty_s(a.ty(self.body, tcx)))),
            ]),
            Rvalue::Discriminant(p) => {
                let pty = p.ty(self.body, tcx).ty;
                J::obj(vec![("k", J::s("discr")), ("p", self.place(p)), ("ty", J::S(ty_s(pty)))])
            }
            Rvalue::Aggregate(kind, ops) => {
                let mut o = vec![("k", J::s("agg"))];
                match &**kind {
                    AggregateKind::Array(t) => {
                        o.push(("ak", J::s("array")));
                        o.push(("ty", J::S(ty_s(*t))));
                    }
                    AggregateKind::Tuple => o.push(("ak", J::s("tuple"))),
                    AggregateKind::Adt(did, vi, _, _, active) => {
                        let adt = tcx.adt_def(*did);
                        o.push(("ak", J::s("adt")));
                        o.push(("name", J::S(tcx.def_path_str(*did))));
                        o.push(("vi", J::n(vi.index() as i128)));
                        o.push(("variant", J::S(adt.variant(*vi).name.to_string())));
                        let fnames: Vec<J> = adt
                            .variant(*vi)
                            .fields
                            .iter()
                            .map(|f| J::S(f.name.to_string()))
                            .collect();
                        o.push(("fnames", J::A(fnames)));
                        if let Some(a) = active {
                            o.push(("active", J::n(a.index() as i128)));
                        }
                    }
                    AggregateKind::Closure(did, _) => {
                        o.push(("ak", J::s("closure")));
                        o.push(("name", J::S(tcx.def_path_str(*did))));
                    }
                    other => {
                        o.push(("ak", J::S(format!("other:{:?}", other))));
                    }
                }
                o.push(("fields", J::A(ops.iter().map(|x| self.operand(x)).collect())));
                J::obj(o)
            }
            Rvalue::CopyForDeref(p) => J::obj(vec![("k", J::s("use")), ("o", J::obj(vec![("c", self.place(p))]))]),
            other => J::obj(vec![("k", J::s("other")), ("dbg", J::S(format!("{:?}", other)))]),
        }
    }

    fn src(&self, si: &SourceInfo) -> Vec<(&'static str, J)> {
        let (_file, lo, _hi, chain) = span_info(self.tcx, si.span);
        let mut o = vec![("ln", J::n(lo))];
        if !chain.is_empty() {
            o.push(("mx", J::A(chain.into_iter().map(J::S).collect())));
        }
        o
    }

    fn statement(&self, st: &Statement<'tcx>) -> Option<J> {
        let mut o = match &st.kind {
            StatementKind::Assign(b) => {
                let (p, rv) = &**b;
                vec![("k", J::s("assign")), ("p", self.place(p)), ("r", self.rvalue(rv))]
            }
            StatementKind::SetDiscriminant { place, variant_index } => vec![
                ("k", J::s("setdiscr")),
                ("p", self.place(place)),
                ("vi", J::n(variant_index.index() as i128)),
            ],
            StatementKind::StorageLive(_)
            | StatementKind::StorageDead(_)
            | StatementKind::Nop
            | StatementKind::FakeRead(..)
            | StatementKind::PlaceMention(..)
            | StatementKind::AscribeUserType(..)
            | StatementKind::Coverage(..)
            | StatementKind::ConstEvalCounter
            | StatementKind::BackwardIncompatibleDropHint { .. } => return None,
            StatementKind::Intrinsic(i) => vec![("k", J::s("intrinsic")), ("dbg", J::S(format!("{:?}", i)))],
            other => vec![("k", J::s("other")), ("dbg", J::S(format!("{:?}", other)))],
        };
        o.extend(self.src(&st.source_info));
        Some(J::obj(o))
    }

    fn terminator(&self, t: &Terminator<'tcx>) -> J {
        let tcx = self.tcx;
        let bb = |b: &BasicBlock| J::n(b.index() as i128);
        let unwind = |u: &UnwindAction| match u {
            UnwindAction::Cleanup(b) => J::n(b.index() as i128),
            _ => J::Null,
        };
        let mut o = match &t.kind {
            TerminatorKind::Goto { target } => vec![("k", J::s("goto")), ("t", bb(target))],
            TerminatorKind::SwitchInt { discr, targets } => {
                let dty = discr.ty(self.body, tcx);
                let vals: Vec<J> = targets
                    .iter()
                    .map(|(v, b)| J::A(vec![J::n(v as i128), J::n(b.index() as i128)]))
                    .collect();
                vec![
                    ("k", J::s("switch")),
                    ("d", self.operand(discr)),
                    ("ty", J::S(ty_s(dty))),
                    ("vals", J::A(vals)),
                    ("else", bb(&targets.otherwise())),
                ]
            }
            TerminatorKind::Return => vec![("k", J::s("ret"))],
            TerminatorKind::Unreachable => vec![("k", J::s("unreachable"))],
            TerminatorKind::UnwindResume => vec![("k", J::s("resume"))],
            TerminatorKind::UnwindTerminate(_) => vec![("k", J::s("abort"))],
            TerminatorKind::Drop { place, target, unwind: u, .. } => vec![
                ("k", J::s("drop")),
                ("p", self.place(place)),
                ("pty", J::S(ty_s(place.ty(self.body, tcx).ty))),
                ("t", bb(target)),
                ("u", unwind(u)),
            ],
            TerminatorKind::Call { func, args, destination, target, unwind: u, fn_span, .. } => {
                let f = match func {
                    Operand::Constant(c) => match c.const_.ty().kind() {
                        ty::FnDef(d, a) => self.callee(*d, a),
                        _ => J::obj(vec![("indirect", self.operand(func))]),
                    },
                    _ => J::obj(vec![
                        ("indirect", self.operand(func)),
                        ("fty", J::S(ty_s(func.ty(self.body, tcx)))),
                    ]),
                };
                let (_f, fl, _h, _c) = span_info(tcx, *fn_span);
                vec![
                    ("k", J::s("call")),
                    ("f", f),
                    ("args", J::A(args.iter().map(|a| self.operand(&a.node)).collect())),
                    ("dest", self.place(destination)),
                    ("t", target.as_ref().map(bb).unwrap_or(J::Null)),
                    ("u", unwind(u)),
                    ("fln", J::n(fl)),
                ]
            }
            TerminatorKind::Assert { cond, expected, msg, target, unwind: u } => {
                let m = match &**msg {
                    AssertKind::BoundsCheck { len, index } => J::obj(vec![
                        ("kind", J::s("bounds")),
                        ("len", self.operand(len)),
                        ("index", self.operand(index)),
                    ]),
                    AssertKind::Overflow(op, a, b) => J::obj(vec![
                        ("kind", J::s("overflow")),
                        ("op", J::S(format!("{:?}", op))),
                        ("a", self.operand(a)),
                        ("b", self.operand(b)),
                    ]),
                    AssertKind::OverflowNeg(a) => {
                        J::obj(vec![("kind", J::s("overflow_neg")), ("a", self.operand(a))])
                    }
                    AssertKind::DivisionByZero(a) => {
                        J::obj(vec![("kind", J::s("div_zero")), ("a", self.operand(a))])
                    }
                    AssertKind::RemainderByZero(a) => {
                        J::obj(vec![("kind", J::s("rem_zero")), ("a", self.operand(a))])
                    }
                    other => J::obj(vec![("kind", J::s("other")), ("dbg", J::S(format!("{:?}", other)))]),
                };
                vec![
                    ("k", J::s("assert")),
                    ("c", self.operand(cond)),
                    ("exp", J::B(*expected)),
                    ("msg", m),
                    ("t", bb(target)),
                    ("u", unwind(u)),
                ]
            }
            TerminatorKind::FalseEdge { real_target, .. } => vec![("k", J::s("goto")), ("t", bb(real_target))],
            TerminatorKind::FalseUnwind { real_target, .. } => {
                vec![("k", J::s("goto")), ("t", bb(real_target))]
            }
            other => vec![("k", J::s("other")), ("dbg", J::S(format!("{:?}", other)))],
        };
        o.extend(self.src(&t.source_info));
        J::obj(o)
    }
}

fn dump_body<'tcx>(tcx: TyCtxt<'tcx>, ldid: LocalDefId) -> Option<J> {
    let def_id = ldid.to_def_id();
    let kind = tcx.def_kind(def_id);
    let body: &Body<'tcx> = match kind {
        DefKind::Fn | DefKind::AssocFn | DefKind::Closure | DefKind::Ctor(..) => {
            if !tcx.is_mir_available(def_id) {
                return None;
            }
            tcx.optimized_mir(def_id)
        }
        DefKind::Const { .. } | DefKind::AssocConst { .. } | DefKind::Static { .. } | DefKind::AnonConst | DefKind::InlineConst => {
            return None;
        }
        _ => return None,
    };
    let env = TypingEnv::post_analysis(tcx, def_id);
    let cx = Cx { tcx, body, env };
    let (file, lo, hi, chain) = span_info(tcx, tcx.def_span(def_id));
    let mut o = vec![
        ("path", J::S(tcx.def_path_str(def_id))),
        ("kind", J::S(format!("{:?}", kind))),
        ("file", J::S(file)),
        ("line", J::n(lo)),
        ("line_hi", J::n(hi)),
        ("argc", J::n(body.arg_count as i128)),
    ];
    // full body span end
    let (_f, _blo, bhi, _c) = span_info(tcx, body.span);
    o.push(("body_hi", J::n(bhi)));
    if !chain.is_empty() {
        o.push(("mx", J::A(chain.into_iter().map(J::S).collect())));
    }
    if matches!(kind, DefKind::Fn | DefKind::AssocFn) {
        o.push(("vis", J::S(format!("{:?}", tcx.visibility(def_id)))));
        o.push(("is_const", J::B(tcx.is_const_fn(def_id))));
        let generics = tcx.generics_of(def_id);
        o.push(("generic", J::B(generics.requires_monomorphization(tcx))));
    }
    if matches!(kind, DefKind::AssocFn) {
        let parent = tcx.parent(def_id);
        if matches!(tcx.def_kind(parent), DefKind::Impl { .. }) {
            let self_ty = tcx.type_of(parent).instantiate_identity().skip_norm_wip();
            o.push(("self_ty", J::S(ty_s(self_ty))));
            o.push(("impl", J::S(tcx.def_path_str(parent))));
        }
    }
    if matches!(kind, DefKind::Closure) {
        o.push(("parent", J::S(tcx.def_path_str(tcx.parent(def_id)))));
    }
    // locals
    let mut names: Vec<Option<String>> = vec![None; body.local_decls.len()];
    for vdi in &body.var_debug_info {
        if let VarDebugInfoContents::Place(p) = &vdi.value {
            if p.projection.is_empty() {
                names[p.local.index()] = Some(vdi.name.to_string());
            }
        }
    }
    let locals: Vec<J> = body
        .local_decls
        .iter_enumerated()
        .map(|(l, d)| {
            let mut lo = vec![("ty", J::S(ty_s(d.ty)))];
            if let Some(n) = &names[l.index()] {
                lo.push(("n", J::S(n.clone())));
            }
            if let ty::Adt(adt, _) = d.ty.kind() {
                lo.push(("adt", J::S(tcx.def_path_str(adt.did()))));
            }
            J::obj(lo)
        })
        .collect();
    o.push(("locals", J::A(locals)));
    // debug info for closures' captured upvars etc.
    let mut dbg = vec![];
    for vdi in &body.var_debug_info {
        if let VarDebugInfoContents::Place(p) = &vdi.value {
            if !p.projection.is_empty() {
                dbg.push(J::obj(vec![("n", J::S(vdi.name.to_string())), ("p", cx.place(p))]));
            }
        }
    }
    if !dbg.is_empty() {
        o.push(("dbgvars", J::A(dbg)));
    }
    let blocks: Vec<J> = body
        .basic_blocks
        .iter()
        .map(|bb| {
            let stmts: Vec<J> = bb.statements.iter().filter_map(|s| cx.statement(s)).collect();
            let mut bo = vec![("s", J::A(stmts)), ("t", cx.terminator(bb.terminator()))];
            if bb.is_cleanup {
                bo.push(("cleanup", J::B(true)));
            }
            J::obj(bo)
        })
        .collect();
    o.push(("blocks", J::A(blocks)));
    Some(J::obj(o))
}

fn dump_types<'tcx>(tcx: TyCtxt<'tcx>) -> J {
    let mut out = vec![];
    for ldid in tcx.hir_crate_items(()).definitions() {
        let def_id = ldid.to_def_id();
        let kind = tcx.def_kind(def_id);
        if !matches!(kind, DefKind::Struct | DefKind::Enum | DefKind::Union) {
            continue;
        }
        let adt = tcx.adt_def(def_id);
        let env = TypingEnv::post_analysis(tcx, def_id);
        let mut o = vec![
            ("path", J::S(tcx.def_path_str(def_id))),
            ("kind", J::S(format!("{:?}", kind))),
            ("vis", J::S(format!("{:?}", tcx.visibility(def_id)))),
        ];
        let (file, lo, _hi, chain) = span_info(tcx, tcx.def_span(def_id));
        o.push(("file", J::S(file)));
        o.push(("line", J::n(lo)));
        if !chain.is_empty() {
            o.push(("mx", J::A(chain.into_iter().map(J::S).collect())));
        }
        let generics = tcx.generics_of(def_id);
        let is_generic = generics.requires_monomorphization(tcx);
        o.push(("generic", J::B(is_generic)));
        if !is_generic {
            let ty = tcx.type_of(def_id).instantiate_identity().skip_norm_wip();
            o.push(("freeze", J::B(ty.is_freeze(tcx, env))));
            if let Ok(l) = tcx.layout_of(env.as_query_input(ty)) {
                o.push(("size", J::n(l.size.bytes() as i128)));
            }
        }
        let discrs: Vec<(usize, u128)> = if adt.is_enum() {
            adt.discriminants(tcx).map(|(vi, d)| (vi.index(), d.val)).collect()
        } else {
            vec![]
        };
        let variants: Vec<J> = adt
            .variants()
            .iter_enumerated()
            .map(|(vi, v)| {
                let fields: Vec<J> = v
                    .fields
                    .iter()
                    .map(|f| {
                        let fty = tcx.type_of(f.did).instantiate_identity().skip_norm_wip();
                        J::obj(vec![("n", J::S(f.name.to_string())), ("ty", J::S(ty_s(fty)))])
                    })
                    .collect();
                let mut vo = vec![("n", J::S(v.name.to_string())), ("fields", J::A(fields))];
                if let Some((_, d)) = discrs.iter().find(|(i, _)| *i == vi.index()) {
                    vo.push(("discr", J::n(*d as i128)));
                }
                J::obj(vo)
            })
            .collect();
        o.push(("variants", J::A(variants)));
        out.push(J::obj(o));
    }
    J::A(out)
}

/// Foreign (non-std) ADTs that occur in the local declarations of local bodies: variant names,
/// discriminants and field types, so that rules can build values of e.g. crossterm's KeyCode.
fn dump_foreign_types<'tcx>(tcx: TyCtxt<'tcx>) -> J {
    use rustc_middle::ty::TypeVisitableExt;
    let mut seen: std::collections::BTreeMap<String, J> = std::collections::BTreeMap::new();
    let keys: Vec<LocalDefId> = tcx.mir_keys(()).iter().copied().collect();
    for ldid in keys {
        let def_id = ldid.to_def_id();
        if !matches!(tcx.def_kind(def_id), DefKind::Fn | DefKind::AssocFn | DefKind::Closure) {
            continue;
        }
        let body = tcx.optimized_mir(def_id);
        for decl in body.local_decls.iter() {
            for arg in decl.ty.walk() {
                let Some(t) = arg.as_type() else { continue };
                let rustc_middle::ty::TyKind::Adt(adt, _) = t.kind() else { continue };
                let did = adt.did();
                if did.is_local() {
                    continue;
                }
                let kr = tcx.crate_name(did.krate).to_string();
                if matches!(kr.as_str(), "core" | "alloc" | "std" | "emulator_2a_lib") {
                    continue;
                }
                let path = tcx.def_path_str(did);
                if seen.contains_key(&path) {
                    continue;
                }
                let discrs: Vec<(usize, u128)> = if adt.is_enum() {
                    adt.discriminants(tcx).map(|(vi, d)| (vi.index(), d.val)).collect()
                } else {
                    vec![]
                };
                let variants: Vec<J> = adt
                    .variants()
                    .iter_enumerated()
                    .map(|(vi, v)| {
                        let fields: Vec<J> = v
                            .fields
                            .iter()
                            .map(|f| {
                                let fty = tcx.type_of(f.did).instantiate_identity().skip_norm_wip();
                                let _ = fty.has_param();
                                J::obj(vec![("n", J::S(f.name.to_string())), ("ty", J::S(ty_s(fty)))])
                            })
                            .collect();
                        let mut vo = vec![("n", J::S(v.name.to_string())), ("fields", J::A(fields))];
                        if let Some((_, d)) = discrs.iter().find(|(i, _)| *i == vi.index()) {
                            vo.push(("discr", J::n(*d as i128)));
                        }
                        J::obj(vo)
                    })
                    .collect();
                let kind = if adt.is_enum() { "Enum" } else if adt.is_union() { "Union" } else { "Struct" };
                seen.insert(
                    path.clone(),
                    J::obj(vec![
                        ("path", J::S(path)),
                        ("kind", J::S(kind.to_string())),
                        ("vis", J::S("Public".to_string())),
                        ("file", J::S(String::new())),
                        ("line", J::n(0)),
                        ("generic", J::B(tcx.generics_of(did).requires_monomorphization(tcx))),
                        ("foreign", J::B(true)),
                        ("krate", J::S(kr)),
                        ("variants", J::A(variants)),
                    ]),
                );
            }
        }
    }
    J::A(seen.into_values().collect())
}

fn dump_consts<'tcx>(tcx: TyCtxt<'tcx>) -> J {
    let mut out = vec![];
    for ldid in tcx.hir_crate_items(()).definitions() {
        let def_id = ldid.to_def_id();
        let kind = tcx.def_kind(def_id);
        if !matches!(kind, DefKind::Const { .. } | DefKind::AssocConst { .. }) {
            continue;
        }
        // skip trait-declared consts without value / generic ones
        if tcx.generics_of(def_id).requires_monomorphization(tcx) {
            continue;
        }
        if let DefKind::AssocConst { .. } = kind {
            let parent = tcx.parent(def_id);
            if matches!(tcx.def_kind(parent), DefKind::Trait) {
                continue;
            }
            if tcx.generics_of(parent).requires_monomorphization(tcx) {
                continue;
            }
        }
        let env = TypingEnv::post_analysis(tcx, def_id);
        let ty = tcx.type_of(def_id).instantiate_identity().skip_norm_wip();
        let mut o = vec![("path", J::S(tcx.def_path_str(def_id))), ("ty", J::S(ty_s(ty)))];
        let (file, lo, _hi, chain) = span_info(tcx, tcx.def_span(def_id));
        o.push(("file", J::S(file)));
        o.push(("line", J::n(lo)));
        if !chain.is_empty() {
            o.push(("mx", J::A(chain.into_iter().map(J::S).collect())));
        }
        // a dummy body is needed for Cx; use const_value helpers through a tiny shim
        if let Ok(val) = tcx.const_eval_poly(def_id) {
            let shim = ConstShim { tcx, env };
            shim.value(val, ty, &mut o);
        }
        out.push(J::obj(o));
    }
    J::A(out)
}

struct ConstShim<'tcx> {
    tcx: TyCtxt<'tcx>,
    env: TypingEnv<'tcx>,
}

impl<'tcx> ConstShim<'tcx> {
    fn value(&self, val: ConstValue, ty: Ty<'tcx>, o: &mut Vec<(&'static str, J)>) {
        let tcx = self.tcx;
        match val {
            ConstValue::ZeroSized => o.push(("zst", J::B(true))),
            ConstValue::Scalar(mir::interpret::Scalar::Int(si)) => {
                let size = si.size();
                let bits = si.to_bits(size);
                let v = if ty.is_signed() { size.sign_extend(bits) as i128 } else { bits as i128 };
                o.push(("v", J::n(v)));
                o.push(("sz", J::n(size.bytes() as i128)));
                if let ty::Float(_) = ty.kind() {
                    if size.bytes() == 4 {
                        o.push(("f", J::S(format!("{:?}", f32::from_bits(bits as u32)))));
                    }
                }
            }
            ConstValue::Indirect { alloc_id, offset } => {
                let mir::interpret::GlobalAlloc::Memory(a) = tcx.global_alloc(alloc_id) else {
                    return;
                };
                let a = a.inner();
                let Ok(layout) = tcx.layout_of(self.env.as_query_input(ty)) else {
                    return;
                };
                let size = layout.size.bytes() as usize;
                let off = offset.bytes() as usize;
                if size == 0 || size > 16384 || off + size > a.len() || !a.provenance().ptrs().is_empty() {
                    o.push(("alloc_size", J::n(size as i128)));
                    return;
                }
                let bytes = a.inspect_with_uninit_and_ptr_outside_interpreter(off..off + size);
                let esz = match ty.kind() {
                    ty::Array(elem, _) => tcx
                        .layout_of(self.env.as_query_input(*elem))
                        .map(|l| l.size.bytes() as usize)
                        .unwrap_or(1),
                    _ => size,
                };
                if matches!(esz, 1 | 2 | 4 | 8 | 16) {
                    let mut v = vec![];
                    for ch in bytes.chunks(esz) {
                        let mut x: u128 = 0;
                        for (k, b) in ch.iter().enumerate() {
                            x |= (*b as u128) << (8 * k);
                        }
                        v.push(J::n(x as i128));
                    }
                    o.push(("arr", J::A(v)));
                    o.push(("esz", J::n(esz as i128)));
                }
            }
            ConstValue::Slice { alloc_id, meta } => {
                if let mir::interpret::GlobalAlloc::Memory(a) = tcx.global_alloc(alloc_id) {
                    let a = a.inner();
                    let len = (meta as usize).min(a.len());
                    let bytes = a.inspect_with_uninit_and_ptr_outside_interpreter(0..len);
                    o.push(("str", J::S(String::from_utf8_lossy(bytes).to_string())));
                }
            }
            _ => {}
        }
    }
}

fn dump<'tcx>(tcx: TyCtxt<'tcx>, name: &str) -> J {
    let mut bodies = vec![];
    let mut keys: Vec<LocalDefId> = tcx.mir_keys(()).iter().copied().collect();
    keys.sort_by_key(|k| tcx.def_path_str(k.to_def_id()));
    for ldid in keys {
        if let Some(b) = dump_body(tcx, ldid) {
            bodies.push(b);
        }
    }
    let features: Vec<J> = std::env::args()
        .collect::<Vec<_>>()
        .windows(2)
        .filter(|w| w[0] == "--cfg" && w[1].starts_with("feature="))
        .map(|w| J::S(w[1].clone()))
        .collect();
    J::obj(vec![
        ("crate", J::S(name.to_string())),
        ("features", J::A(features)),
        ("bodies", J::A(bodies)),
        ("types", dump_types(tcx)),
        ("foreign_types", dump_foreign_types(tcx)),
        ("consts", dump_consts(tcx)),
    ])
}
