// gramgen: dump a pest grammar, exactly as pest_derive sees it (parse +
// validate + optimize with pest_meta), as JSON on stdout.
use pest_meta::optimizer::{OptimizedExpr, OptimizedRule};
use pest_meta::ast::RuleType;

fn esc(s: &str) -> String {
    let mut o = String::from("\"");
    for c in s.chars() {
        match c {
            '"' => o.push_str("\\\""),
            '\\' => o.push_str("\\\\"),
            '\n' => o.push_str("\\n"),
            '\r' => o.push_str("\\r"),
            '\t' => o.push_str("\\t"),
            c if (c as u32) < 0x20 => o.push_str(&format!("\\u{:04x}", c as u32)),
            c => o.push(c),
        }
    }
    o.push('"');
    o
}

fn expr(e: &OptimizedExpr) -> String {
    use OptimizedExpr::*;
    match e {
        Str(s) => format!("{{\"k\":\"str\",\"s\":{}}}", esc(s)),
        Insens(s) => format!("{{\"k\":\"insens\",\"s\":{}}}", esc(s)),
        Range(a, b) => format!("{{\"k\":\"range\",\"a\":{},\"b\":{}}}", esc(a), esc(b)),
        Ident(s) => format!("{{\"k\":\"ident\",\"s\":{}}}", esc(s)),
        PeekSlice(a, b) => format!("{{\"k\":\"peekslice\",\"a\":{},\"b\":{}}}", a, b.map(|x| x.to_string()).unwrap_or("null".into())),
        PosPred(x) => format!("{{\"k\":\"pospred\",\"e\":{}}}", expr(x)),
        NegPred(x) => format!("{{\"k\":\"negpred\",\"e\":{}}}", expr(x)),
        Seq(a, b) => format!("{{\"k\":\"seq\",\"a\":{},\"b\":{}}}", expr(a), expr(b)),
        Choice(a, b) => format!("{{\"k\":\"choice\",\"a\":{},\"b\":{}}}", expr(a), expr(b)),
        Opt(x) => format!("{{\"k\":\"opt\",\"e\":{}}}", expr(x)),
        Rep(x) => format!("{{\"k\":\"rep\",\"e\":{}}}", expr(x)),
        Skip(v) => format!("{{\"k\":\"skip\",\"v\":[{}]}}", v.iter().map(|s| esc(s)).collect::<Vec<_>>().join(",")),
        Push(x) => format!("{{\"k\":\"push\",\"e\":{}}}", expr(x)),
        RestoreOnErr(x) => format!("{{\"k\":\"restore\",\"e\":{}}}", expr(x)),
        #[allow(unreachable_patterns)]
        other => format!("{{\"k\":\"other\",\"dbg\":{}}}", esc(&format!("{:?}", other))),
    }
}

fn main() {
    let path = std::env::args().nth(1).expect("usage: gramgen <file.pest>");
    let src = std::fs::read_to_string(&path).expect("cannot read grammar");
    let pairs = match pest_meta::parser::parse(pest_meta::parser::Rule::grammar_rules, &src) {
        Ok(p) => p,
        Err(e) => {
            eprintln!("grammar parse error: {}", e);
            std::process::exit(2);
        }
    };
    if let Err(errs) = pest_meta::validator::validate_pairs(pairs.clone()) {
        for e in errs {
            eprintln!("grammar validation error: {}", e);
        }
        std::process::exit(2);
    }
    let ast = match pest_meta::parser::consume_rules(pairs) {
        Ok(a) => a,
        Err(errs) => {
            for e in errs {
                eprintln!("grammar error: {}", e);
            }
            std::process::exit(2);
        }
    };
    let rules: Vec<OptimizedRule> = pest_meta::optimizer::optimize(ast);
    let mut out = String::from("{\"rules\":[");
    for (i, r) in rules.iter().enumerate() {
        if i > 0 {
            out.push(',');
        }
        let ty = match r.ty {
            RuleType::Normal => "normal",
            RuleType::Silent => "silent",
            RuleType::Atomic => "atomic",
            RuleType::CompoundAtomic => "compound_atomic",
            RuleType::NonAtomic => "non_atomic",
        };
        out.push_str(&format!("{{\"name\":{},\"ty\":\"{}\",\"e\":{}}}", esc(&r.name), ty, expr(&r.expr)));
    }
    out.push_str("]}");
    println!("{}", out);
}
