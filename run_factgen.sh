#!/bin/bash
# usage: run_factgen.sh <repo_dir> <out_dir> [extra cargo args...]
# Builds facts for the two workspace crates of <repo_dir> from its current working tree.
set -euo pipefail
REPO="$1"; OUT="$2"; shift 2
HERE="$(cd "$(dirname "$0")" && pwd)"
DRV="$HERE/engines/factgen/target/debug/factgen"
[ -x "$DRV" ] || { echo "factgen driver not built (run setup)" >&2; exit 2; }
mkdir -p "$OUT"
T="$(mktemp -d /var/tmp/verif-fg-target.XXXXXX)"
trap 'rm -rf "$T"' EXIT
cd "$REPO"
env CARGO_NET_OFFLINE=true FACTGEN_OUT="$OUT" FACTGEN_CRATES=emulator_2a_lib,2a_emulator \
  RUSTFLAGS="-Zallow-features=proc_macro_diagnostic -Zmir-opt-level=0 -Awarnings" \
  LD_LIBRARY_PATH="$(rustc +nightly --print sysroot)/lib" \
  RUSTC_WORKSPACE_WRAPPER="$DRV" CARGO_TARGET_DIR="$T" \
  cargo +nightly check --offline --workspace "$@" >"$OUT/cargo.log" 2>&1 || { tail -40 "$OUT/cargo.log" >&2; exit 3; }
