#!/bin/bash
# usage: mutcheck.sh <patch-file|-> <prop> [<prop>...]   (patch read from stdin when '-')
# Applies a patch to a scratch copy of /repo and runs the given checks against it.
set -u
PATCH="$1"; shift
S=$(mktemp -d /var/tmp/verif-scratch.XXXXXX)
trap 'rm -rf "$S"' EXIT
rsync -a --exclude target --exclude .git /repo/ "$S/"
# a seed made before a later "fix:" commit that neutralises it carries that commit as base_revert.diff
if [ "$PATCH" != "-" ] && [ -f "$(dirname "$PATCH")/base_revert.diff" ]; then
  (cd "$S" && patch -R -p1 -s < "$(dirname "$PATCH")/base_revert.diff") || { echo "base revert failed"; exit 2; }
fi
if [ "$PATCH" = "-" ]; then (cd "$S" && patch -p1 -s) ; else (cd "$S" && patch -p1 -s < "$PATCH"); fi || { echo "patch failed"; exit 2; }
rc=0
for P in "$@"; do
  VERIF_NO_EVIDENCE=1 "$(dirname "$(readlink -f "$0")")/check" "$P" --repo "$S" || rc=1
done
exit $rc
