"""Obligation bookkeeping, known findings, evidence and replay files."""
import json
import os
import time

VERIF = os.path.dirname(os.path.dirname(os.path.abspath(__file__)))
KNOWN_FILE = os.path.join(VERIF, "known_findings.json")

TRUSTED_BASE = [
    "rustc front end and MIR construction (nightly 1.97) as dumped by engines/factgen",
    "pest_meta 2.5.7 as the definition of the grammar and pest's PEG semantics (ordered choice, possessive repetition)",
    "models of core/alloc functions by name in sa/externs.py",
    "third-party crates (log, pest, nom, tui, crossterm, rustyline, pad, colored) assumed total and free of effects on the analysed state",
    "the abstract interpreter sa/absint.py (soundness of its transfer functions)",
]


def load_known():
    if not os.path.exists(KNOWN_FILE):
        return {"findings": [], "fixed": []}
    with open(KNOWN_FILE) as fh:
        return json.load(fh)


class Check:
    def __init__(self, prop, tier, seed=0):
        self.prop = prop
        self.tier = tier
        self.seed = seed
        self.t0 = time.time()
        self.obligations = []     # dicts
        self.analysed = []        # free-form "what was analysed" strings
        self.assumptions = []
        self.samples = []
        self.extra = {}
        self.floors = []
        known = load_known()
        self.known = {f["key"]: f for f in known.get("findings", []) if f["property"] == prop}

    # ------------------------------------------------------------------
    def ob(self, key, ok, rule, where="", detail="", argument=""):
        """record an obligation; ok=True discharged, False violated"""
        keep = getattr(self, "keep_only", None)
        if keep is not None and not keep(key):
            return ok      # a nested rule contributes only the clauses the nesting property depends on
        rec = {"key": "%s/%s%s" % (self.prop, getattr(self, "prefix", ""), key), "rule": rule, "where": where,
               "status": "discharged" if ok else "violated", "detail": detail, "argument": argument}
        self.obligations.append(rec)
        return ok

    def fail(self, key, rule, where="", detail="", status="violated"):
        rec = {"key": "%s/%s%s" % (self.prop, getattr(self, "prefix", ""), key), "rule": rule, "where": where,
               "status": status, "detail": detail, "argument": ""}
        self.obligations.append(rec)

    def anchor_missing(self, what):
        self.fail("anchor/%s" % what, "fail-closed: anchor missing", "", what, status="anchor-missing")

    def floor(self, name, count, minimum):
        """instance-count floor: fewer instances than counted by hand fails closed"""
        self.floors.append({"name": name, "count": count, "floor": minimum})
        if count < minimum:
            self.fail("floor/%s" % name, "fail-closed: instance count below floor", "",
                      "%s: found %d, floor %d" % (name, count, minimum), status="below-floor")

    def note(self, s):
        self.analysed.append(s)

    def assume(self, s):
        if s not in self.assumptions:
            self.assumptions.append(s)

    def sample(self, s):
        if len(self.samples) < 12:
            self.samples.append(s)

    # ------------------------------------------------------------------
    def finish(self, level="other", explanation="", checker_cmd=None, rule_text=""):
        n = len(self.obligations)
        violated = [o for o in self.obligations if o["status"] != "discharged"]
        known_hit = []
        new = []
        for o in violated:
            if o["key"] in self.known and o["status"] == "violated":
                o["status"] = "known-finding"
                known_hit.append(o)
            else:
                new.append(o)
        discharged = n - len(violated)
        for o in known_hit:
            print("KNOWN-FINDING: property=%s %s -- %s" % (self.prop, o["key"], self.known[o["key"]]["what"]))
        replay_paths = []
        if new:
            rdir = os.path.join(VERIF, "replay", self.prop)
            os.makedirs(rdir, exist_ok=True)
            for i, o in enumerate(new):
                path = os.path.join(rdir, "violation_%03d.json" % i)
                with open(path, "w") as fh:
                    json.dump(o, fh, indent=1, default=str)
                replay_paths.append(path)
                print("VIOLATION property=%s replay=%s" % (self.prop, path))
                print("  key:    %s" % o["key"])
                print("  rule:   %s" % o["rule"])
                print("  where:  %s" % o["where"])
                print("  status: %s" % o["status"])
                print("  detail: %s" % o["detail"])
        wall = time.time() - self.t0
        distinct = len({o["key"] for o in self.obligations})
        samples = list(self.samples)
        for o in self.obligations[:6]:
            samples.append({k: o[k] for k in ("key", "rule", "where", "status", "argument")})
        cov = {
            "obligations": n,
            "discharged": discharged,
            "known_findings": len(known_hit),
            "checker_cmd": checker_cmd or ("./check %s --tier %s" % (self.prop, self.tier)),
            "trusted_base": TRUSTED_BASE,
            "evaluations": max(n, 1),
            "distinct_nontrivial": max(distinct, 0),
            "rule": rule_text or "one obligation per rule instance (function, site, opcode, grammar rule ...); "
                                 "distinct = distinct obligation keys",
            "samples": samples if samples else ["(no obligations)"],
            "explanation": explanation,
            "analysed": self.analysed,
            "floors": self.floors,
            "exhaustive": True,
        }
        cov.update(self.extra)
        ev = {
            "property_id": self.prop,
            "tier": self.tier,
            "seed": self.seed,
            "level": level if (level != "proof" or (discharged == n and n > 0)) else "other",
            "coverage": cov,
            "assumptions": self.assumptions,
            "wall_s": round(wall, 2),
            "violations": len(new),
        }
        if os.environ.get("VERIF_NO_EVIDENCE") != "1":
            os.makedirs(os.path.join(VERIF, "evidence"), exist_ok=True)
            with open(os.path.join(VERIF, "evidence", "%s.json" % self.prop), "w") as fh:
                json.dump(ev, fh, indent=1, default=str)
        print("%s: %d obligations, %d discharged, %d known findings, %d violations (%.1fs, tier %s)"
              % (self.prop, n, discharged, len(known_hit), len(new), wall, self.tier))
        return 1 if new else 0
