"""Micro-CFG over control states (micro-address, IR value), built from the
tables of micro.py (next-address logic) and step.py (IR update per word)."""
from .facts import AnchorMissing


class MicroGraph:
    def __init__(self, mt, st):
        self.mt = mt
        self.front = st["front"]
        self.back = st["back"]
        self.prog = set(mt.programmed())
        self.done = {a for a in self.prog if mt.word[a]["mac3"]}
        self.irkind = {}
        for a in self.prog:
            k = self.front[a]["ir"]
            if k[0] == "unknown":
                raise AnchorMissing("IR update of control word %#x not understood: %r" % (a, k))
            if self.front[a]["bad"]:
                raise AnchorMissing("clock edge for control word %#x not fully analysable: %r"
                                    % (a, self.front[a]["bad"]))
            self.irkind[a] = k
        self._succ_cache = {}

    def ir_after(self, a, i):
        """possible IR values after the IR-update stage in state (a, i)"""
        k = self.irkind[a]
        if k[0] == "keep":
            return (i,)
        if k[0] == "reset":
            return (k[1],)
        return None  # load: any byte

    def succ(self, a, i, loaded=None):
        """[(pins, a2, i2)] successors of control state (a, i); for IR-loading
        words `loaded` selects the byte (None = all 256)"""
        key = (a, i, loaded)
        r = self._succ_cache.get(key)
        if r is not None:
            return r
        irs = self.ir_after(a, i)
        if irs is None:
            irs = range(256) if loaded is None else (loaded,)
        out = []
        for i2 in irs:
            for pins, a2 in self.mt.succ(a, i2):
                out.append((pins, a2, i2))
        self._succ_cache[key] = out
        return out

    def routine(self, b):
        """(control words, edges) of the routine of first opcode byte b, from its dispatch to the next fetch"""
        starts = set()
        for d in self.done:
            for i in range(256):
                for pins, a2, i2 in self.succ(d, i, loaded=b):
                    starts.add((a2, i2))
        seen, edges, bad = self.explore(starts, stop_at_done=True)
        return {a for a, _ in seen}, edges

    def data_driven_words(self, loop_first_bytes):
        """control words on which the micro control flow depends through data: the words of the routines of the given
        (MUL/DIV) opcodes, and every word with a successor edge controlled by an ALU condition output"""
        words = set()
        for b in sorted(loop_first_bytes):
            ws, edges = self.routine(b)
            words |= {a for a in ws if a in self.prog and a not in self.done}
        for a in self.prog:
            for i in (0, 0xFF):
                for pins, a2 in self.mt.succ(a, i):
                    if set(pins) & {"CO", "ZO", "NO"}:
                        words.add(a)
        return words

    def is_load(self, a):
        return self.irkind[a][0] == "load"

    def explore(self, starts, stop_at_done=True, load_filter=None):
        """reachable control states from `starts` (iterable of (a, i)).
        Exploration does not continue past DONE states (instruction boundary)
        when stop_at_done.  Returns (states, edges, unprogrammed) where
        unprogrammed lists (from_state, a2, i2) transitions into unprogrammed words."""
        seen = set()
        edges = {}
        bad = []
        stack = list(starts)
        while stack:
            s = stack.pop()
            if s in seen:
                continue
            seen.add(s)
            a, i = s
            if a not in self.prog:
                continue
            if stop_at_done and a in self.done and s not in starts:
                continue
            es = []
            for pins, a2, i2 in self.succ(a, i):
                if load_filter is not None and self.is_load(a) and not load_filter(a, i2):
                    continue
                if a2 not in self.prog:
                    bad.append((s, a2, i2))
                es.append((pins, (a2, i2)))
                if (a2, i2) not in seen:
                    stack.append((a2, i2))
            edges[s] = es
        return seen, edges, bad


def sccs(nodes, edges):
    """Tarjan; edges: node -> [(label, node2)]; returns list of SCCs (lists)"""
    index = {}
    low = {}
    onstack = set()
    stack = []
    out = []
    counter = [0]
    for root in nodes:
        if root in index:
            continue
        work = [(root, iter([n2 for _, n2 in edges.get(root, ())]))]
        index[root] = low[root] = counter[0]
        counter[0] += 1
        stack.append(root)
        onstack.add(root)
        while work:
            v, it = work[-1]
            adv = False
            for w in it:
                if w not in index:
                    index[w] = low[w] = counter[0]
                    counter[0] += 1
                    stack.append(w)
                    onstack.add(w)
                    work.append((w, iter([n2 for _, n2 in edges.get(w, ())])))
                    adv = True
                    break
                elif w in onstack:
                    low[v] = min(low[v], index[w])
            if adv:
                continue
            work.pop()
            if work:
                u = work[-1][0]
                low[u] = min(low[u], low[v])
            if low[v] == index[v]:
                comp = []
                while True:
                    w = stack.pop()
                    onstack.discard(w)
                    comp.append(w)
                    if w == v:
                        break
                out.append(comp)
    return out
