"""A7: analyser for the pest grammar (facts/grammar.json).

* a PEG matcher with pest's semantics for the constructs the grammar uses
  (ordered choice, possessive repetition, predicates, silent / atomic /
  compound-atomic rules; no implicit whitespace: the generator fails closed
  if a WHITESPACE or COMMENT rule appears), producing the tree of pairs;
* child language of a rule: the possible sequences of inner pairs;
* FIRST character sets, dead-alternative detection;
* finite language enumeration of terminal-like (numeric / literal) rules.
"""
import itertools
import string

from .facts import AnchorMissing

BUILTIN_CHARS = {
    "ASCII_BIN_DIGIT": "01",
    "ASCII_OCT_DIGIT": "01234567",
    "ASCII_DIGIT": string.digits,
    "ASCII_NONZERO_DIGIT": "123456789",
    "ASCII_HEX_DIGIT": string.digits + "abcdefABCDEF",
    "ASCII_ALPHA_LOWER": string.ascii_lowercase,
    "ASCII_ALPHA_UPPER": string.ascii_uppercase,
    "ASCII_ALPHA": string.ascii_letters,
    "ASCII_ALPHANUMERIC": string.ascii_letters + string.digits,
}
NEWLINES = ("\r\n", "\n", "\r")


class Pair:
    __slots__ = ("rule", "start", "end", "children")

    def __init__(self, rule, start, end, children):
        self.rule = rule
        self.start = start
        self.end = end
        self.children = children

    def __repr__(self):
        return "%s[%d:%d]%s" % (self.rule, self.start, self.end, self.children if self.children else "")


class Grammar:
    def __init__(self, gjson):
        self.rules = {}
        self.order = []
        for r in gjson["rules"]:
            self.rules[r["name"]] = r
            self.order.append(r["name"])
        for special in ("WHITESPACE", "COMMENT"):
            if special in self.rules:
                raise AnchorMissing("grammar defines %s: implicit skipping is not modelled" % special)
        self._first = {}
        self._child = {}
        self.pruned = []

    def need(self, name):
        if name not in self.rules:
            raise AnchorMissing("grammar rule %s" % name)
        return self.rules[name]

    # ------------------------------------------------------------------
    # matching
    def match_rule(self, name, text, pos=0):
        """-> (end, [Pair]) or None"""
        return self._rule(name, text, pos, False)

    def full_match(self, name, text):
        r = self._rule(name, text, 0, False)
        return r is not None and r[0] == len(text)

    def _rule(self, name, text, pos, atomic):
        if name in BUILTIN_CHARS:
            if pos < len(text) and text[pos] in BUILTIN_CHARS[name]:
                return pos + 1, []
            return None
        if name == "ANY":
            return (pos + 1, []) if pos < len(text) else None
        if name == "SOI":
            return (pos, []) if pos == 0 else None
        if name == "EOI":
            return (pos, [Pair("EOI", pos, pos, [])]) if pos == len(text) else None
        if name == "NEWLINE":
            for nl in NEWLINES:
                if text.startswith(nl, pos):
                    return pos + len(nl), []
            return None
        r = self.rules.get(name)
        if r is None:
            raise AnchorMissing("grammar rule or builtin %s" % name)
        ty = r["ty"]
        inner_atomic = atomic or ty == "atomic"
        m = self._expr(r["e"], text, pos, inner_atomic)
        if m is None:
            return None
        end, kids = m
        if ty == "silent":
            return end, kids
        if atomic:
            # inside an atomic rule inner rules produce no pairs
            return end, []
        if ty == "atomic":
            kids = []
        return end, [Pair(name, pos, end, kids)]

    def _expr(self, e, text, pos, atomic):
        k = e["k"]
        if k == "str":
            s = e["s"]
            return (pos + len(s), []) if text.startswith(s, pos) else None
        if k == "insens":
            s = e["s"]
            seg = text[pos:pos + len(s)]
            return (pos + len(s), []) if seg.lower() == s.lower() and len(seg) == len(s) else None
        if k == "range":
            if pos < len(text) and e["a"] <= text[pos] <= e["b"]:
                return pos + 1, []
            return None
        if k == "ident":
            return self._rule(e["s"], text, pos, atomic)
        if k == "seq":
            a = self._expr(e["a"], text, pos, atomic)
            if a is None:
                return None
            b = self._expr(e["b"], text, a[0], atomic)
            if b is None:
                return None
            return b[0], a[1] + b[1]
        if k == "choice":
            a = self._expr(e["a"], text, pos, atomic)
            if a is not None:
                return a
            return self._expr(e["b"], text, pos, atomic)
        if k == "opt":
            a = self._expr(e["e"], text, pos, atomic)
            return a if a is not None else (pos, [])
        if k == "rep":
            kids = []
            cur = pos
            while True:
                a = self._expr(e["e"], text, cur, atomic)
                if a is None or a[0] == cur:
                    break
                cur = a[0]
                kids += a[1]
            return cur, kids
        if k == "negpred":
            return (pos, []) if self._expr(e["e"], text, pos, atomic) is None else None
        if k == "pospred":
            return (pos, []) if self._expr(e["e"], text, pos, atomic) is not None else None
        if k == "skip":
            cur = pos
            while cur < len(text) and not any(text.startswith(s, cur) for s in e["v"]):
                cur += 1
            return cur, []
        if k in ("push", "restore"):
            return self._expr(e["e"], text, pos, atomic)
        raise AnchorMissing("grammar construct %s" % k)

    # ------------------------------------------------------------------
    # child language: sequences of inner pair rule names
    def child_seqs(self, name, limit=8, max_rep=None):
        """set of possible child-rule-name sequences of rule `name` (CFG view: ordered
        choice as plain choice, repetition unrolled up to max_rep), sequences longer
        than `limit` are truncated and marked with a trailing '...'"""
        key = (name, limit, max_rep)
        if key in self._child:
            return self._child[key]
        r = self.need(name)
        if r["ty"] == "atomic":
            res = {()}
        else:
            res = self._cseq(r["e"], limit, max_rep if max_rep is not None else limit + 1, set([name]))
        self._child[key] = res
        return res

    def _trunc(self, seq, limit):
        if len(seq) > limit:
            return seq[:limit] + ("...",)
        return seq

    def _cseq(self, e, limit, max_rep, active):
        k = e["k"]
        if k in ("str", "insens", "range", "negpred", "pospred", "skip"):
            return {()}
        if k == "ident":
            n = e["s"]
            if n in BUILTIN_CHARS or n in ("ANY", "SOI", "NEWLINE"):
                return {()}
            if n == "EOI":
                return {("EOI",)}
            r = self.need(n)
            if r["ty"] == "silent":
                if n in active:
                    return {("...",)}
                return self._cseq(r["e"], limit, max_rep, active | {n})
            return {(n,)}
        if k == "seq":
            A = self._cseq(e["a"], limit, max_rep, active)
            B = self._cseq(e["b"], limit, max_rep, active)
            out = set()
            for a in A:
                if a and a[-1] == "...":
                    out.add(a)
                    continue
                for b in B:
                    out.add(self._trunc(a + b, limit))
            return out
        if k == "choice":
            return self._cseq(e["a"], limit, max_rep, active) | self._cseq(e["b"], limit, max_rep, active)
        if k == "opt":
            return self._cseq(e["e"], limit, max_rep, active) | {()}
        if k == "rep":
            X = self._cseq(e["e"], limit, max_rep, active)
            out = {()}
            cur = {()}
            for _ in range(max_rep):
                nxt = set()
                for a in cur:
                    if a and a[-1] == "...":
                        nxt.add(a)
                        continue
                    for b in X:
                        nxt.add(self._trunc(a + b, limit))
                if nxt <= out:
                    break
                out |= nxt
                cur = nxt
            # mark possible continuation
            more = set()
            for a in cur:
                if a and a[-1] != "..." and X != {()}:
                    more.add(self._trunc(a + ("...",), limit + 1)) if len(a) >= limit else None
            return out
        if k in ("push", "restore"):
            return self._cseq(e["e"], limit, max_rep, active)
        raise AnchorMissing("grammar construct %s" % k)

    # ------------------------------------------------------------------
    def child_alts(self, name, cap=400):
        """structured child language: list of item sequences; an item is a rule name or
        ("rep", (alt, ...)) with alt a tuple of rule names (nested repetitions are flattened
        into the alphabet of the repetition)"""
        r = self.need(name)
        if r["ty"] == "atomic":
            return [()]
        out = self._calts(r["e"], set([name]))
        uniq = []
        for s in out:
            if s not in uniq:
                uniq.append(s)
        if len(uniq) > cap:
            raise AnchorMissing("child language of %s too large (%d alternatives)" % (name, len(uniq)))
        return uniq

    def _calts(self, e, active):
        k = e["k"]
        if k in ("str", "insens", "range", "negpred", "pospred", "skip"):
            return [()]
        if k == "ident":
            n = e["s"]
            if n in BUILTIN_CHARS or n in ("ANY", "SOI", "NEWLINE"):
                return [()]
            if n == "EOI":
                return [("EOI",)]
            r = self.need(n)
            if r["ty"] == "silent":
                if n in active:
                    raise AnchorMissing("recursive silent rule %s" % n)
                return self._calts(r["e"], active | {n})
            return [(n,)]
        if k == "seq":
            A = self._calts(e["a"], active)
            B = self._calts(e["b"], active)
            return [a + b for a in A for b in B]
        if k == "choice":
            alts = self.alternatives(e)
            dead = {j: why for j, why in self.dead_alternatives(e)}
            out = []
            for j, a in enumerate(alts):
                if j in dead:
                    self.pruned.append((a.get("s"), dead[j]))
                    continue
                out += self._calts(a, active)
            return out
        if k == "opt":
            return [()] + self._calts(e["e"], active)
        if k == "rep":
            X = self._calts(e["e"], active)
            X = [x for x in X if x]
            if not X:
                return [()]
            flat = []
            for x in X:
                fx = []
                for it in x:
                    if isinstance(it, tuple):      # nested rep: flatten
                        for alt in it[1]:
                            fx.extend(alt)
                    else:
                        fx.append(it)
                flat.append(tuple(fx))
            return [(("rep", tuple(flat)),)]
        if k in ("push", "restore"):
            return self._calts(e["e"], active)
        raise AnchorMissing("grammar construct %s" % k)

    def top_alternatives(self, name):
        """top-level alternatives of a rule's expression"""
        return self.alternatives(self.need(name)["e"])

    def child_alphabet(self, name):
        out = set()
        for s in self.child_seqs(name, limit=6):
            out.update(x for x in s if x != "...")
        return out

    # ------------------------------------------------------------------
    # FIRST sets (characters a match can start with); None = any / empty possible
    def first(self, name):
        if name in self._first:
            return self._first[name]
        self._first[name] = (set(), True)
        r = self._first_expr(self.need(name)["e"] if name in self.rules else {"k": "ident", "s": name}, set([name]))
        self._first[name] = r
        return r

    def _first_expr(self, e, active):
        """-> (set of chars (lower+upper expanded), nullable)"""
        k = e["k"]
        if k == "str":
            return ({e["s"][0]} if e["s"] else set()), (e["s"] == "")
        if k == "insens":
            s = e["s"]
            return ({s[0].lower(), s[0].upper()} if s else set()), (s == "")
        if k == "range":
            return set(chr(c) for c in range(ord(e["a"]), ord(e["b"]) + 1)), False
        if k == "ident":
            n = e["s"]
            if n in BUILTIN_CHARS:
                return set(BUILTIN_CHARS[n]), False
            if n == "NEWLINE":
                return {"\n", "\r"}, False
            if n == "ANY":
                return {"<any>"}, False
            if n in ("SOI", "EOI"):
                return set(), True
            if n in active:
                return set(), False
            return self._first_expr(self.need(n)["e"], active | {n})
        if k == "seq":
            fa, na = self._first_expr(e["a"], active)
            if not na:
                return fa, False
            fb, nb = self._first_expr(e["b"], active)
            return fa | fb, nb
        if k == "choice":
            fa, na = self._first_expr(e["a"], active)
            fb, nb = self._first_expr(e["b"], active)
            return fa | fb, na or nb
        if k in ("opt", "rep"):
            f, _ = self._first_expr(e["e"], active)
            return f, True
        if k in ("negpred", "pospred"):
            return set(), True
        if k == "skip":
            return {"<any>"}, True
        if k in ("push", "restore"):
            return self._first_expr(e["e"], active)
        return {"<any>"}, True

    # ------------------------------------------------------------------
    def alternatives(self, e):
        """top-level alternatives of a choice expression, in order"""
        if e["k"] == "choice":
            return self.alternatives(e["a"]) + self.alternatives(e["b"])
        return [e]

    def expand_ident(self, e):
        if e["k"] == "ident" and e["s"] in self.rules:
            return self.rules[e["s"]]["e"]
        return e

    def dead_alternatives(self, e):
        """[(index, reason)] of top-level alternatives of choice `e` that can never be
        taken: B is dead after A when A is a rule whose own top-level alternatives
        contain B and every alternative of A before B has a FIRST set disjoint from
        FIRST(B) (so A fails exactly when none of its alternatives, B included,
        matches at this position)."""
        alts = self.alternatives(e)
        dead = []
        for j, b in enumerate(alts):
            if b["k"] != "ident":
                continue
            for i in range(j):
                a = alts[i]
                if a["k"] != "ident" or a["s"] not in self.rules:
                    continue
                inner = self.alternatives(self.rules[a["s"]]["e"])
                names = [x["s"] if x["k"] == "ident" else None for x in inner]
                if b["s"] in names:
                    pos = names.index(b["s"])
                    fb, nb = self._first_expr(b, set())
                    ok = not nb
                    for x in inner[:pos]:
                        fx, nx = self._first_expr(x, set())
                        if nx or (fx & fb) or "<any>" in fx:
                            ok = False
                    if ok:
                        dead.append((j, "shadowed by alternative %s which contains it" % a["s"]))
                        break
        return dead

    # ------------------------------------------------------------------
    # finite language of a terminal-like expression (CFG view)
    def strings(self, e, max_rep=2, cap=200000):
        """all strings of expression e with repetitions unrolled 0..max_rep times
        and case-insensitive literals in their written case; raises if more than cap"""
        k = e["k"]
        if k == "str" or k == "insens":
            return [e["s"]]
        if k == "range":
            return [chr(c) for c in range(ord(e["a"]), ord(e["b"]) + 1)]
        if k == "ident":
            n = e["s"]
            if n in BUILTIN_CHARS:
                return list(BUILTIN_CHARS[n])
            if n in ("SOI", "EOI"):
                return [""]
            if n == "NEWLINE":
                return ["\n"]
            return self.strings(self.need(n)["e"], max_rep, cap)
        if k == "seq":
            A = self.strings(e["a"], max_rep, cap)
            B = self.strings(e["b"], max_rep, cap)
            if len(A) * len(B) > cap:
                raise AnchorMissing("language too large to enumerate")
            return [a + b for a in A for b in B]
        if k == "choice":
            return self.strings(e["a"], max_rep, cap) + self.strings(e["b"], max_rep, cap)
        if k == "opt":
            return [""] + self.strings(e["e"], max_rep, cap)
        if k == "rep":
            X = self.strings(e["e"], max_rep, cap)
            out = [""]
            cur = [""]
            for _ in range(max_rep):
                cur = [a + b for a in cur for b in X]
                out += cur
            return out
        if k in ("negpred", "pospred"):
            return [""]
        raise AnchorMissing("cannot enumerate construct %s" % k)

    def literal_case(self, e, acc=None):
        """[(literal, case_insensitive)] for every string literal below e (not through idents)"""
        if acc is None:
            acc = []
        k = e["k"]
        if k == "str":
            acc.append((e["s"], False))
        elif k == "insens":
            acc.append((e["s"], True))
        elif k in ("seq", "choice"):
            self.literal_case(e["a"], acc)
            self.literal_case(e["b"], acc)
        elif k in ("opt", "rep", "negpred", "pospred", "push", "restore"):
            self.literal_case(e["e"], acc)
        return acc
