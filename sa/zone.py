"""A small relational abstract interpreter over MIR for index/length reasoning
(zone domain: difference constraints x - y <= c over symbolic integers).

Used by C17 for the line editor: cursor <= text length, history index < history
length, completion index < number of completions.  Integer-valued places hold
`Lin(sym, k)` (the value sym + k); Vec lengths and Option tags/payloads are
tracked per place; branch conditions refine the constraint set; merges
introduce fresh symbols.  Everything not understood becomes unknown (sound:
unknown values satisfy no obligation).  Functions are analysed one at a time
under a struct invariant that is assumed at entry, required at calls of
sibling methods and at exit.  No loops are supported (fail closed).
"""
from .facts import AnchorMissing
from . import mirutil

USIZE_MAX = (1 << 64) - 1
ISIZE_MAX = (1 << 63) - 1
ISIZE_MIN = -(1 << 63)
INF = float("inf")


class Lin:
    __slots__ = ("s", "k")

    def __init__(self, s, k=0):
        self.s = s
        self.k = k

    def __eq__(self, o):
        return isinstance(o, Lin) and (o.s, o.k) == (self.s, self.k)

    def __hash__(self):
        return hash(("Lin", self.s, self.k))

    def __repr__(self):
        if self.s == "0":
            return str(self.k)
        return "%s%s" % (self.s, ("%+d" % self.k) if self.k else "")


class DBM:
    """x - y <= c; the symbol "0" is the constant zero"""

    def __init__(self):
        self.c = {}
        self.syms = {"0"}
        self.closed = True

    def copy(self):
        d = DBM()
        d.c = dict(self.c)
        d.syms = set(self.syms)
        d.closed = self.closed
        return d

    def add(self, x, y, c):
        if x == y:
            return
        self.syms.add(x)
        self.syms.add(y)
        if self.c.get((x, y), INF) > c:
            self.c[(x, y)] = c
            self.closed = False

    def close(self):
        if self.closed:
            return
        S = list(self.syms)
        c = self.c
        for k in S:
            for i in S:
                cik = c.get((i, k))
                if cik is None:
                    continue
                for j in S:
                    if i == j:
                        continue
                    ckj = c.get((k, j))
                    if ckj is None:
                        continue
                    v = cik + ckj
                    if c.get((i, j), INF) > v:
                        c[(i, j)] = v
        self.closed = True

    def bound(self, x, y):
        """least known c with x - y <= c"""
        if x == y:
            return 0
        self.close()
        return self.c.get((x, y), INF)

    def unsat(self):
        self.close()
        for (x, y), v in self.c.items():
            w = self.c.get((y, x))
            if w is not None and v + w < 0:
                return True
        return False

    # convenience on Lin values
    def le(self, a, b):
        """is a <= b implied?"""
        return self.bound(a.s, b.s) <= b.k - a.k

    def assume_le(self, a, b):
        self.add(a.s, b.s, b.k - a.k)

    def join(self, o):
        self.close()
        o.close()
        d = DBM()
        d.syms = self.syms & o.syms
        for key, v in self.c.items():
            w = o.c.get(key)
            if w is not None and key[0] in d.syms and key[1] in d.syms:
                d.c[key] = max(v, w)
        d.closed = False
        return d


class St:
    def __init__(self):
        self.env = {}
        self.dbm = DBM()

    def copy(self):
        s = St()
        s.env = dict(self.env)
        s.dbm = self.dbm.copy()
        return s


def prefix_items(env, pre):
    n = len(pre)
    return [(k, v) for k, v in env.items() if k[:n] == pre]


class Analyzer:
    def __init__(self, p, body, fresh_prefix=""):
        self.p = p
        self.body = body
        self.counter = 0
        self.site = {}          # (bb) -> list of (ok, detail) per path/run
        self.notes = []
        self.call_hooks = {}    # callee path -> fn(an, st, args, dest, bb, t) -> handled?
        self.exit_states = []
        self.fp = fresh_prefix

    # ---- symbols --------------------------------------------------------------------------
    def fresh(self, st, hint, lo=0, hi=None):
        self.counter += 1
        s = "%s%s#%d" % (self.fp, hint, self.counter)
        if lo is not None:
            st.dbm.add("0", s, -lo)
        if hi is not None:
            st.dbm.add(s, "0", hi)
        return Lin(s, 0)

    # ---- places ---------------------------------------------------------------------------
    def place(self, st, pl):
        """MIR place -> path tuple (after following references); None when not trackable"""
        path = ("L", pl["l"])
        for pr in pl["p"]:
            if pr == "*":
                v = st.env.get(path)
                if isinstance(v, tuple) and v and v[0] == "ref":
                    path = v[1]
                else:
                    return None
            elif isinstance(pr, dict) and "f" in pr:
                path = path + (str(pr.get("n", pr["f"])),)
            elif isinstance(pr, dict) and "d" in pr:
                path = path + ("@" + str(pr["d"]),)
            else:
                return None
        return path

    def read_int(self, st, path, signed=False):
        v = st.env.get(path)
        if isinstance(v, Lin):
            return v
        if v is None:
            v = self.fresh(st, "v", None if signed else 0, None if signed else USIZE_MAX)
            st.env[path] = v
            return v
        return None

    def vlen(self, st, path):
        k = path + ("#len",)
        v = st.env.get(k)
        if not isinstance(v, Lin):
            v = self.fresh(st, "len", 0, ISIZE_MAX)
            st.env[k] = v
        return v

    def new_text(self, st, path, chars):
        """a string value at `path` with `chars` characters (its byte length is at least that)"""
        self.counter += 1
        self.havoc(st, path)
        st.env[path + ("#chars",)] = chars
        st.env[path + ("#text",)] = self.counter

    def havoc(self, st, pre):
        for k, _ in prefix_items(st.env, pre):
            del st.env[k]

    def copy_tree(self, st, src, dst):
        items = prefix_items(st.env, src)
        self.havoc(st, dst)
        for k, v in items:
            st.env[dst + k[len(src):]] = v

    # ---- operands / rvalues ---------------------------------------------------------------
    def operand_value(self, st, o):
        if "k" in o:
            k = o["k"]
            if "v" in k and isinstance(k["v"], int):
                return Lin("0", int(k["v"]))
            return None
        pl = o.get("m") or o.get("c")
        path = self.place(st, pl)
        if path is None:
            return None
        v = st.env.get(path)
        return v

    def operand_path(self, st, o):
        if "k" in o:
            return None
        return self.place(st, o.get("m") or o.get("c"))

    def int_of(self, st, o, signed=False):
        if "k" in o:
            return self.operand_value(st, o)
        path = self.operand_path(st, o)
        if path is None:
            return None
        v = st.env.get(path)
        if v is None:
            return self.read_int(st, path, signed)
        return v if isinstance(v, Lin) else None

    def assign(self, st, dst, r, bb):
        k = r["k"]
        if dst is None:
            return
        if k == "use":
            o = r["o"]
            if "k" in o:
                self.havoc(st, dst)
                v = self.operand_value(st, o)
                if v is not None:
                    st.env[dst] = v
                return
            src = self.operand_path(st, o)
            if src is None:
                self.havoc(st, dst)
                return
            if not prefix_items(st.env, src):
                # unknown scalar read: give integer places a symbol so that copies stay equal
                ty = self.local_ty(o)
                if ty in ("usize", "u8", "u16", "u32", "u64"):
                    self.read_int(st, src)
            self.copy_tree(st, src, dst)
            return
        self.havoc(st, dst)
        if k == "ref":
            tgt = self.place(st, r["p"])
            if tgt is not None:
                st.env[dst] = ("ref", tgt, "mut" in str(r.get("bk")).lower())
            return
        if k == "discr":
            tgt = self.place(st, r["p"])
            if tgt is not None:
                st.env[dst] = ("discr", tgt, r.get("ty", ""))
            return
        if k == "agg":
            if r["ak"] == "tuple":
                for i, f in enumerate(r["fields"]):
                    self.assign(st, dst + (str(i),), {"k": "use", "o": f}, bb)
                return
            if r["ak"] == "adt" and r.get("name", "").startswith("core::option::Option"):
                st.env[dst + ("#tag",)] = r["variant"]
                for i, f in enumerate(r["fields"]):
                    self.assign(st, dst + ("@" + r["variant"], str(i)), {"k": "use", "o": f}, bb)
                return
            return
        if k == "cast":
            pv = self.operand_value(st, r["o"])
            if isinstance(pv, tuple) and pv and pv[0] == "ref":
                # pointer casts keep the pointee
                st.env[dst] = pv
                return
            v = self.int_of(st, r["o"], signed=str(r.get("from", "")).startswith("i"))
            if isinstance(v, Lin) and r.get("ck", "").startswith("IntToInt"):
                frm, to = r.get("from"), r.get("ty")
                if frm == to:
                    st.env[dst] = v
                elif frm == "usize" and to == "isize":
                    if st.dbm.le(v, Lin("0", ISIZE_MAX)):
                        st.env[dst] = v
                elif frm == "isize" and to == "usize":
                    if st.dbm.le(Lin("0", 0), v):
                        st.env[dst] = v
                    else:
                        st.env[dst] = self.fresh(st, "cast", 0, USIZE_MAX)
                elif to in ("usize", "u64") and frm in ("u8", "u16", "u32"):
                    st.env[dst] = v
            return
        if k == "bin" and r["op"].endswith("WithOverflow"):
            r = dict(r, k="chk", op=r["op"][:-len("WithOverflow")])
            k = "chk"
        if k == "chk":
            a = self.int_of(st, r["a"], signed=str(r.get("aty", "")).startswith("i"))
            b = self.int_of(st, r["b"], signed=str(r.get("aty", "")).startswith("i"))
            op = r["op"]
            res = None
            if isinstance(a, Lin) and isinstance(b, Lin) and op in ("Add", "Sub"):
                res = self.arith(st, op, a, b)
            st.env[dst + ("1",)] = ("ovf", op, res, r.get("aty", "usize"), a, b)
            if res is not None:
                st.env[dst + ("0",)] = res
            return
        if k == "bin":
            a = self.int_of(st, r["a"])
            b = self.int_of(st, r["b"])
            op = r["op"]
            if op in ("Eq", "Ne", "Lt", "Le", "Gt", "Ge") and isinstance(a, Lin) and isinstance(b, Lin):
                st.env[dst] = ("cmp", op, a, b)
            elif op in ("Add", "Sub") and isinstance(a, Lin) and isinstance(b, Lin):
                res = self.arith(st, op, a, b)
                if res is not None:
                    st.env[dst] = res
            elif op == "Rem" and isinstance(b, Lin):
                rr = self.fresh(st, "rem", 0, None)
                st.dbm.add(rr.s, b.s, b.k - 1)       # r <= b - 1
                st.env[dst] = rr
            return
        if k == "un" and r["op"] == "Not":
            v = self.operand_value(st, r["a"])
            if isinstance(v, tuple) and v and v[0] in ("cmp", "isempty", "not"):
                st.env[dst] = ("not", v)
            return

    def arith(self, st, op, a, b):
        if b.s == "0":
            return Lin(a.s, a.k + (b.k if op == "Add" else -b.k))
        if a.s == "0" and op == "Add":
            return Lin(b.s, b.k + a.k)
        # symbolic +/- symbolic: a fresh symbol with the derivable bounds
        r = self.fresh(st, "ar", None, None)
        if op == "Sub":
            # r = a - b : r - a <= -lb(b), a - r <= ub(b)
            lb = -st.dbm.bound("0", b.s) + b.k if st.dbm.bound("0", b.s) != INF else None
            ub = st.dbm.bound(b.s, "0") + b.k if st.dbm.bound(b.s, "0") != INF else None
            if lb is not None:
                st.dbm.add(r.s, a.s, a.k - lb)
            if ub is not None:
                st.dbm.add(a.s, r.s, ub - a.k)
            # a >= b  =>  r >= 0
            if st.dbm.le(b, a):
                st.dbm.add("0", r.s, 0)
        else:
            lb = -st.dbm.bound("0", b.s) + b.k if st.dbm.bound("0", b.s) != INF else None
            ub = st.dbm.bound(b.s, "0") + b.k if st.dbm.bound(b.s, "0") != INF else None
            if lb is not None:
                st.dbm.add(a.s, r.s, -a.k - lb)
            if ub is not None:
                st.dbm.add(r.s, a.s, a.k + ub)
        return r

    def local_ty(self, o):
        pl = o.get("m") or o.get("c")
        if pl is None:
            return None
        if not pl["p"]:
            return self.body.locals[pl["l"]].get("ty")
        last = pl["p"][-1]
        if isinstance(last, dict):
            return last.get("ty")
        return None

    # ---- conditions -----------------------------------------------------------------------
    def assume(self, st, cond, truth):
        """refine st with cond == truth; returns False when the edge is infeasible"""
        if not isinstance(cond, tuple) or not cond:
            return True
        h = cond[0]
        if h == "not":
            return self.assume(st, cond[1], not truth)
        if h == "cmp":
            op, a, b = cond[1], cond[2], cond[3]
            if not truth:
                op = {"Eq": "Ne", "Ne": "Eq", "Lt": "Ge", "Le": "Gt", "Gt": "Le", "Ge": "Lt"}[op]
            if op == "Lt":
                st.dbm.assume_le(Lin(a.s, a.k + 1), b)
            elif op == "Le":
                st.dbm.assume_le(a, b)
            elif op == "Gt":
                st.dbm.assume_le(Lin(b.s, b.k + 1), a)
            elif op == "Ge":
                st.dbm.assume_le(b, a)
            elif op == "Eq":
                st.dbm.assume_le(a, b)
                st.dbm.assume_le(b, a)
            elif op == "Ne":
                # a != b: usable when one side is a bound of the other
                if st.dbm.le(b, a):
                    st.dbm.assume_le(Lin(b.s, b.k + 1), a)
                elif st.dbm.le(a, b):
                    st.dbm.assume_le(Lin(a.s, a.k + 1), b)
            return not st.dbm.unsat()
        if h == "isempty":
            n = self.vlen(st, cond[1])
            if truth:
                st.dbm.assume_le(n, Lin("0", 0))
            else:
                st.dbm.assume_le(Lin("0", 1), n)
            return not st.dbm.unsat()
        return True

    # ---- obligations ----------------------------------------------------------------------
    def oblige(self, bb, ok, detail):
        self.site.setdefault(bb, []).append((bool(ok), detail))

    # ---- calls ----------------------------------------------------------------------------
    def ref_target(self, st, o):
        v = self.operand_value(st, o)
        if isinstance(v, tuple) and v and v[0] == "ref":
            return v[1]
        return None

    def call(self, st, bb, t):
        d = t["f"].get("res") or t["f"].get("def")
        dfn = d          # the resolved callee (impl method for trait calls)
        args = t["args"]
        dest = self.place(st, t["dest"])
        hook = self.call_hooks.get(d) or self.call_hooks.get(t["f"].get("def"))
        if hook is not None and hook(self, st, args, dest, bb, t):
            return True
        if dest is not None:
            self.havoc(st, dest)

        def tgt(i):
            return self.ref_target(st, args[i]) if i < len(args) else None

        if dfn.startswith("core::num::<impl usize>::") or dfn.startswith("core::num::<impl u8>::") or dfn.startswith("core::num::<impl u16>::"):
            meth = dfn.rsplit("::", 1)[-1]
            a = self.int_of(st, args[0]) if args else None
            b = self.int_of(st, args[1]) if len(args) > 1 else None
            if meth == "saturating_sub" and isinstance(a, Lin) and isinstance(b, Lin) and dest is not None:
                r = self.fresh(st, "ssub", 0, None)
                st.dbm.assume_le(r, a)                                  # r <= a
                if b.s == "0":
                    st.dbm.assume_le(Lin(a.s, a.k - b.k), r)            # r >= a - b
                    if st.dbm.le(Lin("0", b.k), a):                     # a >= b: exact
                        st.dbm.assume_le(r, Lin(a.s, a.k - b.k))
                st.env[dest] = r
                return True
            if meth == "checked_sub" and isinstance(a, Lin) and isinstance(b, Lin) and b.s == "0" and dest is not None:
                st.env[dest + ("@Some", "0")] = Lin(a.s, a.k - b.k)
                if st.dbm.le(Lin("0", b.k), a):
                    st.env[dest + ("#tag",)] = "Some"
                elif st.dbm.le(a, Lin("0", b.k - 1)):
                    st.env[dest + ("#tag",)] = "None"
                else:
                    st.env[dest + ("#guard",)] = ("cmp", "Ge", a, Lin("0", b.k))
                return True
            if meth == "saturating_add" and isinstance(a, Lin) and isinstance(b, Lin) and dest is not None:
                r = self.fresh(st, "sadd", 0, USIZE_MAX)
                st.dbm.assume_le(a, r)
                if b.s == "0":
                    st.dbm.assume_le(r, Lin(a.s, a.k + b.k))
                st.env[dest] = r
                return True
            if meth in ("min", "max") and isinstance(a, Lin) and isinstance(b, Lin) and dest is not None:
                return self._minmax(st, dest, meth, a, b)
        if dfn in ("core::cmp::min", "core::cmp::max", "core::cmp::Ord::min", "core::cmp::Ord::max") and len(args) == 2 and dest is not None:
            a, b = self.int_of(st, args[0]), self.int_of(st, args[1])
            if isinstance(a, Lin) and isinstance(b, Lin):
                return self._minmax(st, dest, dfn.rsplit("::", 1)[-1], a, b)
        if dfn in ("alloc::boxed::Box::<T>::new_uninit", "alloc::boxed::Box::<T>::new"):
            # a fresh heap object: pointers derived from it alias nothing that existed before
            if dest is not None:
                self.counter += 1
                st.env[dest + ("0", "pointer")] = ("ref", ("H", self.counter), True)
            return True
        if dfn in ("alloc::vec::Vec::<T, A>::len", "core::slice::<impl [T]>::len"):
            P = tgt(0)
            if P is not None and dest is not None:
                st.env[dest] = self.vlen(st, P)
            return True
        if dfn in ("alloc::vec::Vec::<T, A>::is_empty", "core::slice::<impl [T]>::is_empty"):
            P = tgt(0)
            if P is not None and dest is not None:
                st.env[dest] = ("isempty", P)
            return True
        if dfn in ("<alloc::vec::Vec<T, A> as core::ops::deref::Deref>::deref", "<alloc::vec::Vec<T, A> as core::ops::deref::DerefMut>::deref_mut",
                   "core::ops::deref::Deref::deref", "core::ops::deref::DerefMut::deref_mut") and \
                str(t["f"].get("res", "")).find("Vec") >= 0:
            P = tgt(0)
            if P is not None and dest is not None:
                st.env[dest] = ("ref", P, False)
            return True
        if dfn == "alloc::vec::Vec::<T, A>::insert":
            P = tgt(0)
            idx = self.int_of(st, args[1])
            ok = P is not None and isinstance(idx, Lin) and st.dbm.le(idx, self.vlen(st, P))
            self.oblige(bb, ok, "insert at %r into a vector of length %r" % (idx, self.vlen(st, P) if P else None))
            if P is not None:
                n = self.vlen(st, P)
                st.env[P + ("#len",)] = Lin(n.s, n.k + 1)
                if isinstance(idx, Lin):
                    st.dbm.assume_le(idx, n)
            return True
        if dfn == "alloc::vec::Vec::<T, A>::remove":
            P = tgt(0)
            idx = self.int_of(st, args[1])
            ok = P is not None and isinstance(idx, Lin) and st.dbm.le(Lin(idx.s, idx.k + 1), self.vlen(st, P))
            self.oblige(bb, ok, "remove at %r from a vector of length %r" % (idx, self.vlen(st, P) if P else None))
            if P is not None:
                n = self.vlen(st, P)
                if isinstance(idx, Lin):
                    st.dbm.assume_le(Lin(idx.s, idx.k + 1), n)
                st.env[P + ("#len",)] = Lin(n.s, n.k - 1)
            return True
        if dfn == "alloc::vec::Vec::<T, A>::push":
            P = tgt(0)
            if P is not None:
                n = self.vlen(st, P)
                st.env[P + ("#len",)] = Lin(n.s, n.k + 1)
                v = self.operand_value(st, args[1]) if len(args) > 1 else None
                st.env[P + ("#last",)] = v if isinstance(v, tuple) and v and v[0] == "collected" else ("unknown",)
            return True
        if dfn == "core::iter::traits::iterator::Iterator::collect" and dest is not None and \
                isinstance(self.operand_value(st, args[0]) if args else None, tuple) and \
                self.operand_value(st, args[0])[0] == "drained":
            st.env[dest] = ("collected", self.operand_value(st, args[0])[1])
            return True
        if dfn == "alloc::vec::Vec::<T, A>::drain":
            P = tgt(0)
            full = "RangeFull" in " ".join(t["f"].get("ga", []))
            self.oblige(bb, full, "drain(..) over the full range cannot be out of bounds" if full else "drain over a sub-range")
            if P is not None:
                before = st.env.get(P + ("#len",))
                self.havoc(st, P)
                if full:
                    st.env[P + ("#len",)] = Lin("0", 0)
                    if dest is not None:
                        # the iterator yields the whole former content of P
                        st.env[dest] = ("drained", (P, before))
            return True
        if dfn in ("<alloc::vec::Vec<T, A> as core::ops::index::Index<I>>::index",
                   "<alloc::vec::Vec<T, A> as core::ops::index::IndexMut<I>>::index_mut",
                   "core::slice::index::<impl core::ops::index::Index<I> for [T]>::index"):
            P = tgt(0)
            ga = " ".join(t["f"].get("ga", []))
            if "usize" in ga and "Range" not in ga:
                idx = self.int_of(st, args[1])
                ok = P is not None and isinstance(idx, Lin) and st.dbm.le(Lin(idx.s, idx.k + 1), self.vlen(st, P))
                self.oblige(bb, ok, "index %r into a vector of length %r" % (idx, self.vlen(st, P) if P else None))
                if P is not None and dest is not None:
                    st.env[dest] = ("ref", P + ("#elem",), False)
                    if isinstance(idx, Lin):
                        st.dbm.assume_le(Lin(idx.s, idx.k + 1), self.vlen(st, P))
            else:
                self.oblige(bb, False, "range index into a vector")
            return True
        if dfn in ("<alloc::string::String as core::ops::index::Index<I>>::index", "core::str::traits::<impl core::ops::index::Index<I> for str>::index"):
            self.oblige(bb, False, "byte-range index into a string (fails on a char boundary or beyond the end)")
            return True
        if dfn == "alloc::string::String::truncate":
            self.oblige(bb, False, "String::truncate at a byte offset (fails inside a multi-byte character)")
            return True
        if dfn in ("core::slice::<impl [T]>::last", "core::slice::<impl [T]>::first"):
            P = tgt(0)
            if P is not None and dest is not None:
                if st.dbm.le(Lin("0", 1), self.vlen(st, P)):
                    st.env[dest + ("#tag",)] = "Some"
                elif st.dbm.le(self.vlen(st, P), Lin("0", 0)):
                    st.env[dest + ("#tag",)] = "None"
            return True
        if dfn in ("core::option::Option::<T>::expect", "core::option::Option::<T>::unwrap"):
            src = self.operand_path(st, args[0])
            tag = st.env.get(src + ("#tag",)) if src is not None else None
            self.oblige(bb, tag == "Some", "expect/unwrap on an option that is %s" % (tag or "not known to be Some"))
            return True
        if dfn in ("<alloc::vec::Vec<T, A> as core::clone::Clone>::clone", "core::clone::Clone::clone"):
            P = tgt(0)
            if P is not None and dest is not None and (P + ("#len",)) in st.env:
                st.env[dest + ("#len",)] = st.env[P + ("#len",)]
            return True
        # ---- texts: character count of a string, byte offsets that are character boundaries -------
        if dfn == "core::slice::<impl [T]>::iter" and dest is not None:
            P = tgt(0)
            if P is not None:
                st.env[dest] = ("sliceiter", P, self.vlen(st, P))
            return True
        if dfn == "core::iter::traits::iterator::Iterator::collect" and dest is not None:
            v = self.operand_value(st, args[0]) if args else None
            ga = t["f"].get("ga", [])
            if isinstance(v, tuple) and v and v[0] == "sliceiter" and len(ga) == 2 and ga[1] == "alloc::string::String" \
                    and ga[0].startswith("core::slice::iter::Iter<") and ga[0].endswith(" char>"):
                # one character per element
                self.new_text(st, dest, v[2])
            return True
        if dfn in ("<alloc::string::String as core::ops::deref::Deref>::deref", "alloc::string::String::as_str") and dest is not None:
            P = tgt(0)
            if P is not None:
                st.env[dest] = ("ref", P, False)
            return True
        if dfn in ("core::str::<impl str>::strip_prefix", "core::str::<impl str>::strip_suffix") and dest is not None:
            P = tgt(0)
            pat = args[1].get("k", {}).get("str") if len(args) > 1 and "k" in args[1] else None
            n = st.env.get(P + ("#chars",)) if P is not None else None
            if isinstance(n, Lin) and isinstance(pat, str):
                self.counter += 1
                T = ("T", self.counter)
                self.new_text(st, T, Lin(n.s, n.k - len(pat)))
                st.env[dest + ("@Some", "0")] = ("ref", T, False)
            return True
        if dfn in ("core::str::<impl str>::trim_start", "core::str::<impl str>::trim_end", "core::str::<impl str>::trim") and dest is not None:
            P = tgt(0)
            n = st.env.get(P + ("#chars",)) if P is not None else None
            if isinstance(n, Lin):
                self.counter += 1
                T = ("T", self.counter)
                m = self.fresh(st, "trim", 0, None)
                st.dbm.assume_le(m, n)
                self.new_text(st, T, m)
                st.env[dest] = ("ref", T, False)
            return True
        if dfn == "core::str::<impl str>::char_indices" and dest is not None:
            P = tgt(0)
            if P is not None and (P + ("#text",)) in st.env:
                st.env[dest] = ("charidx", P, st.env[P + ("#text",)])
            return True
        if dfn == "core::iter::traits::iterator::Iterator::nth" and dest is not None:
            itp = tgt(0)
            it = st.env.get(itp) if itp is not None else None
            k = self.int_of(st, args[1]) if len(args) > 1 else None
            if itp is not None:
                self.havoc(st, itp)          # the iterator has advanced
            if isinstance(it, tuple) and it and it[0] == "charidx" and isinstance(k, Lin) \
                    and st.env.get(it[1] + ("#text",)) == it[2]:
                # a fresh CharIndices: the k-th item is (byte offset of character k, character k), present iff k < #chars
                st.env[dest + ("@Some", "0", "0")] = ("boff", it[1], it[2], k)
                st.env[dest + ("#guard",)] = ("cmp", "Lt", k, st.env[it[1] + ("#chars",)])
            return True
        if dfn in ("core::str::<impl str>::len", "alloc::string::String::len") and dest is not None:
            P = tgt(0)
            if P is not None and (P + ("#text",)) in st.env:
                # the byte length is the offset of the boundary after the last character
                st.env[dest] = ("boff", P, st.env[P + ("#text",)], st.env[P + ("#chars",)])
            return True
        if dfn in ("core::option::Option::<T>::map_or", "core::option::Option::<T>::map", "core::option::Option::<T>::unwrap_or") \
                and dest is not None:
            meth = dfn.rsplit("::", 1)[-1]
            src = self.operand_path(st, args[0])
            proj = ()
            if meth != "unwrap_or":
                proj = self.projection_closure(args[-1])
            if src is None or proj is None:
                return True
            tag = st.env.get(src + ("#tag",))
            guard = st.env.get(src + ("#guard",))
            some = st.env.get(src + ("@Some", "0") + proj)
            if meth == "map":
                if some is not None:
                    st.env[dest + ("@Some", "0")] = some
                if tag is not None:
                    st.env[dest + ("#tag",)] = tag
                if guard is not None:
                    st.env[dest + ("#guard",)] = guard
                return True
            dflt = self.operand_value(st, args[1])
            if tag == "Some" and some is not None:
                st.env[dest] = some
            elif tag == "None" and dflt is not None:
                st.env[dest] = dflt
            elif guard is not None and some is not None and dflt is not None:
                st.env[dest] = ("either", guard, some, dflt)
            return True
        if dfn == "rustyline::completion::FilenameCompleter::complete_path":
            pos = self.operand_value(st, args[2]) if len(args) > 2 else None
            if isinstance(pos, tuple) and pos and pos[0] == "either":
                # decide both cases of the guarded value separately
                for truth, v in ((True, pos[2]), (False, pos[3])):
                    s2 = st.copy()
                    if self.assume(s2, pos[1], truth):
                        self.complete_path_contract(s2, bb, tgt(1), v)
                return True
            self.complete_path_contract(st, bb, tgt(1), pos)
            return True
        # unknown call: whatever is reachable through a mutable reference argument may change
        for a in args:
            v = self.operand_value(st, a)
            if isinstance(v, tuple) and v and v[0] == "ref" and (len(v) < 3 or v[2]):
                self.havoc(st, v[1])
        return True

    def projection_closure(self, o):
        """the closure operand `o` is |x| x.<fields> (copies only): the field path, else None"""
        ty = self.local_ty(o) or ""
        name = None
        pl = o.get("m") or o.get("c")
        if pl is not None and not pl["p"]:
            # the closure value was built by an aggregate statement of this body: find its name
            for blk in self.body.blocks:
                for s_ in blk["s"]:
                    if s_["k"] == "assign" and s_["p"]["l"] == pl["l"] and not s_["p"]["p"] and s_["r"]["k"] == "agg":
                        name = s_["r"].get("name") or s_["r"].get("variant")
        cb = self.p.bodies.get(name) if name else None
        if cb is None or len(cb.blocks) != 1 or cb.blocks[0]["t"]["k"] != "ret":
            return None
        src = {2: ()}
        for s_ in cb.blocks[0]["s"]:
            if s_["k"] != "assign":
                continue
            r = s_["r"]
            if s_["p"]["p"] or r["k"] != "use" or "k" in r["o"]:
                return None
            q = r["o"].get("m") or r["o"].get("c")
            if q["l"] not in src:
                return None
            path = src[q["l"]]
            for pr in q["p"]:
                if isinstance(pr, dict) and "f" in pr:
                    path = path + (str(pr.get("n", pr["f"])),)
                else:
                    return None
            src[s_["p"]["l"]] = path
        return src.get(0)

    def complete_path_contract(self, st, bb, P, pos):
        """contract (rustyline 7.1 completion.rs: `&line[..pos]`): pos is a byte offset of `line` on a
        character boundary, at most line.len()"""
        tid = st.env.get(P + ("#text",)) if P is not None else None
        n = st.env.get(P + ("#chars",)) if P is not None else None
        if tid is None or not isinstance(n, Lin):
            self.oblige(bb, False, "complete_path on a line the analysis knows nothing about")
        elif isinstance(pos, Lin):
            ok = st.dbm.le(pos, Lin("0", 0))
            self.oblige(bb, ok, "complete_path position 0" if ok else
                        "complete_path(line, pos) slices line[..pos] by bytes, but pos = %r counts characters of a line of %r "
                        "characters: inside a multi-byte character (or beyond the end) the slice panics" % (pos, n))
        elif isinstance(pos, tuple) and pos and pos[0] == "boff" and pos[1] == P and pos[2] == tid:
            ok = isinstance(pos[3], Lin) and st.dbm.le(pos[3], n)
            self.oblige(bb, ok, "complete_path position is the byte offset of character %r of a line of %r characters" % (pos[3], n))
        else:
            self.oblige(bb, False, "complete_path position %r is not known to be a character boundary of the line" % (pos,))

    def _minmax(self, st, dest, meth, a, b):
        if meth == "min":
            if st.dbm.le(a, b):
                st.env[dest] = a
            elif st.dbm.le(b, a):
                st.env[dest] = b
            else:
                r = self.fresh(st, "min", None, None)
                st.dbm.assume_le(r, a)
                st.dbm.assume_le(r, b)
                st.dbm.add("0", r.s, 0)
                st.env[dest] = r
        else:
            if st.dbm.le(a, b):
                st.env[dest] = b
            elif st.dbm.le(b, a):
                st.env[dest] = a
            else:
                r = self.fresh(st, "max", 0, None)
                st.dbm.assume_le(a, r)
                st.dbm.assume_le(b, r)
                st.env[dest] = r
        return True

    # ---- driver ---------------------------------------------------------------------------
    MAX_PATH_STATES = 20000

    def run(self, entry_state):
        """explore every path of the (loop-free) body; states are not merged (full trace partitioning)"""
        body = self.body
        succs = {}
        for i, blk in enumerate(body.blocks):
            t = blk["t"]
            k = t["k"]
            if k in ("goto", "drop", "assert"):
                succs[i] = [t["t"]]
            elif k == "call":
                succs[i] = [t["t"]] if t.get("t") is not None else []
            elif k == "switch":
                succs[i] = [x for _, x in t["vals"]] + [t["else"]]
            else:
                succs[i] = []
        # loop check on the normal-edge graph
        color = {}
        stack = [(0, iter(succs[0]))]
        color[0] = 1
        while stack:
            x, it = stack[-1]
            adv = False
            for y in it:
                if color.get(y) == 1:
                    raise AnchorMissing("loop in %s: the zone analysis handles loop-free code only" % body.path)
                if y not in color:
                    color[y] = 1
                    stack.append((y, iter(succs[y])))
                    adv = True
                    break
            if not adv:
                color[x] = 2
                stack.pop()
        work = [(0, entry_state)]
        steps = 0
        while work:
            bb, st = work.pop()
            steps += 1
            if steps > self.MAX_PATH_STATES:
                raise AnchorMissing("too many paths in %s" % body.path)
            blk = body.blocks[bb]
            for s in blk["s"]:
                if s["k"] == "assign":
                    dst = self.place(st, s["p"])
                    if dst is None:
                        # a write through an untracked pointer: forget everything about the struct
                        self.notes.append("bb%d: write through untracked place %r" % (bb, s["p"]))
                        self.havoc(st, ("S",))
                        continue
                    self.assign(st, dst, s["r"], bb)
            t = blk["t"]
            k = t["k"]
            if k in ("goto", "drop"):
                work.append((t["t"], st))
            elif k == "call":
                self.call(st, bb, t)
                if t.get("t") is not None:
                    work.append((t["t"], st))
            elif k == "assert":
                c = self.operand_value(st, t["c"])
                kind = t["msg"].get("kind")
                if isinstance(c, tuple) and c and c[0] == "ovf":
                    _, op, res, ty, a, b = c
                    lo, hi = (ISIZE_MIN, ISIZE_MAX) if str(ty).startswith("i") else (0, USIZE_MAX)
                    ok = False
                    if res is not None:
                        ok = st.dbm.le(Lin("0", lo), res) and st.dbm.le(res, Lin("0", hi))
                    self.oblige(bb, ok, "%s of %r and %r stays within %s" % (op, a, b, ty))
                    if res is not None:
                        st.dbm.assume_le(Lin("0", lo), res)
                        st.dbm.assume_le(res, Lin("0", hi))
                elif isinstance(c, tuple) and c and c[0] == "cmp" and kind in ("rem_zero", "div_zero"):
                    _, op, a, b = c
                    ok = op == "Eq" and b == Lin("0", 0) and st.dbm.le(Lin("0", 1), a)
                    self.oblige(bb, ok, "divisor %r is not zero" % (a,))
                    self.assume(st, c, t["exp"])
                elif kind in ("overflow", "rem_zero", "div_zero", "bounds"):
                    self.oblige(bb, False, "%s check on a value the analysis does not track" % kind)
                work.append((t["t"], st))
            elif k == "switch":
                dv = self.operand_value(st, t["d"])
                edges = [(v, x) for v, x in t["vals"]] + [(None, t["else"])]
                listed = {vv for vv, _ in t["vals"]}
                for v, x in edges:
                    s2 = st.copy()
                    feasible = True
                    if isinstance(dv, tuple) and dv and dv[0] in ("cmp", "isempty", "not"):
                        if v is not None:
                            feasible = self.assume(s2, dv, bool(v))
                        elif listed == {0}:
                            feasible = self.assume(s2, dv, True)
                        elif listed == {1}:
                            feasible = self.assume(s2, dv, False)
                        elif listed == {0, 1}:
                            feasible = False
                    elif isinstance(dv, tuple) and dv and dv[0] == "discr" and not str(dv[2]).startswith("core::option::Option"):
                        # remember which variant of another enum this path is about
                        s2.env[("#variant",) + tuple(dv[1])] = v
                    elif isinstance(dv, tuple) and dv and dv[0] == "discr" and str(dv[2]).startswith("core::option::Option"):
                        P = dv[1]
                        cur = s2.env.get(P + ("#tag",))
                        names = {0: "None", 1: "Some"}
                        if v is not None:
                            want = names.get(v)
                        else:
                            rest = [names[q] for q in (0, 1) if q not in listed]
                            want = rest[0] if len(rest) == 1 else ("" if not rest else None)
                        if want == "":
                            feasible = False
                        elif want is not None:
                            if cur in ("Some", "None") and cur != want:
                                feasible = False
                            else:
                                s2.env[P + ("#tag",)] = want
                                g = s2.env.get(P + ("#guard",))
                                if g is not None:
                                    feasible = self.assume(s2, g, want == "Some")
                                self.on_tag(s2, P, want, cur)
                    if feasible:
                        work.append((x, s2))
            elif k == "ret":
                self.exit_states.append(st)

    def on_tag(self, st, P, tag, previous):
        pass

    def join_states(self, states, bb):
        if len(states) == 1:
            return states[0]
        keys = set(states[0].env)
        for s in states[1:]:
            keys &= set(s.env)
        out = St()
        fresh_needed = []
        for k in keys:
            vals = [s.env[k] for s in states]
            if all(v == vals[0] for v in vals[1:]):
                out.env[k] = vals[0]
            elif all(isinstance(v, Lin) for v in vals):
                self.counter += 1
                z = "%sphi%d#%d" % (self.fp, bb, self.counter)
                for s, v in zip(states, vals):
                    s.dbm.add(z, v.s, v.k)
                    s.dbm.add(v.s, z, -v.k)
                out.env[k] = Lin(z, 0)
        d = states[0].dbm
        for s in states[1:]:
            d = d.join(s.dbm)
        out.dbm = d
        return out
