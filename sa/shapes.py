"""Build abstract values from type facts and name paths into them."""
import re

from . import domain as D
from .domain import Agg, En, Arr, ArrS, Opaque, TOP, Fl, FTOP
from .facts import AnchorMissing
from .absint import strip_generics


def split_generic_args(ty):
    """'core::option::Option<A<B>, C>' -> ('core::option::Option', ['A<B>', 'C'])"""
    i = ty.find("<")
    if i < 0 or not ty.endswith(">"):
        return ty, []
    base = ty[:i]
    inner = ty[i + 1:-1]
    args = []
    depth = 0
    cur = ""
    for ch in inner:
        if ch in "<([":
            depth += 1
        elif ch in ">)]":
            depth -= 1
        if ch == "," and depth == 0:
            args.append(cur.strip())
            cur = ""
        else:
            cur += ch
    if cur.strip():
        args.append(cur.strip())
    return base, args


def top_leaf(path, ty):
    if ty in D.INT_TYPES:
        return D.top_of_int(ty)
    if ty in ("f32", "f64"):
        return FTOP
    return TOP


def opaque_leaf(path, ty):
    return Opaque(".".join(str(x) for x in path))


def build(p, ty, leaf=top_leaf, path=(), overrides=None, mkref=None):
    """abstract value of type `ty`; scalars come from leaf(path, ty);
    overrides: dict dotted-path -> value; mkref(value, mutable) allocates a
    cell for reference-typed fields (without it references are TOP)"""
    if overrides:
        key = ".".join(str(x) for x in path)
        if key in overrides:
            return overrides[key]
    ty = ty.strip()
    if ty.startswith("&") and mkref is not None:
        mut = ty.startswith("&mut ")
        inner = ty[5:] if mut else ty[1:]
        inner = inner.strip()
        if inner.startswith("'"):
            inner = inner.split(" ", 1)[1] if " " in inner else inner
            if inner.startswith("mut "):
                mut = True
                inner = inner[4:]
        return mkref(build(p, inner, leaf, path, overrides, mkref), mut)
    if ty in D.INT_TYPES or ty in ("f32", "f64"):
        return leaf(path, ty)
    if ty == "()":
        return Agg(())
    m = re.match(r"^\[(.*); (\d+)\]$", ty)
    if m:
        et, n = m.group(1), int(m.group(2))
        if n <= 16:
            return Arr([build(p, et, leaf, path + (i,), overrides, mkref) for i in range(n)])
        return ArrS(build(p, et, leaf, path + ("*",), overrides, mkref), n)
    if ty.startswith("(") and ty.endswith(")"):
        _, args = split_generic_args("T<" + ty[1:-1] + ">")
        return Agg([build(p, a, leaf, path + (i,), overrides, mkref) for i, a in enumerate(args)])
    base, args = split_generic_args(ty)
    if base == "core::option::Option":
        return En({0: (), 1: (build(p, args[0], leaf, path + ("Some",), overrides, mkref),)})
    if base == "core::marker::PhantomData":
        return Agg(())
    t = p.types.get(base)
    if t is None:
        return TOP
    if t["kind"] == "Struct":
        fs = t["variants"][0]["fields"]
        return Agg([build(p, f["ty"], leaf, path + (f["n"],), overrides, mkref) for f in fs])
    if t["kind"] == "Enum":
        vs = {}
        for vi, v in enumerate(t["variants"]):
            vs[vi] = tuple(build(p, f["ty"], leaf, path + (v["n"], f["n"]), overrides, mkref) for f in v["fields"])
        return En(vs)
    return TOP


def name_path(p, ty, path):
    """human readable name of an interpreter path (tuple of steps) into a value of type `ty`"""
    out = []
    cur = ty
    for step in path:
        base, args = split_generic_args(cur.strip()) if cur else (None, [])
        m = re.match(r"^\[(.*); (\d+)\]$", cur.strip()) if cur else None
        if isinstance(step, int):
            t = p.types.get(base) if base else None
            if t and t["kind"] == "Struct" and step < len(t["variants"][0]["fields"]):
                f = t["variants"][0]["fields"][step]
                out.append(f["n"])
                cur = f["ty"]
            elif cur and cur.startswith("("):
                _, targs = split_generic_args("T<" + cur.strip()[1:-1] + ">")
                out.append(str(step))
                cur = targs[step] if step < len(targs) else None
            else:
                out.append(str(step))
                cur = None
        else:
            k = step[0]
            if k == "d":
                t = p.types.get(base) if base else None
                if t and t["kind"] == "Enum":
                    out.append("<%s>" % t["variants"][step[1]]["n"])
                else:
                    out.append("<v%d>" % step[1])
                # payload type tracking stops here
                if base == "core::option::Option" and step[1] == 1:
                    cur = "(" + args[0] + ",)"
                else:
                    cur = None
            elif k == "i":
                out.append("[%d]" % step[1])
                cur = m.group(1) if m else None
            elif k == "s":
                out.append("[*]")
                cur = m.group(1) if m else None
            else:
                out.append("?")
                cur = None
    return ".".join(out).replace(".[", "[")


def field_paths(p, ty, prefix=(), stop=None):
    """all leaf field paths (dotted names) of a struct type, recursing into local structs"""
    base, args = split_generic_args(ty.strip())
    t = p.types.get(base)
    if t is None or t["kind"] != "Struct" or (stop and base in stop):
        return [".".join(prefix)] if prefix else []
    out = []
    for f in t["variants"][0]["fields"]:
        sub = field_paths(p, f["ty"], prefix + (f["n"],), stop)
        out.extend(sub if sub else [".".join(prefix + (f["n"],))])
    return out
