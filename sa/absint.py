"""A4: abstract interpreter over MIR facts.

Forward, flow-sensitive; per function body a reverse-post-order worklist that
joins states arriving at the same block (one pass over acyclic bodies, widening
at loop heads); branch refinement on SwitchInt edges; context-sensitive by
inlining local callees (bounded depth, no recursion); foreign functions are
handled by the model table in externs.py or conservatively (result TOP, memory
reachable through `&mut` arguments havocked).

Nothing of the repository is executed: the interpreter evaluates MIR
statements on the abstract domain of domain.py.
"""
import functools
import heapq
import itertools
import re

from . import domain as D
from .domain import (TOP, BOT, Agg, En, Arr, ArrS, Ref, FnV, Str, Opaque, Rng, Fl, It, BoxV,
                     join, is_scalar)

LOG_MACROS = {"trace", "debug", "info", "warn", "error", "log", "log_enabled"}
WIDEN_AFTER = 3
MAX_DEPTH = 48
MAX_VISITS = 400


class AnalysisLimit(Exception):
    pass


class Event:
    __slots__ = ("kind", "body", "ln", "info", "stack", "in_log", "bb")

    def __init__(self, kind, body, ln, info, stack, in_log=False, bb=None):
        self.kind = kind
        self.body = body
        self.ln = ln
        self.info = info
        self.stack = stack
        self.in_log = in_log
        self.bb = bb

    def __repr__(self):
        return "<%s %s:%s %r>" % (self.kind, self.body, self.ln, self.info)


@functools.lru_cache(maxsize=None)
def strip_generics(ty):
    """'std::option::Option<u8>' -> 'std::option::Option'"""
    out = []
    depth = 0
    for ch in ty:
        if ch == "<":
            depth += 1
        elif ch == ">":
            depth -= 1
        elif depth == 0:
            out.append(ch)
    return "".join(out)


class State:
    __slots__ = ("store", "conds", "copies", "mention", "deref", "rel")

    def __init__(self, store=None, conds=None, copies=None, mention=None, deref=False, rel=None):
        # relational facts between two places: set of (op, keyA, keyB) meaning A op B (op in Lt/Le)
        self.rel = rel if rel is not None else frozenset()
        self.store = store if store is not None else {}
        self.conds = conds if conds is not None else {}
        self.copies = copies if copies is not None else {}
        # locals mentioned by conds/copies (superset) and whether any of them goes through a deref
        self.mention = mention if mention is not None else set()
        self.deref = deref

    def copy(self):
        return State(dict(self.store), dict(self.conds), dict(self.copies), set(self.mention), self.deref, self.rel)


def join_states(a, b):
    if a is None:
        return b
    if b is None:
        return a
    store = dict(a.store)
    for k, v in b.store.items():
        if k in store:
            o = store[k]
            if o is not v:
                store[k] = join(o, v)
        else:
            store[k] = v
    conds = {k: v for k, v in a.conds.items() if b.conds.get(k) == v}
    copies = {k: v for k, v in a.copies.items() if b.copies.get(k) == v}
    return State(store, conds, copies, a.mention | b.mention, a.deref or b.deref, a.rel & b.rel)


def states_equal(a, b):
    return a.store == b.store


WILD = object()


class _Recorder:
    __slots__ = ("depth", "heap_mark", "reads", "pure", "events")

    def __init__(self, depth, heap_mark):
        self.depth = depth          # frames >= depth are internal to the recorded call
        self.heap_mark = heap_mark  # heap allocations newer than this are internal
        self.reads = {}
        self.pure = True
        self.events = []


_CONST_IDS = itertools.count(1)

FN_TRAIT_CALLS = ("core::ops::function::Fn::call", "core::ops::function::FnMut::call_mut",
                  "core::ops::function::FnOnce::call_once")


class Interp:
    def __init__(self, program, externs=None, max_depth=MAX_DEPTH, skip_log=True):
        self.p = program
        self.events = []
        self.stack = []
        self.max_depth = max_depth
        self.heap_counter = 0
        self.const_counter = 0
        self.block_hits = {}
        self.call_edges = set()
        self.trace_blocks = False
        self.skip_log = skip_log
        if externs is None:
            from . import externs as _ext
            externs = _ext
        self.externs = externs
        self.fn_overrides = {}
        self.stats = {"stmts": 0, "calls": 0, "memo_hits": 0, "memo_miss": 0}
        self.memo = False
        self.cur = None
        self.unroll = 0
        self.memo_cache = {}
        self.recorders = []

    # ------------------------------------------------------------------
    # events
    def ev(self, kind, body, ln, info, in_log=False):
        cur = self.cur
        bb = cur[1] if (cur is not None and body is not None and cur[0] == body.path) else None
        e = Event(kind, body.path if body else None, ln, info, tuple(self.stack), in_log, bb)
        self.events.append(e)
        for rec in self.recorders:
            rec.events.append(e)

    # ------------------------------------------------------------------
    # memory
    def new_alloc(self, st, name, value):
        self.heap_counter += 1
        a = ("heap", name, self.heap_counter)
        st.store[a] = value
        return a

    def site_alloc(self, st, name, value, body, ln):
        """allocation-site abstraction for cells a library model creates: one cell per call site, so that a loop
        that executes the site again reaches a fixed point (the cell then holds the join of all values it stood for)"""
        a = ("heap", name, ("site", body.path if body is not None else None, ln, self.cur, len(self.stack)))
        old = st.store.get(a)
        st.store[a] = value if old is None else join(old, value)
        return a

    def read_path(self, v, path):
        for step in path:
            if v is TOP or v is BOT:
                return v
            if v is None:
                return BOT
            if isinstance(step, int):
                if isinstance(v, Agg):
                    v = v.f[step] if step < len(v.f) else TOP
                elif isinstance(v, BoxV):
                    pass    # Box.0 / Unique.pointer / NonNull.pointer: the same pointer
                elif isinstance(v, FnV):
                    v = v.env.f[step] if (v.env is not None and step < len(v.env.f)) else TOP
                else:
                    return TOP
            else:
                k = step[0]
                if k == "d":
                    if isinstance(v, En):
                        if step[1] in v.vs:
                            v = Agg(v.vs[step[1]])
                        else:
                            return BOT
                    else:
                        return TOP
                elif k == "i":
                    if isinstance(v, Arr):
                        v = v.e[step[1]] if step[1] < len(v.e) else BOT
                    elif isinstance(v, ArrS):
                        v = v.elem
                    else:
                        return TOP
                elif k == "s":
                    if isinstance(v, Arr):
                        idx = step[1]
                        r = BOT
                        for i, e in enumerate(v.e):
                            if D.contains(idx, i) if idx is not None else True:
                                r = join(r, e)
                        v = r
                    elif isinstance(v, ArrS):
                        v = v.elem
                    else:
                        return TOP
                else:
                    return TOP
        return v

    def write_path(self, v, path, new, weak):
        if not path:
            return join(v, new) if (weak and v is not None) else new
        step = path[0]
        rest = path[1:]
        if v is TOP or isinstance(v, Opaque):
            return TOP
        if isinstance(step, int):
            if isinstance(v, Agg):
                f = list(v.f)
            elif v is None or v is BOT:
                f = []
            elif isinstance(v, FnV) and v.env is not None:
                f = list(v.env.f)
                while len(f) <= step:
                    f.append(None)
                f[step] = self.write_path(f[step], rest, new, weak)
                return FnV(v.path, Agg(f), v.callee)
            else:
                return TOP
            while len(f) <= step:
                f.append(None)
            f[step] = self.write_path(f[step], rest, new, weak)
            return Agg(f)
        k = step[0]
        if k == "d":
            vi = step[1]
            if isinstance(v, En):
                cur = v.vs.get(vi)
                cur_agg = Agg(cur) if cur is not None else None
                upd = self.write_path(cur_agg, rest, new, weak)
                if not isinstance(upd, Agg):
                    return TOP
                if weak:
                    vs = dict(v.vs)
                    vs[vi] = upd.f
                    return En(vs)
                return En({vi: upd.f})
            if v is None or v is BOT:
                upd = self.write_path(None, rest, new, weak)
                if isinstance(upd, Agg):
                    return En({vi: upd.f})
            return TOP
        if k == "i":
            i = step[1]
            if isinstance(v, Arr):
                if i >= len(v.e):
                    return v
                e = list(v.e)
                e[i] = self.write_path(e[i], rest, new, weak)
                return Arr(e)
            if isinstance(v, ArrS):
                return ArrS(self.write_path(v.elem, rest, new, True), v.n)
            return TOP
        if k == "s":
            idx = step[1]
            if isinstance(v, Arr):
                e = list(v.e)
                for i in range(len(e)):
                    if idx is None or D.contains(idx, i):
                        e[i] = self.write_path(e[i], rest, new, True)
                return Arr(e)
            if isinstance(v, ArrS):
                return ArrS(self.write_path(v.elem, rest, new, True), v.n)
            return TOP
        return TOP

    def load(self, st, alloc, path):
        if alloc not in st.store:
            v = TOP
        else:
            v = self.read_path(st.store[alloc], path)
        if self.recorders:
            a0 = alloc[0]
            for rec in self.recorders:
                if (a0 < rec.depth) if type(a0) is int else (alloc[2] <= rec.heap_mark):
                    k = (alloc, path)
                    if k not in rec.reads:
                        rec.reads[k] = v
        return v

    def store_to(self, st, alloc, path, value, weak=False, body=None, ln=0):
        if alloc not in st.store:
            # unknown target
            self.ev("wild_write", body, ln, (alloc, path))
            for rec in self.recorders:
                rec.pure = False
            return
        if not weak:
            for s in path:
                if not isinstance(s, int) and s[0] == "s":
                    weak = True
                    break
        if not isinstance(alloc[0], int):
            self.ev("write", body, ln, (alloc, path))
        if self.recorders:
            a0 = alloc[0]
            for rec in self.recorders:
                if (a0 < rec.depth) if type(a0) is int else (alloc[2] <= rec.heap_mark):
                    rec.pure = False
        st.store[alloc] = self.write_path(st.store[alloc], path, value, weak)

    # ------------------------------------------------------------------
    # places
    def addr_of(self, st, depth, place, body=None, ln=0):
        """-> (alloc, path) or WILD"""
        alloc = (depth, place["l"])
        path = ()
        for pe in place["p"]:
            if pe == "*":
                v = self.load(st, alloc, path)
                if isinstance(v, BoxV):
                    v = v.ref
                if isinstance(v, Ref):
                    alloc, path = v.alloc, v.path
                elif isinstance(v, (Str, Opaque)) or getattr(v, "by_value_string", False):
                    # string slices are represented by value: `*s` is the string itself
                    pass
                else:
                    return WILD
            elif isinstance(pe, dict):
                if "f" in pe:
                    path = path + (pe["f"],)
                elif "d" in pe:
                    path = path + (("d", pe["vi"]),)
                elif "i" in pe:
                    idx = self.load(st, (depth, pe["i"]), ())
                    if isinstance(idx, int):
                        path = path + (("i", idx),)
                    else:
                        path = path + (("s", idx if is_scalar(idx) else None),)
                elif "ci" in pe:
                    if pe.get("fe"):
                        path = path + (("s", None),)
                    else:
                        path = path + (("i", pe["ci"]),)
                elif "sub" in pe:
                    path = path + (("s", None),)
                else:
                    return WILD
            else:
                return WILD
        return alloc, path

    def read_place(self, st, depth, place, body=None, ln=0):
        a = self.addr_of(st, depth, place, body, ln)
        if a is WILD:
            return TOP
        return self.load(st, a[0], a[1])

    def write_place(self, st, depth, place, value, body=None, ln=0):
        a = self.addr_of(st, depth, place, body, ln)
        if a is WILD:
            self.ev("wild_write", body, ln, place)
            return
        self.store_to(st, a[0], a[1], value, False, body, ln)
        # invalidate conditions/copies mentioning this local
        l = place["l"]
        deref = bool(place["p"]) and place["p"][0] == "*"
        if st.rel:
            st.rel = frozenset(f for f in st.rel if f[1][0] != l and f[2][0] != l
                               and not (deref and (f[1][2] or f[2][2])))
        if (l in st.mention) or (deref and st.deref):
            if st.conds:
                st.conds = {k: c for k, c in st.conds.items()
                            if k != l and not _cond_mentions(c, l, deref)}
            if st.copies:
                st.copies = {k: c for k, c in st.copies.items()
                             if k != l and c["l"] != l and not (deref and c["p"] and c["p"][0] == "*")}

    # ------------------------------------------------------------------
    # operands / rvalues
    def scalar_to_value(self, ty, v):
        """value of type `ty` whose in-memory representation is the scalar v"""
        if ty in D.INT_TYPES:
            return v
        if ty in ("f32", "f64"):
            import struct
            x = struct.unpack("<f", struct.pack("<I", v & 0xFFFFFFFF))[0] if ty == "f32" else \
                struct.unpack("<d", struct.pack("<Q", v & 0xFFFFFFFFFFFFFFFF))[0]
            return Fl(x, x, x != x)
        t = self.p.types.get(strip_generics(ty))
        if t is not None:
            if t["kind"] == "Struct":
                fs = t["variants"][0]["fields"]
                if len(fs) == 1:
                    return Agg((self.scalar_to_value(fs[0]["ty"], v),))
                return TOP
            if t["kind"] == "Enum":
                for vi, var in enumerate(t["variants"]):
                    if var.get("discr", vi) == v and not var["fields"]:
                        return En({vi: ()})
                return TOP
        return TOP

    def agg_const(self, g):
        fields = []
        for f in g["fields"]:
            if "agg" in f:
                fields.append(self.agg_const(f["agg"]))
            else:
                fields.append(self.const_val(f))
        if g.get("is_enum"):
            return En({g.get("vi", 0): tuple(fields)})
        return Agg(fields)

    def const_val(self, k):
        if "fn" in k:
            f = k["fn"]
            return FnV(f.get("res") or f["def"], None, f)
        ty = k["ty"]
        if "f" in k:
            x = float(k["f"]) if k["f"] not in ("NaN", "inf", "-inf") else float(k["f"].lower())
            if ty == "f32":
                x = D.f32r(x)
            return Fl(x, x, x != x)
        if "v" in k:
            if ty in D.INT_TYPES:
                return k["v"]
            return self.scalar_to_value(ty, k["v"])
        if "agg" in k:
            val = self.agg_const(k["agg"])
            if ty.startswith("&"):
                return ("constref", val)
            return val
        if "str" in k:
            return Str(k["str"])
        if "zst" in k:
            return Agg(())
        if "arr" in k:
            base = ty[1:].strip() if ty.startswith("&") else ty
            m = re.match(r"^\[(.*); \d+\]$", base)
            if m:
                et = m.group(1)
                if et in D.INT_TYPES:
                    val = Arr(k["arr"])
                else:
                    val = Arr([self.scalar_to_value(et, x) for x in k["arr"]])
            elif len(k["arr"]) == 1:
                val = self.scalar_to_value(base, k["arr"][0])
            else:
                val = TOP
            if ty.startswith("&"):
                return ("constref", val)
            return val
        if "strs" in k:
            val = Arr([Str(s) if s is not None else TOP for s in k["strs"]])
            if ty.startswith("&"):
                return ("constref", val)
            return val
        if "bytes" in k:
            return Arr(k["bytes"])
        return TOP

    def operand(self, st, depth, op, body=None, ln=0):
        if "c" in op:
            return self.read_place(st, depth, op["c"], body, ln)
        if "m" in op:
            return self.read_place(st, depth, op["m"], body, ln)
        if "k" in op:
            v = op.get("_cv")
            if v is None:
                v = self.const_val(op["k"])
                if not isinstance(v, tuple):
                    try:
                        op["_cv"] = v
                    except TypeError:
                        pass
            if isinstance(v, tuple) and v and v[0] == "constref":
                aid = op.get("_aid")
                if aid is None:
                    # the id is cached in the (shared) fact record, so it must be unique across all
                    # interpreter instances of the process, not per instance
                    aid = op["_aid"] = ("const", "promoted", -next(_CONST_IDS))
                if aid not in st.store:
                    st.store[aid] = v[1]
                return Ref(aid, (), False)
            return v
        return TOP

    def discr_values(self, v, ty):
        """abstract value of discriminant(v) for a value of type `ty`"""
        if isinstance(v, En):
            t = self.p.types.get(strip_generics(ty))
            out = set()
            for vi in v.vs:
                if t and t["kind"] == "Enum" and "discr" in t["variants"][vi]:
                    out.add(t["variants"][vi]["discr"])
                else:
                    out.add(vi)
            return D.norm_set(frozenset(out))
        if is_scalar(v):
            return v
        return TOP

    def discr_to_vi(self, ty, dv):
        t = self.p.types.get(strip_generics(ty))
        if t and t["kind"] == "Enum":
            for vi, var in enumerate(t["variants"]):
                if var.get("discr", vi) == dv:
                    return vi
            return None
        return dv

    def all_variants(self, ty):
        t = self.p.types.get(strip_generics(ty))
        if t and t["kind"] == "Enum":
            return list(range(len(t["variants"])))
        return None

    def rvalue(self, st, depth, rv, body, ln, dest=None):
        k = rv["k"]
        if k == "use":
            return self.operand(st, depth, rv["o"], body, ln)
        if k == "bin":
            a = self.operand(st, depth, rv["a"], body, ln)
            b = self.operand(st, depth, rv["b"], body, ln)
            op = rv["op"]
            ty = rv["aty"]
            if op == "Cmp":
                return TOP
            if isinstance(a, Opaque) or isinstance(b, Opaque):
                if op in ("Eq", "Ne") and a == b:
                    return 1 if op == "Eq" else 0
                if ty in D.INT_TYPES:
                    if isinstance(a, Opaque):
                        a = D.top_of_int(ty)
                    if isinstance(b, Opaque):
                        b = D.top_of_int(ty) if op not in ("Shl", "Shr") else TOP
                    return D.binop(op, a, b, ty)
                if op in D._CMP:
                    return frozenset((0, 1))
                return TOP
            if isinstance(a, En) or isinstance(b, En):
                # comparison of field-less enums
                da = self.discr_values(a, ty)
                db = self.discr_values(b, ty)
                if op in D._CMP and is_scalar(da) and is_scalar(db):
                    return D.cmpop(op, da, db)
                return frozenset((0, 1)) if op in D._CMP else TOP
            if ty in ("f32", "f64"):
                return D.fbinop(op, a, b, ty)
            r = D.binop(op, a, b, ty)
            if op == "SubWithOverflow" and st.rel and isinstance(r, Agg) and r.f[1] != 0 \
                    and ty in D.INT_TYPES and not D.INT_TYPES[ty][1]:
                pa = rv["a"].get("c") or rv["a"].get("m")
                pb = rv["b"].get("c") or rv["b"].get("m")
                if pa is not None and pb is not None:
                    ka = self._origin_key(st, pa)
                    kb = self._origin_key(st, pb)
                    if ("Lt", kb, ka) in st.rel or ("Le", kb, ka) in st.rel:
                        # b <= a is known on this path: the subtraction cannot wrap
                        lo = 1 if ("Lt", kb, ka) in st.rel else 0
                        ba, bb_ = D.bounds(a), D.bounds(b)
                        val = D.norm_rng(max(lo, ba[0] - bb_[1]), ba[1] - bb_[0]) if ba and bb_ else r.f[0]
                        return Agg((val, 0))
            return r
        if k == "un":
            a = self.operand(st, depth, rv["a"], body, ln)
            if rv["op"] == "PtrMetadata":
                # length of a slice/array reference
                if isinstance(a, Ref):
                    tgt = self.load(st, a.alloc, a.path)
                    if isinstance(tgt, Arr):
                        return len(tgt.e)
                    if isinstance(tgt, ArrS):
                        return tgt.n if is_scalar(tgt.n) else D.top_of_int("usize")
                    if isinstance(tgt, Str):
                        return len(tgt.s.encode())
                return D.top_of_int("usize")
            if isinstance(a, Opaque):
                return D.top_of_int(rv["aty"]) if rv["aty"] in D.INT_TYPES else TOP
            return D.unop(rv["op"], a, rv["aty"])
        if k == "cast":
            a = self.operand(st, depth, rv["o"], body, ln)
            ck = rv["ck"]
            to = rv["ty"]
            frm = rv["from"]
            if ck.startswith("IntToInt"):
                if isinstance(a, En):
                    a = self.discr_values(a, frm)
                if isinstance(a, Opaque):
                    a = TOP
                return D.cast_int(a, to, frm)
            if ck.startswith("IntToFloat"):
                return D.fl_round(D.int_to_float(a), to)
            if ck.startswith("FloatToInt"):
                return D.float_to_int(a, to) if to in D.INT_TYPES else TOP
            if ck.startswith("FloatToFloat"):
                return D.fl_round(a, to)
            if ck.startswith("PointerCoercion") or ck.startswith("PtrToPtr"):
                return a
            if ck.startswith("Transmute"):
                if isinstance(a, BoxV) and to.startswith("*"):
                    return a.ref
                if isinstance(a, (Ref, BoxV)) and not (to in D.INT_TYPES):
                    return a
                return D.top_of_int(to) if to in D.INT_TYPES else TOP
            return TOP
        if k == "ref" or k == "rawptr":
            a = self.addr_of(st, depth, rv["p"], body, ln)
            if a is WILD:
                return TOP
            return Ref(a[0], a[1], rv.get("bk") == "mut" or "Mut" in str(rv.get("bk")))
        if k == "agg":
            fields = [self.operand(st, depth, o, body, ln) for o in rv["fields"]]
            ak = rv["ak"]
            if ak == "tuple":
                return Agg(fields)
            if ak == "array":
                return Arr(fields)
            if ak == "adt":
                t = self.p.types.get(rv["name"])
                is_enum = (t["kind"] == "Enum") if t else (rv["name"].startswith("core::option::Option")
                                                           or rv["name"].startswith("core::result::Result")
                                                           or rv["variant"] != rv["name"].split("::")[-1])
                if is_enum:
                    return En({rv["vi"]: tuple(fields)})
                return Agg(fields)
            if ak == "closure":
                return FnV(rv["name"], Agg(fields), None)
            return TOP
        if k == "discr":
            v = self.read_place(st, depth, rv["p"], body, ln)
            return self.discr_values(v, rv["ty"])
        if k == "repeat":
            e = self.operand(st, depth, rv["o"], body, ln)
            n = rv["n"]
            if 0 <= n <= 256:
                return Arr([e] * n)
            return ArrS(e, n if n >= 0 else D.top_of_int("usize"))
        return TOP

    # ------------------------------------------------------------------
    # refinement
    def note_cond(self, st, depth, dest_local, rv):
        k = rv["k"]
        if k == "bin" and rv["op"] in D._CMP:
            st.conds[dest_local] = ("cmp", rv["op"], rv["a"], rv["b"], rv["aty"])
            st.mention.add(dest_local)
            for o in (rv["a"], rv["b"]):
                pl = o.get("c") or o.get("m")
                if pl is not None:
                    st.mention.add(pl["l"])
                    if pl["p"] and pl["p"][0] == "*":
                        st.deref = True
        elif k == "discr":
            st.conds[dest_local] = ("discr", rv["p"], rv["ty"])
            st.mention.add(dest_local)
            st.mention.add(rv["p"]["l"])
            if rv["p"]["p"] and rv["p"]["p"][0] == "*":
                st.deref = True
        elif k == "un" and rv["op"] == "Not":
            a = rv["a"]
            src = a.get("c") or a.get("m")
            if src and not src["p"]:
                st.conds[dest_local] = ("not", src["l"])
                st.mention.add(dest_local)
                st.mention.add(src["l"])
        elif k == "use":
            a = rv["o"]
            src = a.get("c") or a.get("m")
            if src is not None:
                st.copies[dest_local] = src
                st.mention.add(dest_local)
                st.mention.add(src["l"])
                if src["p"] and src["p"][0] == "*":
                    st.deref = True
                if not src["p"] and src["l"] in st.conds:
                    st.conds[dest_local] = st.conds[src["l"]]
        elif k == "cast" and rv["ck"].startswith("IntToInt"):
            a = rv["o"]
            src = a.get("c") or a.get("m")
            # widening casts preserve the value: allow refinement through them
            if src is not None and _widening(rv["from"], rv["ty"]):
                st.copies[dest_local] = src
                st.mention.add(dest_local)
                st.mention.add(src["l"])
                if src["p"] and src["p"][0] == "*":
                    st.deref = True

    def refine_place(self, st, depth, place, fn, seen=None):
        """apply fn(old)->new to a place and to what it is a copy of"""
        if seen is None:
            seen = set()
        key = (place["l"], repr(place["p"]))
        if key in seen:
            return True
        seen.add(key)
        a = self.addr_of(st, depth, place)
        if a is WILD:
            return True
        old = self.load(st, a[0], a[1])
        new = fn(old)
        if new is BOT:
            return False
        if new is not old:
            weak = any((not isinstance(s, int)) and s[0] == "s" for s in a[1])
            if not weak:
                st.store[a[0]] = self.write_path(st.store[a[0]], a[1], new, False)
        if not place["p"] and place["l"] in st.copies:
            return self.refine_place(st, depth, st.copies[place["l"]], fn, seen)
        return True

    def _origin_key(self, st, place):
        """canonical key of the place a temporary is a copy of"""
        seen = 0
        while not place["p"] and place["l"] in st.copies and seen < 8:
            place = st.copies[place["l"]]
            seen += 1
        return (place["l"], repr(place["p"]), bool(place["p"]) and place["p"][0] == "*")

    def refine_bool(self, st, depth, local, truth):
        """refine state knowing that bool local == truth; returns False if infeasible"""
        c = st.conds.get(local)
        ok = self.refine_place(st, depth, {"l": local, "p": []},
                               lambda o: (truth if D.contains(o, truth) else BOT) if is_scalar(o) else o)
        if not ok:
            return False
        if c is None:
            return True
        if c[0] == "not":
            return self.refine_bool(st, depth, c[1], 1 - truth)
        if c[0] == "addrvar":
            _, alloc, path, vi, is_eq = c
            if alloc not in st.store:
                return True
            cur = self.load(st, alloc, path)
            if isinstance(cur, En):
                same = (truth == 1) == is_eq
                if same:
                    if vi not in cur.vs:
                        return False
                    new = En({vi: cur.vs[vi]})
                else:
                    vs = {k: v for k, v in cur.vs.items() if k != vi}
                    if not vs:
                        return False
                    new = En(vs)
                st.store[alloc] = self.write_path(st.store[alloc], path, new, False)
            return True
        if c[0] == "cmp":
            op, a, b, ty = c[1], c[2], c[3], c[4]
            if not truth:
                op = D.NEG[op]
            va = self.operand(st, depth, a)
            vb = self.operand(st, depth, b)
            if ty in ("f32", "f64"):
                return True
            pa = a.get("c") or a.get("m")
            pb = b.get("c") or b.get("m")
            if pa is not None and isinstance(vb, int) and is_scalar(va):
                if not self.refine_place(st, depth, pa, lambda o: D.refine_cmp(o, op, vb) if is_scalar(o) else o):
                    return False
            elif pb is not None and isinstance(va, int) and is_scalar(vb):
                sop = D.SWAP[op]
                if not self.refine_place(st, depth, pb, lambda o: D.refine_cmp(o, sop, va) if is_scalar(o) else o):
                    return False
            elif pa is not None and pb is not None and is_scalar(va) and is_scalar(vb):
                ka = self._origin_key(st, pa)
                kb = self._origin_key(st, pb)
                if op in ("Lt", "Le"):
                    st.rel = st.rel | {(op, ka, kb)}
                elif op in ("Gt", "Ge"):
                    st.rel = st.rel | {("Lt" if op == "Gt" else "Le", kb, ka)}
                # interval refinement between two variables
                la, ha = D.bounds(va)
                lb, hb = D.bounds(vb)
                if op in ("Lt", "Le", "Gt", "Ge"):
                    if op in ("Lt", "Le"):
                        adj = 1 if op == "Lt" else 0
                        if not self.refine_place(st, depth, pa, lambda o: D.refine_cmp(o, "Le", hb - adj) if is_scalar(o) else o):
                            return False
                        if not self.refine_place(st, depth, pb, lambda o: D.refine_cmp(o, "Ge", la + adj) if is_scalar(o) else o):
                            return False
                    else:
                        adj = 1 if op == "Gt" else 0
                        if not self.refine_place(st, depth, pa, lambda o: D.refine_cmp(o, "Ge", lb + adj) if is_scalar(o) else o):
                            return False
                        if not self.refine_place(st, depth, pb, lambda o: D.refine_cmp(o, "Le", ha - adj) if is_scalar(o) else o):
                            return False
            return True
        return True

    def refine_switch(self, st, depth, term, value, is_else, others):
        """refine st for taking the edge with `value` (or the otherwise edge,
        excluding `others`).  Returns False if the edge is infeasible."""
        d = term["d"]
        src = d.get("c") or d.get("m")
        if src is None:
            return True
        ty = term["ty"]
        if not src["p"]:
            local = src["l"]
            c = st.conds.get(local)
            if ty == "bool":
                if is_else:
                    vals = [v for v in (0, 1) if v not in others]
                    if len(vals) == 1:
                        return self.refine_bool(st, depth, local, vals[0])
                    return True
                return self.refine_bool(st, depth, local, value)
            if c is not None and c[0] == "discr":
                place, ety = c[1], c[2]
                if is_else:
                    excl = set(self.discr_to_vi(ety, o) for o in others)

                    def fn(o):
                        if isinstance(o, En):
                            vs = {vi: f for vi, f in o.vs.items() if vi not in excl}
                            return En(vs) if vs else BOT
                        return o
                else:
                    vi = self.discr_to_vi(ety, value)

                    def fn(o):
                        if isinstance(o, En):
                            if vi in o.vs:
                                return En({vi: o.vs[vi]})
                            return BOT
                        return o
                if not self.refine_place(st, depth, place, fn):
                    return False
        # refine the switched value itself

        def fnv(o):
            if not is_scalar(o):
                return o
            if is_else:
                vs = D.values(o)
                if vs is not None:
                    return D.norm_set(frozenset(x for x in vs if x not in others))
                return o
            return value if D.contains(o, value) else BOT
        return self.refine_place(st, depth, src, fnv)

    # ------------------------------------------------------------------
    # calls
    def havoc_reachable(self, st, v, seen=None, body=None, ln=0):
        if seen is None:
            seen = set()
        if isinstance(v, Ref):
            if v.mut and (v.alloc, v.path) not in seen:
                seen.add((v.alloc, v.path))
                if v.alloc in st.store:
                    self.ev("havoc", body, ln, (v.alloc, v.path))
                    for rec in self.recorders:
                        rec.pure = False
                    st.store[v.alloc] = self.write_path(st.store[v.alloc], v.path, TOP, False)
        elif isinstance(v, Agg):
            for f in v.f:
                self.havoc_reachable(st, f, seen, body, ln)
        elif isinstance(v, En):
            for fs in v.vs.values():
                for f in fs:
                    self.havoc_reachable(st, f, seen, body, ln)
        elif isinstance(v, FnV) and v.env is not None:
            self.havoc_reachable(st, v.env, seen, body, ln)
        elif isinstance(v, (Arr,)):
            for f in v.e:
                self.havoc_reachable(st, f, seen, body, ln)

    def call_fn(self, st, depth, callee, args, body, ln, in_log=False):
        """callee: dict from facts (def/res/local/...) ; returns value or BOT (diverges)"""
        self.stats["calls"] += 1
        res = callee.get("res") or callee.get("def")
        dfn = callee.get("def")
        if body is not None:
            self.call_edges.add((body.path, res))
        ov = self.fn_overrides.get(res) or self.fn_overrides.get(dfn) or \
            (self.fn_overrides.get(callee.get("defargs")) if self.fn_overrides else None)
        if ov is not None:
            return ov(self, st, depth, callee, args, body, ln)
        target = self.p.bodies.get(res)
        if (target is not None and target.kind == "Closure" and dfn in FN_TRAIT_CALLS and len(args) == 2
                and isinstance(args[1], Agg)):
            # <closure as Fn<(A,..)>>::call(&closure, (a,..)) resolved to the closure body: untuple
            args = [args[0]] + list(args[1].f)
        if target is not None and callee.get("ik") in (None, "Item", "ClosureOnceShim", "FnPtrShim", "ReifyShim"):
            if len(self.stack) >= self.max_depth or res in self.stack:
                self.ev("recursion_or_depth", body, ln, res)
                for a in args:
                    self.havoc_reachable(st, a, None, body, ln)
                return TOP
            return self.run_body(target, args, st, depth + 1)
        m = self.externs.lookup(dfn, res, callee)
        if m is not None:
            return m(self, st, depth, callee, args, body, ln)
        # unknown foreign function
        if not in_log:
            self.ev("unknown_extern", body, ln, dfn, in_log)
        for a in args:
            self.havoc_reachable(st, a, None, body, ln)
        return TOP

    def call_value(self, st, depth, fv, args, body, ln):
        """call a function value (closure or fn item) with already-untupled args"""
        if isinstance(fv, Ref):
            tgt = self.load(st, fv.alloc, fv.path)
            return self.call_value(st, depth, tgt, args, body, ln)
        if isinstance(fv, FnV):
            target = self.p.bodies.get(fv.path)
            if target is not None and target.kind == "Closure":
                # closure body: _1 is the environment (by ref or by value)
                t1 = target.locals[1]["ty"]
                if t1.startswith("&"):
                    a = self.new_alloc(st, "closure_env", fv)
                    env_arg = Ref(a, (), t1.startswith("&mut"))
                else:
                    env_arg = fv
                if len(self.stack) >= self.max_depth or fv.path in self.stack:
                    return TOP
                rv = self.run_body(target, [env_arg] + list(args), st, depth + 1)
                if isinstance(env_arg, Ref):
                    st.store.pop(env_arg.alloc, None)
                return rv
            if fv.callee is not None:
                return self.call_fn(st, depth, fv.callee, list(args), body, ln)
            if target is not None:
                return self.run_body(target, list(args), st, depth + 1)
        self.ev("unknown_call_value", body, ln, repr(fv))
        for a in args:
            self.havoc_reachable(st, a, None, body, ln)
        return TOP

    # ------------------------------------------------------------------
    # bodies
    def rpo(self, body):
        if body._rpo is not None:
            return body._rpo
        n = len(body.blocks)
        succ = [block_succs(b["t"]) for b in body.blocks]
        seen = [False] * n
        order = []
        stack = [(0, iter(succ[0]))]
        seen[0] = True
        while stack:
            node, it = stack[-1]
            adv = False
            for s in it:
                if not seen[s]:
                    seen[s] = True
                    stack.append((s, iter(succ[s])))
                    adv = True
                    break
            if not adv:
                order.append(node)
                stack.pop()
        order.reverse()
        idx = [n + 1] * n
        for i, b in enumerate(order):
            idx[b] = i
        # loop heads: targets of back edges
        heads = set()
        for b in order:
            for s in succ[b]:
                if idx[s] <= idx[b]:
                    heads.add(s)
        body._rpo = (idx, heads, succ)
        return body._rpo

    def run_body(self, body, args, st, depth):
        if not self.memo:
            return self._run_body(body, args, st, depth)
        try:
            key = (body.path, tuple(args))
            groups = self.memo_cache.get(key)
        except TypeError:
            return self._run_body(body, args, st, depth)
        if groups is not None:
            for locs, table in groups:
                vals = tuple([self.load(st, a, p) for a, p in locs])
                hit = table.get(vals)
                if hit is not None:
                    self.stats["memo_hits"] += 1
                    rv, evs = hit
                    if evs:
                        self.events.extend(evs)
                        for rec in self.recorders:
                            rec.events.extend(evs)
                    return rv
        self.stats["memo_miss"] += 1
        rec = _Recorder(depth, self.heap_counter)
        self.recorders.append(rec)
        try:
            rv = self._run_body(body, args, st, depth)
        finally:
            self.recorders.pop()
        if rec.pure and self.heap_counter == rec.heap_mark:
            locs = tuple(rec.reads.keys())
            vals = tuple(rec.reads.values())
            if groups is None:
                groups = self.memo_cache[key] = []
            for l2, table in groups:
                if l2 == locs:
                    table[vals] = (rv, tuple(rec.events))
                    break
            else:
                groups.append((locs, {vals: (rv, tuple(rec.events))}))
        # propagate reads to enclosing recorders
        if self.recorders:
            for (alloc, path), v in rec.reads.items():
                a0 = alloc[0]
                for r2 in self.recorders:
                    if (a0 < r2.depth) if type(a0) is int else (alloc[2] <= r2.heap_mark):
                        k = (alloc, path)
                        if k not in r2.reads:
                            r2.reads[k] = v
        return rv

    def _run_body(self, body, args, st, depth):
        """Interpret `body` with `args`; mutates st (the caller's state object is
        replaced in place by the joined return state). Returns the return value
        (BOT if the function cannot return)."""
        idx, heads, _succ = self.rpo(body)
        self.stack.append(body.path)
        try:
            nloc = len(body.locals)
            entry = State(st.store, {}, {}, set(), False)
            for i in range(nloc):
                entry.store[(depth, i)] = None
            for i, a in enumerate(args):
                if i + 1 < nloc:
                    entry.store[(depth, i + 1)] = a
            # spread "rust-call" tuple for closures is handled by the callers
            pending = {0: entry}
            heap = [(idx[0], 0)]
            seen_in = {}
            seen_list = {}
            visits = {}
            ret_state = None
            total = 0
            while heap:
                _, bb = heapq.heappop(heap)
                cur = pending.pop(bb, None)
                if cur is None:
                    continue
                total += 1
                if total > max(MAX_VISITS * 4, self.unroll * 64):
                    raise AnalysisLimit("too many block visits in %s" % body.path)
                if bb in heads:
                    prev = seen_in.get(bb)
                    v = visits.get(bb, 0)
                    if prev is not None and v < self.unroll:
                        # loop unrolling: analyse this iteration on its own state (skip it only if
                        # exactly this state was analysed before)
                        lst = seen_list.setdefault(bb, [])
                        if any(states_equal(x, cur) for x in lst):
                            continue
                        lst.append(cur.copy())
                        seen_in[bb] = join_states(prev, cur)
                        visits[bb] = v + 1
                    else:
                        if prev is not None:
                            merged = join_states(prev, cur)
                            if v >= WIDEN_AFTER + self.unroll:
                                merged = self.widen_state(prev, merged, body, depth)
                            if states_equal(merged, prev):
                                continue
                            cur = merged
                        visits[bb] = v + 1
                        seen_in[bb] = cur.copy()
                if self.trace_blocks:
                    self.block_hits[(body.path, bb)] = self.block_hits.get((body.path, bb), 0) + 1
                outs = self.exec_block(body, bb, cur, depth)
                for (succ, s2) in outs:
                    if succ == "ret":
                        ret_state = join_states(ret_state, s2)
                        continue
                    if succ in pending:
                        pending[succ] = join_states(pending[succ], s2)
                    else:
                        pending[succ] = s2
                        heapq.heappush(heap, (idx[succ], succ))
            if ret_state is None:
                # no path returns: the caller's continuation is unreachable
                for i in range(nloc):
                    st.store.pop((depth, i), None)
                return BOT
            rv = ret_state.store.get((depth, 0))
            for i in range(nloc):
                ret_state.store.pop((depth, i), None)
            new_store = dict(ret_state.store)
            st.store.clear()
            st.store.update(new_store)
            return rv if rv is not None else Agg(())
        finally:
            self.stack.pop()

    def widen_state(self, old, new, body, depth):
        store = {}
        for k, v in new.store.items():
            if k in old.store and old.store[k] is not v:
                ty = None
                if isinstance(k[0], int) and k[0] == depth and k[1] < len(body.locals):
                    ty = body.locals[k[1]]["ty"]
                store[k] = D.widen(old.store[k], v, ty)
            else:
                store[k] = v
        return State(store, new.conds, new.copies, set(new.mention), new.deref, new.rel)

    def exec_block(self, body, bb, st, depth):
        blk = body.blocks[bb]
        skip_log = self.skip_log
        for s in blk["s"]:
            self.stats["stmts"] += 1
            k = s["k"]
            if k == "assign":
                rv = s["r"]
                v = self.rvalue(st, depth, rv, body, s["ln"])
                if v is BOT and rv["k"] in ("bin", "un", "cast"):
                    # e.g. division by zero only: path infeasible beyond the assert
                    pass
                place = s["p"]
                self.write_place(st, depth, place, v, body, s["ln"])
                if not place["p"]:
                    self.note_cond(st, depth, place["l"], rv)
            elif k == "setdiscr":
                # set variant of an enum place keeping payload
                cur = self.read_place(st, depth, s["p"], body, s["ln"])
                vi = s["vi"]
                if isinstance(cur, En) and vi in cur.vs:
                    nv = En({vi: cur.vs[vi]})
                else:
                    nv = En({vi: ()})
                self.write_place(st, depth, s["p"], nv, body, s["ln"])
            else:
                pass
        t = blk["t"]
        k = t["k"]
        ln = t.get("ln", 0)
        in_log = bool(set(t.get("mx", ())) & LOG_MACROS)
        self.cur = (body.path, bb)
        if k == "goto":
            return [(t["t"], st)]
        if k == "ret":
            return [("ret", st)]
        if k == "drop":
            return [(t["t"], st)]
        if k == "switch":
            dv = self.operand(st, depth, t["d"], body, ln)
            outs = []
            vals = [v for v, _ in t["vals"]]
            for v, tgt in t["vals"]:
                if is_scalar(dv) and not D.contains(dv, v):
                    continue
                s2 = st.copy()
                if self.refine_switch(s2, depth, t, v, False, None):
                    outs.append((tgt, s2))
            # otherwise edge
            feasible_else = True
            if is_scalar(dv):
                vs = D.values(dv)
                if vs is not None and all(x in vals for x in vs):
                    feasible_else = False
            if t["ty"] == "bool" and len(vals) == 2:
                feasible_else = False
            if feasible_else:
                s2 = st.copy()
                if self.refine_switch(s2, depth, t, None, True, vals):
                    outs.append((t["else"], s2))
            return outs
        if k == "call":
            f = t["f"]
            args = [self.operand(st, depth, a, body, ln) for a in t["args"]]
            if "indirect" in f:
                fv = self.operand(st, depth, f["indirect"], body, ln)
                rv = self.call_value(st, depth, fv, args, body, ln)
            else:
                rv = self.call_fn(st, depth, f, args, body, ln, in_log)
            self.cur = (body.path, bb)
            if rv is BOT or t["t"] is None:
                if t["t"] is None and not in_log:
                    pass
                return []
            self.write_place(st, depth, t["dest"], rv, body, ln)
            fdef = f.get("def") if "indirect" not in f else None
            if fdef in ("core::cmp::PartialEq::eq", "core::cmp::PartialEq::ne") and len(args) == 2 \
                    and not t["dest"]["p"] and isinstance(args[0], Ref) and isinstance(args[1], Ref):
                va = self.load(st, args[0].alloc, args[0].path)
                vb = self.load(st, args[1].alloc, args[1].path)
                for (ra, vo) in ((args[0], vb), (args[1], va)):
                    if isinstance(vo, En) and len(vo.vs) == 1 and not next(iter(vo.vs.values())) \
                            and ra.alloc[0] != "const":
                        st.conds[t["dest"]["l"]] = ("addrvar", ra.alloc, ra.path, next(iter(vo.vs)),
                                                    fdef.endswith("::eq"))
                        st.mention.add(t["dest"]["l"])
                        break
            if st.deref:
                st.conds = {k2: c for k2, c in st.conds.items() if not _cond_deref(c)}
                st.copies = {k2: c for k2, c in st.copies.items() if not (c["p"] and c["p"][0] == "*")}
                st.deref = False
            return [(t["t"], st)]
        if k == "assert":
            cv = self.operand(st, depth, t["c"], body, ln)
            exp = 1 if t["exp"] else 0
            msg = t["msg"]
            if msg["kind"] == "other" and (msg.get("dbg", "").startswith("MisalignedPointerDereference")
                                           or msg.get("dbg", "").startswith("NullPointerDereference")):
                # debug-build pointer checks on Box/reference derefs: trusted to hold
                return [(t["t"], st)]
            may_fail = not (isinstance(cv, int) and cv == exp)
            must_fail = isinstance(cv, int) and cv != exp
            info = {"kind": msg["kind"], "op": msg.get("op"), "may_fail": may_fail,
                    "must_fail": must_fail, "bb": bb}
            if msg["kind"] == "bounds":
                info["len"] = self.operand(st, depth, msg["len"], body, ln)
                info["index"] = self.operand(st, depth, msg["index"], body, ln)
            elif "a" in msg:
                info["a"] = self.operand(st, depth, msg["a"], body, ln)
                if "b" in msg:
                    info["b"] = self.operand(st, depth, msg["b"], body, ln)
            self.ev("assert", body, ln, info, in_log)
            if must_fail:
                return []
            # refine on the success edge
            c = t["c"]
            src = c.get("c") or c.get("m")
            if src is not None and not src["p"]:
                if not self.refine_bool(st, depth, src["l"], exp):
                    return []
            return [(t["t"], st)]
        if k in ("unreachable", "resume", "abort"):
            return []
        # unknown terminator: stop the path, report
        self.ev("unknown_terminator", body, ln, t.get("dbg"))
        return []


def _widening(frm, to):
    if frm in D.INT_TYPES and to in D.INT_TYPES:
        lf, hf = D.ty_range(frm)
        lt, ht = D.ty_range(to)
        return lt <= lf and hf <= ht
    return False


def _cond_mentions(c, l, deref):
    if c[0] == "cmp":
        for o in (c[2], c[3]):
            p = o.get("c") or o.get("m")
            if p is not None:
                if p["l"] == l:
                    return True
                if deref and p["p"] and p["p"][0] == "*":
                    return True
        return False
    if c[0] == "discr":
        p = c[1]
        return p["l"] == l or (deref and p["p"] and p["p"][0] == "*")
    if c[0] == "not":
        return c[1] == l
    if c[0] == "addrvar":
        return deref
    return False


def _cond_deref(c):
    if c[0] == "cmp":
        for o in (c[2], c[3]):
            p = o.get("c") or o.get("m")
            if p is not None and p["p"] and p["p"][0] == "*":
                return True
        return False
    if c[0] == "discr":
        p = c[1]
        return bool(p["p"]) and p["p"][0] == "*"
    return False


def _is_heapish(alloc):
    return isinstance(alloc[0], str)


def block_succs(t):
    k = t["k"]
    if k in ("goto", "drop"):
        return [t["t"]]
    if k == "switch":
        return [b for _, b in t["vals"]] + [t["else"]]
    if k == "call":
        return [t["t"]] if t["t"] is not None else []
    if k == "assert":
        return [t["t"]]
    return []
