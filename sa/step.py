"""Abstract evaluation of one clock edge of RawMachine (analysis A4 applied to
the clock-edge pipeline of raw/mod.rs), per control word."""
import multiprocessing
import os
import pickle

from . import absint, shapes
from . import domain as D
from .domain import Agg, En, Ref, Opaque, TOP, BOT, Arr
from .facts import AnchorMissing

RM = "L::machine::raw::RawMachine"
EDGE = RM + "::trigger_clock_edge"
STAGES = [
    ("L::machine::raw::MachineAfterWordUpdate::<'a>::read_from_memory"),
    ("L::machine::raw::MachineAfterMemoryRead::<'a>::calculate_alu_output"),
    ("L::machine::raw::MachineAfterAluCalculations::<'a>::write_to_memory"),
]
STATE = "L::machine::raw::State"
STACKSIZE = "L::parser::ast::Stacksize"

BAD_EVENTS = ("unknown_extern", "wild_write", "unknown_call_value", "recursion_or_depth",
              "unknown_terminator", "havoc")


def machine_overrides(p, word_addr=None, state="Running", wait=False, ir=None, lbr=None,
                      stacksize_notset=False, extra=None):
    ov = {}
    if word_addr is not None:
        ov["microprogram_ram.current_index"] = word_addr
    else:
        ov["microprogram_ram.current_index"] = D.norm_rng(0, 511)
    if state is not None:
        if isinstance(state, str):
            state = [state]
        ov["state"] = En({p.variant_index(STATE, s): () for s in state})
    if wait is not None:
        ov["pending_wait_for_memory"] = En({1: (Agg(()),)}) if wait else En({0: ()})
    if ir is not None:
        ov["instruction_register.content.bits"] = ir
    if lbr is not None:
        ov["last_bus_read"] = lbr
    if not stacksize_notset:
        t = p.need_type(STACKSIZE)
        ov["stacksize"] = En({vi: () for vi, v in enumerate(t["variants"]) if v["n"] != "NotSet"})
    if extra:
        ov.update(extra)
    return ov


MACHINE = "L::machine::Machine"


def new_machine(p, I, st, overrides, ty=RM):
    if ty != RM:
        overrides = {("raw." + k): v for k, v in overrides.items()}
    m = shapes.build(p, ty, shapes.top_leaf, (), overrides)
    I.heap_counter = 0
    ma = I.new_alloc(st, "machine", m)
    return ma


def run_method(p, I, path, overrides, extra_args=(), ty=RM, extra_ov=None):
    """abstractly run a `&mut self` / `&self` method of RawMachine (or Machine, ty=MACHINE)"""
    st = absint.State()
    ov = dict(overrides)
    ma = new_machine(p, I, st, ov, ty)
    if extra_ov:
        st.store[ma] = shapes.build(p, ty, shapes.top_leaf, (),
                                    dict({("raw." + k if ty != RM else k): v for k, v in overrides.items()},
                                         **extra_ov))
    I.events.clear()
    I.call_edges.clear()
    r = I.run_body(p.need_body(path), [Ref(ma, (), True)] + list(extra_args), st, 0)
    return st, ma, r


def written_fields(p, I, events=None, ty=RM):
    out = set()
    for e in (events if events is not None else I.events):
        if e.kind == "write" and e.info[0][1] == "machine":
            out.add(shapes.name_path(p, ty, e.info[1]))
    return out


def run_edge(p, I, overrides):
    st = absint.State()
    ma = new_machine(p, I, st, overrides)
    I.events.clear()
    r = I.run_body(p.need_body(EDGE), [Ref(ma, (), True)], st, 0)
    return st, ma, r


def field(p, I, st, ma, dotted, ty=RM):
    """load a field of the machine by dotted name"""
    path = []
    for name in dotted.split("."):
        base, _ = shapes.split_generic_args(ty)
        idx = p.field_index(base, name)
        path.append(idx)
        ty = p.need_type(base)["variants"][0]["fields"][idx]["ty"]
    return I.load(st, ma, tuple(path))


def _front(a):
    p = _P
    I = absint.Interp(p)
    I.unroll = 16         # small fixed loops (e.g. an address assembled bit by bit) are interpreted exactly
    ov = machine_overrides(p, a, "Running", False, Opaque("IR"), Opaque("LBR"))
    st, ma, r = run_edge(p, I, ov)
    bad = [e for e in I.events if e.kind in BAD_EVENTS]
    ir = field(p, I, st, ma, "instruction_register.content.bits")
    if isinstance(ir, Opaque) and ir.tag == "IR":
        kind = ("keep",)
    elif isinstance(ir, int):
        kind = ("reset", ir)
    elif ir is TOP or (isinstance(ir, frozenset) and len(ir) == 256):
        kind = ("load",)
    else:
        kind = ("unknown", repr(ir))
    state = field(p, I, st, ma, "state")
    res = {"ir": kind, "state": sorted(state.vs) if isinstance(state, En) else None,
           "bad": [repr(e) for e in bad[:5]]}
    res["writes"] = sorted(written_fields(p, I))
    res["iff"] = field(p, I, st, ma, "pending_edge_interrupt")
    # frame: without a pending register or flag commit, an edge at this word leaves all eight registers (the flag register
    # with its interrupt-enable bit included) exactly as they were - registers change only through the commit stage
    regs0 = Arr([Opaque("R%d" % k) for k in range(8)])
    ovf = machine_overrides(p, a, "Running", False, Opaque("IR"), Opaque("LBR"),
                            extra={"pending_register_write": En({0: ()}), "pending_flag_write": En({0: ()}),
                                   "register.content": regs0})
    stf, maf, rf = run_edge(p, I, ovf)
    regs1 = field(p, I, stf, maf, "register.content")
    res["regs_kept"] = (regs1 == regs0) and rf is not D.BOT
    res["regs_after"] = repr(regs1)[:200]
    if kind[0] != "load":
        # without a pending register commit: can this edge halt the machine?
        ov3 = machine_overrides(p, a, "Running", False, Opaque("IR"), Opaque("LBR"),
                                extra={"pending_register_write": En({0: ()})})
        st3, ma3, _ = run_edge(p, I, ov3)
        s3 = field(p, I, st3, ma3, "state")
        res["state_nocommit"] = sorted(s3.vs) if isinstance(s3, En) else None
    if kind[0] == "load":
        # which loaded bytes halt the machine?  (abstract runs with the byte class pinned;
        # the pending register commit is disabled so that only the IR-load stage can halt)
        halts = {}
        names = [v["n"] for v in p.need_type(STATE)["variants"]]
        for label, lbr in (("0x00", 0), ("0x01", 1), ("other", frozenset(range(2, 256)))):
            ov2 = machine_overrides(p, a, "Running", False, Opaque("IR"), lbr,
                                    extra={"pending_register_write": En({0: ()})})
            st2, ma2, _ = run_edge(p, I, ov2)
            s2 = field(p, I, st2, ma2, "state")
            ir2 = field(p, I, st2, ma2, "instruction_register.content.bits")
            ad2 = field(p, I, st2, ma2, "microprogram_ram.current_index")
            avs = D.values(ad2) if D.is_scalar(ad2) else None
            halts[label] = {"state": sorted(names[vi] for vi in s2.vs) if isinstance(s2, En) else None,
                            "ir": ir2 if isinstance(ir2, int) else (sorted(ir2) if isinstance(ir2, frozenset) else repr(ir2)),
                            "addr": sorted(avs) if avs is not None and len(avs) <= 512 else repr(ad2)}
        res["halts"] = halts
    return a, res


def _back(a):
    p = _P
    I = absint.Interp(p)
    ov = machine_overrides(p, a, "Running", False)
    st = absint.State()
    ma = new_machine(p, I, st, ov)
    I.events.clear()
    cur = Agg((Ref(ma, (), True),))
    for s in STAGES:
        cur = I.run_body(p.need_body(s), [cur], st, 0)
        if cur is BOT:
            break
    bad = [e for e in I.events if e.kind in BAD_EVENTS]
    wr = written_fields(p, I)
    calls = set(c for (_, c) in I.call_edges)
    waits = {}
    if "L::machine::bus::Bus::read" in calls or "L::machine::bus::Bus::write" in calls:
        # (the data byte is independent of the address: the ALU output ranges over all bytes in both cells, so a wait
        # decided by the byte written instead of the address written to makes a cell inhomogeneous)
        I.fn_overrides["L::machine::alu::AluOutput::output"] = lambda I_, st_, depth, callee, args, b_, ln: D.norm_rng(0, 255)
        for label, cell in (("ram", D.norm_rng(0, 0xEF)), ("io", D.norm_rng(0xF0, 0xFF))):
            ov2 = machine_overrides(p, a, "Running", False, extra={"register.content": Arr([cell] * 8)})
            st2 = absint.State()
            ma2 = new_machine(p, I, st2, ov2)
            cur2 = Agg((Ref(ma2, (), True),))
            for s in STAGES:
                cur2 = I.run_body(p.need_body(s), [cur2], st2, 0)
                if cur2 is BOT:
                    break
            w2 = field(p, I, st2, ma2, "pending_wait_for_memory")
            waits[label] = sorted(w2.vs) if isinstance(w2, En) else None
        I.fn_overrides.pop("L::machine::alu::AluOutput::output", None)
    return a, {"writes": sorted(wr), "bad": [repr(e) for e in bad[:5]], "waits": waits,
               "bus_read": "L::machine::bus::Bus::read" in calls,
               "bus_write": "L::machine::bus::Bus::write" in calls,
               "prw": field(p, I, st, ma, "pending_register_write"),
               "pfw": field(p, I, st, ma, "pending_flag_write"),
               "wait": field(p, I, st, ma, "pending_wait_for_memory")}


_P = None


def per_word(p, prog_words, cache_dir=None):
    """front-half (IR update) and back-half (data path) summaries per programmed word"""
    global _P
    if cache_dir:
        from .facts import code_hash
        f = os.path.join(cache_dir, "step_tables.%s.pickle" % code_hash())
        if os.path.exists(f):
            with open(f, "rb") as fh:
                return pickle.load(fh)
    _P = p
    for s in STAGES + [EDGE]:
        p.need_body(s)
    front = {}
    back = {}
    with multiprocessing.get_context("fork").Pool(min(16, os.cpu_count() or 4)) as pool:
        for a, r in pool.imap_unordered(_front, prog_words, chunksize=4):
            front[a] = r
        for a, r in pool.imap_unordered(_back, prog_words, chunksize=4):
            back[a] = r
    res = {"front": front, "back": back}
    if cache_dir:
        from .facts import code_unchanged
    if cache_dir and code_unchanged():
        tmp = f + ".tmp%d" % os.getpid()
        with open(tmp, "wb") as fh:
            pickle.dump(res, fh)
        os.replace(tmp, f)
    return res
