"""Reconstruction of nom parser-combinator expressions from MIR (C17).

The command parser of the TUI (tui/input/parser.rs) is written with nom
combinators: each parser function builds a combinator value by straight-line
calls (`tag_no_case("set")`, `tuple((..))`, `alt((..))`, `map(p, closure)`, ...)
and finally applies it to its input.  This module evaluates that construction
symbolically - no parser is run - and yields the combinator tree, which is then
expanded into the ordered list of token-sequence alternatives the parser
accepts, each with the value it builds (closures are evaluated symbolically as
well).  Unknown constructs fail closed (AnchorMissing).
"""
from .facts import AnchorMissing
from . import mirutil


class Node:
    __slots__ = ("kind", "kids", "arg", "where")

    def __init__(self, kind, kids=(), arg=None, where=None):
        self.kind = kind
        self.kids = list(kids)
        self.arg = arg
        self.where = where

    def __repr__(self):
        if self.kind in ("lit", "is_a"):
            return "%s(%r)" % (self.kind, self.arg)
        if not self.kids:
            return self.kind if self.arg is None else "%s[%s]" % (self.kind, self.arg)
        return "%s(%s%s)" % (self.kind, "" if self.arg is None else "%s; " % (self.arg,), ", ".join(map(repr, self.kids)))


LEAF_FNS = {
    "nom::character::complete::digit1": "digit1",
    "nom::character::complete::hex_digit1": "hex_digit1",
    "nom::number::complete::float": "float",
    "nom::number::complete::double": "double",
    "nom::combinator::rest": "rest",
    "nom::character::complete::space0": "space0",
    "nom::character::complete::space1": "space1",
    "nom::combinator::eof": "eof",
}


class Builder:
    def __init__(self, p):
        self.p = p
        self.cache = {}
        self.stack = []
        self.nocase_tags = []       # (keyword, where) matched with nom's tag_no_case (character pairing + byte length)
        self.exact_keywords = []    # (keyword, where) matched by verify(take(n), |s| s.eq_ignore_ascii_case(keyword))

    # ---- operands -------------------------------------------------------------------------
    def operand(self, env, o, body):
        if "k" in o:
            k = o["k"]
            if "str" in k:
                return ("str", k["str"])
            if "fn" in k:
                return self.fn_ref(k["fn"]["def"] if isinstance(k["fn"], dict) else k["fn"])
            if "v" in k:
                return ("int", k["v"], k.get("ty"))
            if "agg" in k or "adt" in k:
                return ("constadt", repr(k))
            return ("const", repr(k)[:80])
        pl = o.get("m") or o.get("c")
        v = env.get(pl["l"])
        for pr in pl["p"]:
            if pr == "*":
                continue
            if isinstance(pr, dict) and "f" in pr and isinstance(v, tuple) and v and v[0] == "tuple":
                v = v[1][pr["f"]]
            else:
                raise AnchorMissing("nom reconstruction: projection %r in %s" % (pr, body.path))
        if v is None:
            raise AnchorMissing("nom reconstruction: unset local _%d in %s" % (pl["l"], body.path))
        return v

    def fn_ref(self, d):
        if d in LEAF_FNS:
            return Node(LEAF_FNS[d])
        if d in self.p.bodies:
            return Node("ref", arg=d)
        raise AnchorMissing("nom reconstruction: unknown parser function %s" % d)

    def as_node(self, v, body):
        if isinstance(v, Node):
            return v
        raise AnchorMissing("nom reconstruction: expected a parser, got %r in %s" % (v, body.path))

    def kids_of(self, v, body):
        if isinstance(v, tuple) and v and v[0] == "tuple":
            return [self.as_node(x, body) for x in v[1]]
        raise AnchorMissing("nom reconstruction: expected a tuple of parsers in %s" % body.path)

    # ---- one parser function --------------------------------------------------------------
    def build(self, fn):
        if fn in self.cache:
            return self.cache[fn]
        if fn in self.stack:
            raise AnchorMissing("nom reconstruction: recursive parser %s" % fn)
        self.stack.append(fn)
        body = self.p.need_body(fn)
        env = {}
        bb = 0
        root = None
        steps = 0
        while True:
            steps += 1
            if steps > 500:
                raise AnchorMissing("nom reconstruction: no straight-line construction in %s" % fn)
            blk = body.blocks[bb]
            for s in blk["s"]:
                if s["k"] != "assign":
                    continue
                if s["p"]["p"]:
                    raise AnchorMissing("nom reconstruction: projected assignment in %s" % fn)
                env[s["p"]["l"]] = self.rvalue(env, s["r"], body)
            t = blk["t"]
            if t["k"] == "goto":
                bb = t["t"]
                continue
            if t["k"] == "drop":
                bb = t["t"]
                continue
            if t["k"] == "ret":
                break
            if t["k"] != "call":
                raise AnchorMissing("nom reconstruction: terminator %s in %s" % (t["k"], fn))
            d = t["f"].get("def")
            args = [self.operand(env, a, body) for a in t["args"]]
            if d in ("core::ops::function::Fn::call", "core::ops::function::FnMut::call_mut", "core::ops::function::FnOnce::call_once"):
                root = self.as_node(args[0], body)
                break
            if d in self.p.bodies and d.startswith("B::tui::input::parser::") and t["dest"]["l"] == 0:
                # tail call of another parser function with the input
                root = Node("ref", arg=d)
                break
            env[t["dest"]["l"]] = self.call(d, t["f"], args, body, t.get("ln"))
            bb = t["t"]
        if root is None:
            raise AnchorMissing("nom reconstruction: %s does not apply a combinator to its input" % fn)
        self.stack.pop()
        root = self.resolve(root)
        self.cache[fn] = root
        return root

    def ascii_nocase_predicate(self, fnv, body):
        """fnv is the closure |s| s.eq_ignore_ascii_case(W) with a captured literal W: return W, else None.  Decided on the
        closure's MIR: its result is the result of one call of str::eq_ignore_ascii_case on (argument, captured word)."""
        if not (isinstance(fnv, tuple) and fnv[0] == "closure"):
            return None
        cb = self.p.bodies.get(fnv[1])
        caps = fnv[2] if len(fnv) > 2 else []
        if cb is None:
            return None
        env = {}
        bb = 0
        result_of = None
        for _ in range(50):
            blk = cb.blocks[bb]
            for s_ in blk["s"]:
                if s_["k"] != "assign" or s_["p"]["p"]:
                    continue
                r = s_["r"]
                if r["k"] in ("use", "cast"):
                    o = r["o"]
                    if "k" in o:
                        env[s_["p"]["l"]] = ("const",)
                        continue
                    pl = o.get("m") or o.get("c")
                    v = env.get(pl["l"], ("arg", pl["l"]) if pl["l"] in (1, 2) else None)
                    for pr in pl["p"]:
                        if pr == "*":
                            continue
                        if isinstance(pr, dict) and "f" in pr and v == ("arg", 1):
                            v = ("cap", pr["f"])
                        else:
                            v = None
                    env[s_["p"]["l"]] = v
                elif r["k"] == "ref":
                    pl = r["p"]
                    v = env.get(pl["l"], ("arg", pl["l"]) if pl["l"] in (1, 2) else None)
                    for pr in pl["p"]:
                        if pr == "*":
                            continue
                        if isinstance(pr, dict) and "f" in pr and v == ("arg", 1):
                            v = ("cap", pr["f"])
                        else:
                            v = None
                    env[s_["p"]["l"]] = v
                else:
                    env[s_["p"]["l"]] = None
            t = blk["t"]
            if t["k"] in ("goto", "drop"):
                bb = t["t"]
                continue
            if t["k"] == "ret":
                break
            if t["k"] != "call":
                return None
            d = t["f"].get("def")
            if d != "core::str::<impl str>::eq_ignore_ascii_case" or result_of is not None:
                return None
            a = []
            for o in t["args"]:
                pl = o.get("m") or o.get("c")
                if pl is None:
                    return None
                v = env.get(pl["l"], ("arg", pl["l"]) if pl["l"] in (1, 2) else None)
                for pr in pl["p"]:
                    if pr == "*":
                        continue
                    if isinstance(pr, dict) and "f" in pr and v == ("arg", 1):
                        v = ("cap", pr["f"])
                    else:
                        v = None
                a.append(v)
            if t["dest"]["l"] != 0 or t["dest"]["p"]:
                return None
            result_of = a
            bb = t["t"]
        if not result_of or len(result_of) != 2:
            return None
        kinds = sorted(x[0] if x else "?" for x in result_of)
        if kinds != ["arg", "cap"]:
            return None
        cap = [x for x in result_of if x[0] == "cap"][0][1]
        if ("arg", 2) not in result_of or cap >= len(caps):
            return None
        cv = caps[cap]
        return cv[1] if isinstance(cv, tuple) and cv[0] == "str" else None

    def factory(self, fn, args):
        """evaluate a local combinator-building function on constant arguments"""
        if fn in self.stack:
            raise AnchorMissing("nom reconstruction: recursive factory %s" % fn)
        self.stack.append(fn)
        body = self.p.need_body(fn)
        env = {i + 1: a for i, a in enumerate(args)}
        bb = 0
        for _ in range(200):
            blk = body.blocks[bb]
            for s_ in blk["s"]:
                if s_["k"] != "assign":
                    continue
                if s_["p"]["p"]:
                    raise AnchorMissing("nom reconstruction: projected assignment in %s" % fn)
                env[s_["p"]["l"]] = self.rvalue(env, s_["r"], body)
            t = blk["t"]
            if t["k"] in ("goto", "drop"):
                bb = t["t"]
                continue
            if t["k"] == "ret":
                self.stack.pop()
                return self.as_node(env.get(0), body)
            if t["k"] != "call":
                raise AnchorMissing("nom reconstruction: terminator %s in factory %s" % (t["k"], fn))
            d = t["f"].get("def")
            cargs = [self.operand(env, a, body) for a in t["args"]]
            env[t["dest"]["l"]] = self.call(d, t["f"], cargs, body, t.get("ln"))
            bb = t["t"]
        raise AnchorMissing("nom reconstruction: factory %s too long" % fn)

    def resolve(self, n):
        if n.kind == "ref":
            return Node("rule", [self.build(n.arg)], arg=n.arg)
        n.kids = [self.resolve(k) for k in n.kids]
        return n

    def rvalue(self, env, r, body):
        k = r["k"]
        if k == "use":
            return self.operand(env, r["o"], body)
        if k == "ref":
            pl = r["p"]
            v = env.get(pl["l"])
            if v is None and pl["l"] == 1:
                return ("input",)
            return v if v is not None else ("ref?",)
        if k == "agg":
            if r["ak"] == "tuple":
                return ("tuple", [self.operand(env, f, body) for f in r["fields"]])
            if r["ak"] == "closure":
                return ("closure", r["name"], [self.operand(env, f, body) for f in r["fields"]])
            if r["ak"] == "adt":
                return ("adt", r["variant"], [self.operand(env, f, body) for f in r["fields"]], r["name"])
        if k == "cast":
            return self.operand(env, r["o"], body)
        raise AnchorMissing("nom reconstruction: rvalue %s in %s" % (k, body.path))

    def call(self, d, f, args, body, ln):
        w = "%s:%s" % (body.path.rsplit("::", 1)[-1], ln)
        if d in ("nom::bytes::complete::tag", "nom::bytes::complete::tag_no_case",
                 "nom::bytes::streaming::tag", "nom::bytes::streaming::tag_no_case"):
            if not (args and args[0][0] == "str"):
                raise AnchorMissing("tag with a non-literal argument in %s" % body.path)
            if d.endswith("no_case"):
                self.nocase_tags.append((args[0][1], w))
            return Node("lit", arg=(args[0][1], d.endswith("no_case")), where=w)
        if d == "core::str::<impl str>::len" and args and args[0][0] == "str":
            return ("int", len(args[0][1].encode("utf-8")), "usize")
        if d in ("nom::bytes::complete::take", "nom::bytes::streaming::take"):
            if not (args and args[0][0] == "int"):
                raise AnchorMissing("take with a non-constant count in %s" % body.path)
            return Node("take", arg=args[0][1], where=w)
        if d == "nom::combinator::verify":
            inner = self.as_node(args[0], body)
            word = self.ascii_nocase_predicate(args[1], body)
            if inner.kind == "take" and word is not None and word.isascii() and inner.arg == len(word):
                # exactly `inner.arg` characters that equal the keyword up to ASCII case: the case variants of the keyword
                self.exact_keywords.append((word, w))
                return Node("lit", arg=(word, True), where=w)
            raise AnchorMissing("nom reconstruction: verify(%r, ..) is not a recognised keyword matcher in %s" % (inner, body.path))
        if d in self.p.bodies and d.startswith("B::tui::input::parser::"):
            # a local function that builds a combinator from constants (not applied to the input here)
            return self.factory(d, args)
        if d == "nom::bytes::complete::is_a":
            return Node("is_a", arg=args[0][1], where=w)
        if d in LEAF_FNS:
            return Node(LEAF_FNS[d], where=w)
        if d == "nom::sequence::tuple":
            return Node("tuple", self.kids_of(args[0], body), where=w)
        if d == "nom::branch::alt":
            return Node("alt", self.kids_of(args[0], body), where=w)
        if d in ("nom::sequence::preceded", "nom::sequence::terminated", "nom::sequence::delimited", "nom::sequence::pair",
                 "nom::sequence::separated_pair"):
            return Node(d.rsplit("::", 1)[-1], [self.as_node(a, body) for a in args], where=w)
        if d in ("nom::combinator::opt", "nom::combinator::complete", "nom::combinator::all_consuming", "nom::combinator::cut",
                 "nom::combinator::recognize"):
            return Node(d.rsplit("::", 1)[-1], [self.as_node(args[0], body)], where=w)
        if d == "nom::combinator::value":
            return Node("value", [self.as_node(args[1], body)], arg=args[0], where=w)
        if d in ("nom::combinator::map", "nom::combinator::map_res", "nom::combinator::map_opt"):
            fn_ = args[1]
            if not (isinstance(fn_, tuple) and fn_[0] == "closure"):
                raise AnchorMissing("%s with a non-closure function in %s" % (d, body.path))
            return Node(d.rsplit("::", 1)[-1], [self.as_node(args[0], body)], arg=fn_[1], where=w)
        raise AnchorMissing("nom reconstruction: unknown combinator %s in %s" % (d, body.path))


# ---------------------------------------------------------------------------------------------
# symbolic evaluation of closures (value builders)

def eval_closure(p, path, argval):
    """value expression a map/map_res closure builds from its argument value-expression"""
    body = p.need_body(path)
    env = {2: argval}
    bb = 0
    steps = 0
    flags = []

    def operand(o):
        if "k" in o:
            k = o["k"]
            if "v" in k:
                return ("const", k["v"])
            if "str" in k:
                return ("const", k["str"])
            return ("const", repr(k)[:60])
        pl = o.get("m") or o.get("c")
        v = env.get(pl["l"])
        for pr in pl["p"]:
            if pr == "*":
                continue
            if isinstance(pr, dict) and "f" in pr and isinstance(v, tuple) and v[0] == "tuple":
                v = v[1][pr["f"]]
            elif isinstance(pr, dict) and "f" in pr and isinstance(v, tuple) and v[0] == "some" and pr["f"] == 0:
                v = v[1]
            else:
                flags.append("projection %r" % (pr,))
                v = ("unknown",)
        if v is None:
            v = ("unknown",)
        return v

    while True:
        steps += 1
        if steps > 200:
            raise AnchorMissing("closure %s too complex" % path)
        blk = body.blocks[bb]
        for s in blk["s"]:
            if s["k"] != "assign" or s["p"]["p"]:
                continue
            r = s["r"]
            k = r["k"]
            if k == "use":
                v = operand(r["o"])
            elif k == "ref":
                v = operand({"c": r["p"]})
            elif k == "agg" and r["ak"] == "adt":
                v = ("adt", r["variant"], [operand(f) for f in r["fields"]])
            elif k == "agg" and r["ak"] == "tuple":
                v = ("tuple", [operand(f) for f in r["fields"]])
            elif k == "cast":
                v = ("cast", r.get("ck"), r.get("ty"), operand(r["o"]))
                flags.append("cast")
            else:
                v = ("unknown", k)
                flags.append("rvalue %s" % k)
            env[s["p"]["l"]] = v
        t = blk["t"]
        if t["k"] in ("goto", "drop"):
            bb = t["t"]
            continue
        if t["k"] == "ret":
            break
        if t["k"] != "call":
            raise AnchorMissing("closure %s: terminator %s" % (path, t["k"]))
        d = t["f"].get("def")
        args = [operand(a) for a in t["args"]]
        ga = [g for g in t["f"].get("ga", []) if not g.startswith("'")]
        if d.endswith("::from_str_radix"):
            ty = d.split("<impl ")[1].split(">")[0]
            v = ("conv", "%s::from_str_radix(%s)" % (ty, args[1][1] if args[1][0] == "const" else "?"), args[0])
        elif d == "core::str::<impl str>::parse":
            v = ("conv", "parse::<%s>" % (ga[0] if ga else "?"), args[0])
        elif d == "core::option::Option::<T>::unwrap_or":
            v = ("unwrap_or", args[0], args[1])
        else:
            v = ("call", d, args)
            flags.append("call %s" % d)
        env[t["dest"]["l"]] = v
        bb = t["t"]
    return env.get(0, ("unknown",)), flags


# ---------------------------------------------------------------------------------------------
# expansion into ordered token-sequence alternatives

def tok(n):
    if n.kind == "lit":
        return ("lit", n.arg[0], n.arg[1])
    if n.kind == "is_a":
        return ("class", "".join(sorted(set(n.arg))), 1)
    return {"digit1": ("class", "0123456789", 1),
            "hex_digit1": ("class", "0123456789ABCDEFabcdef", 1),
            "float": ("float",), "double": ("double",), "rest": ("rest",), "eof": ("eof",),
            "space0": ("class", "\t ", 0), "space1": ("class", "\t ", 1)}[n.kind]


def expand(p, n, limit=4000):
    """-> ordered list of (tokens, value) alternatives.  tokens: list of token tuples; an optional
    group is expanded into 'present' and 'absent'.  value: value expression over ('tok', token)"""
    k = n.kind
    if k in ("lit", "is_a", "digit1", "hex_digit1", "float", "double", "rest", "eof", "space0", "space1"):
        t = tok(n)
        return [([t], ("tok", t))]
    if k == "rule":
        return expand(p, n.kids[0], limit)
    if k in ("complete", "all_consuming", "cut"):
        return expand(p, n.kids[0], limit)
    if k == "recognize":
        return [(ts, ("text",)) for ts, _ in expand(p, n.kids[0], limit)]
    if k == "alt":
        out = []
        for c in n.kids:
            out.extend(expand(p, c, limit))
        return out
    if k == "opt":
        inner = expand(p, n.kids[0], limit)
        return [(ts, ("some", v)) for ts, v in inner] + [([], ("none",))]
    if k in ("tuple", "preceded", "terminated", "delimited", "pair", "separated_pair"):
        acc = [([], [])]
        for c in n.kids:
            ce = expand(p, c, limit)
            acc = [(ts + cts, vs + [cv]) for ts, vs in acc for cts, cv in ce]
            if len(acc) > limit:
                raise AnchorMissing("command grammar expands to too many alternatives")
        pick = {"tuple": None, "pair": None, "preceded": 1, "terminated": 0, "delimited": 1}
        if k == "separated_pair":
            return [(ts, ("tuple", [vs[0], vs[2]])) for ts, vs in acc]
        if pick[k] is None:
            return [(ts, ("tuple", vs)) for ts, vs in acc]
        return [(ts, vs[pick[k]]) for ts, vs in acc]
    if k == "value":
        return [(ts, n.arg) for ts, _ in expand(p, n.kids[0], limit)]
    if k in ("map", "map_res", "map_opt"):
        out = []
        for ts, v in expand(p, n.kids[0], limit):
            r, flags = eval_closure(p, n.arg, v)
            if flags:
                r = ("flagged", tuple(flags), r)
            out.append((ts, (k, r) if k != "map" else r))
        return out
    raise AnchorMissing("nom expansion: node %s" % k)


def show_value(v):
    if not isinstance(v, tuple):
        return repr(v)
    h = v[0]
    if h == "tok":
        t = v[1]
        if t[0] in ("float", "double", "rest", "eof"):
            return "$" + t[0].upper()
        if t[0] == "lit":
            return "$LIT"
        return {"0123456789": "$DEC", "0123456789ABCDEFabcdef": "$HEX", "01": "$BIN"}.get(t[1], "$TEXT")
    if h == "adt":
        return v[1] + ("(%s)" % ", ".join(show_value(x) for x in v[2]) if v[2] else "")
    if h == "conv":
        return "%s[%s]" % (v[1], show_value(v[2]))
    if h in ("map_res", "map_opt"):
        return show_value(v[1])
    if h == "const":
        return repr(v[1]) if not isinstance(v[1], bool) else str(v[1]).lower()
    if h == "int":
        return str(v[1])
    if h == "none":
        return "None"
    if h == "some":
        return "Some(%s)" % show_value(v[1])
    if h == "unwrap_or":
        return "unwrap_or(%s, %s)" % (show_value(v[1]), show_value(v[2]))
    if h == "tuple":
        return "(%s)" % ", ".join(show_value(x) for x in v[1])
    if h == "flagged":
        return "FLAGGED%s:%s" % (list(v[1]), show_value(v[2]))
    if h == "cast":
        return "cast(%s as %s)" % (show_value(v[3]), v[2])
    return repr(v)


def show_tokens(ts):
    out = []
    for t in ts:
        if t[0] == "lit":
            out.append(("%s" if t[2] else "=%s") % (t[1].lower() if t[2] else t[1]))
        elif t[0] == "class":
            nm = {"\t ": "WS", "0123456789": "DEC", "0123456789ABCDEFabcdef": "HEX", "01": "BIN"}.get(t[1], "[%s]" % t[1])
            out.append(nm + ("" if t[2] else "*"))
        else:
            out.append(t[0].upper())
    return " ".join(out)


# ---------------------------------------------------------------------------------------------
# ordered-choice shadowing, decided on finite automata over a finite alphabet of representatives

FLOAT_RE = ("seq", [("opt", ("set", "+-")),
                    ("alt", [("seq", [("plus", ("set", "0123456789")), ("opt", ("seq", [("set", "."), ("star", ("set", "0123456789"))]))]),
                             ("seq", [("set", "."), ("plus", ("set", "0123456789"))]),
                             ("seq", [("set", "iI"), ("set", "nN"), ("set", "fF")]),
                             ("seq", [("set", "nN"), ("set", "aA"), ("set", "nN")])]),
                    ("opt", ("seq", [("set", "eE"), ("opt", ("set", "+-")), ("plus", ("set", "0123456789"))]))])


def tok_re(t):
    if t[0] == "lit":
        return ("seq", [("set", (c.lower() + c.upper()) if t[2] else c) for c in t[1]])
    if t[0] == "class":
        return ("plus", ("set", t[1])) if t[2] else ("star", ("set", t[1]))
    if t[0] in ("float", "double"):
        return FLOAT_RE
    if t[0] == "rest":
        return ("star", ("any",))
    if t[0] == "eof":
        return ("seq", [])
    raise AnchorMissing("token %r" % (t,))


class NFA:
    def __init__(self):
        self.n = 0
        self.eps = {}
        self.tr = {}

    def new(self):
        self.n += 1
        return self.n - 1

    def build(self, r, a):
        """add fragment for r starting at state a; returns end state"""
        k = r[0]
        if k == "set" or k == "any":
            b = self.new()
            self.tr.setdefault(a, []).append((None if k == "any" else frozenset(r[1]), b))
            return b
        if k == "seq":
            for x in r[1]:
                a = self.build(x, a)
            return a
        if k == "alt":
            e = self.new()
            for x in r[1]:
                s0 = self.new()
                self.eps.setdefault(a, []).append(s0)
                self.eps.setdefault(self.build(x, s0), []).append(e)
            return e
        if k in ("star", "plus", "opt"):
            s0 = self.new()
            e = self.new()
            self.eps.setdefault(a, []).append(s0)
            b = self.build(r[1], s0)
            self.eps.setdefault(b, []).append(e)
            if k != "plus":
                self.eps.setdefault(a, []).append(e)
            if k != "opt":
                self.eps.setdefault(b, []).append(s0)
            return e
        raise AnchorMissing("regex node %r" % (k,))

    def closure(self, S):
        out = set(S)
        st = list(S)
        while st:
            x = st.pop()
            for y in self.eps.get(x, ()):
                if y not in out:
                    out.add(y)
                    st.append(y)
        return frozenset(out)

    def step(self, S, c):
        out = set()
        for x in S:
            for cs, y in self.tr.get(x, ()):
                if cs is None or c in cs:
                    out.add(y)
        return self.closure(out)


def shadows(A, B, alphabet):
    """is there a text that the later sequence B matches entirely and of which the earlier
    sequence A matches a prefix?  (then B is unreachable for it under ordered choice)"""
    na, nb = NFA(), NFA()
    a0, b0 = na.new(), nb.new()
    ae = na.build(("seq", [tok_re(t) for t in A]), a0)
    be = nb.build(("seq", [tok_re(t) for t in B]), b0)
    # once A has matched a prefix it stays satisfied: model by a flag
    start = (na.closure({a0}), nb.closure({b0}), False)
    seen = {start}
    work = [start]
    while work:
        SA, SB, done = work.pop()
        done = done or ae in SA
        if done and be in SB:
            return True
        for c in alphabet:
            SB2 = nb.step(SB, c)
            if not SB2:
                continue
            SA2 = SA if done else na.step(SA, c)
            if not done and not SA2:
                continue
            nxt = (frozenset() if done else SA2, SB2, done)
            if nxt not in seen:
                seen.add(nxt)
                work.append(nxt)
    return False


def alphabet_of(seqs):
    cs = set("az09 \t=.+-eExXbB\u00e9")
    for ts in seqs:
        for t in ts:
            if t[0] == "lit":
                cs |= set(t[1].lower()) | set(t[1].upper())
            elif t[0] == "class":
                cs |= set(t[1])
    return sorted(cs)


def quick_disjoint(A, B):
    """cheap sufficient test that no text can start both sequences: the first literals differ"""
    i = j = 0
    while i < len(A) and j < len(B):
        a, b = A[i], B[j]
        if a[0] == "class" and a[1] == "\t ":
            if b[0] == "class" and b[1] == "\t ":
                i += 1
                j += 1
                continue
            if b[0] == "lit" and b[1][0] not in "\t ":
                if a[2]:
                    return True      # A needs blanks here, B continues with a keyword
                i += 1
                continue
            return False
        if b[0] == "class" and b[1] == "\t ":
            if a[0] == "lit" and a[1][0] not in "\t ":
                if b[2]:
                    return True
                j += 1
                continue
            return False
        if a[0] == "lit" and b[0] == "lit":
            x, y = a[1].lower(), b[1].lower()
            if x == y:
                i += 1
                j += 1
                continue
            if not (x.startswith(y) or y.startswith(x)):
                return True
            return False
        return False
    return False
