"""Abstract AST values of the assembler (parser::ast) and helpers to run the
translator on them (used by C02 / C06 / C16).

Operand shapes are enumerated exhaustively from the ADT facts (every variant
of Source / Destination / MemAddress / Constant / Register ...); numeric
payloads are unknown (the whole u8 / u16 range), labels are opaque names."""
import itertools

from . import absint
from . import domain as D
from .domain import Agg, En, Ref, Arr, ArrS, Str, Opaque, TOP, BOT
from .facts import AnchorMissing

AST = "L::parser::ast::"
TR = "L::compiler::Translator"
U8 = D.top_of_int("u8")
U16 = D.top_of_int("u16")


class Shape:
    """an abstract operand / instruction value together with a readable description
    and the attributes the reference encoding needs"""
    __slots__ = ("value", "desc", "attr")

    def __init__(self, value, desc, attr=None):
        self.value = value
        self.desc = desc
        self.attr = attr or {}

    def __repr__(self):
        return self.desc


class AsmModel:
    def __init__(self, p):
        self.p = p
        self.t = {}
        for n in ("Instruction", "Source", "Destination", "MemAddress", "Constant", "Register", "RegisterDi",
                  "RegisterDdi", "Stacksize", "Programsize", "Line"):
            self.t[n] = p.need_type(AST + n)
        self.vi = {n: {v["n"]: i for i, v in enumerate(t["variants"])} for n, t in self.t.items()}

    def variants(self, ty):
        return self.t[ty]["variants"]

    # ---- operand shapes -----------------------------------------------------
    def registers(self):
        return [Shape(En({i: ()}), v["n"], {"reg": i}) for i, v in enumerate(self.variants("Register"))]

    def constants(self, label_name="LBL"):
        vi = self.vi["Constant"]
        return [Shape(En({vi["Constant"]: (U8,)}), "const", {"const": "byte"}),
                Shape(En({vi["Label"]: (Opaque(label_name),)}), "label", {"const": "label", "label": label_name})]

    def memaddrs(self, regs=None, label_name="LBL"):
        vi = self.vi["MemAddress"]
        out = []
        for c in self.constants(label_name):
            out.append(Shape(En({vi["Constant"]: (c.value,)}), "(%s)" % c.desc, dict(c.attr, kind="mem_const")))
        for r in (regs or self.registers()):
            out.append(Shape(En({vi["Register"]: (r.value,)}), "(%s)" % r.desc, {"kind": "mem_reg", "reg": r.attr["reg"]}))
        return out

    def sources(self, regs=None, label_name="SRCLBL"):
        vi = self.vi["Source"]
        regs = regs or self.registers()
        out = []
        for r in regs:
            out.append(Shape(En({vi["Register"]: (r.value,)}), r.desc, {"kind": "reg", "reg": r.attr["reg"]}))
        for m in self.memaddrs(regs, label_name):
            out.append(Shape(En({vi["MemAddress"]: (m.value,)}), m.desc, m.attr))
        for c in self.constants(label_name):
            out.append(Shape(En({vi["Constant"]: (c.value,)}), c.desc, dict(c.attr, kind="const")))
        for r in regs:
            out.append(Shape(En({vi["RegisterDi"]: (Agg((r.value,)),)}), "(%s+)" % r.desc, {"kind": "di", "reg": r.attr["reg"]}))
        for r in regs:
            out.append(Shape(En({vi["RegisterDdi"]: (Agg((r.value,)),)}), "((%s+))" % r.desc, {"kind": "ddi", "reg": r.attr["reg"]}))
        return out

    def destinations(self, regs=None, label_name="DSTLBL"):
        vi = self.vi["Destination"]
        regs = regs or self.registers()
        out = []
        for r in regs:
            out.append(Shape(En({vi["Register"]: (r.value,)}), r.desc, {"kind": "reg", "reg": r.attr["reg"]}))
        for m in self.memaddrs(regs, label_name):
            out.append(Shape(En({vi["MemAddress"]: (m.value,)}), m.desc, m.attr))
        for r in regs:
            out.append(Shape(En({vi["RegisterDi"]: (Agg((r.value,)),)}), "(%s+)" % r.desc, {"kind": "di", "reg": r.attr["reg"]}))
        for r in regs:
            out.append(Shape(En({vi["RegisterDdi"]: (Agg((r.value,)),)}), "((%s+))" % r.desc, {"kind": "ddi", "reg": r.attr["reg"]}))
        return out

    def field_shapes(self, fty, pos):
        """shapes for one field of an Instruction variant, by field type"""
        if fty == AST + "Register":
            return self.registers()
        if fty == AST + "Source":
            return self.sources()
        if fty == AST + "Destination":
            return self.destinations()
        if fty == AST + "MemAddress":
            return self.memaddrs(label_name="MEMLBL")
        if fty == AST + "Constant":
            return self.constants("CONSTLBL")
        if fty == "alloc::string::String":
            return [Shape(Opaque("LBL%d" % pos), "label", {"label": "LBL%d" % pos})]
        if fty == "u8":
            return [Shape(U8, "u8", {})]
        if fty == "alloc::vec::Vec<u8>":
            return [Shape(Arr([U8] * n), "[%d bytes]" % n, {"n": n}) for n in (1, 2, 3, 40)]
        if fty == "alloc::vec::Vec<u16>":
            return [Shape(Arr([U16] * n), "[%d words]" % n, {"n": n}) for n in (1, 2, 3, 40)]
        if fty == AST + "Stacksize":
            return [Shape(En({i: ()}), v["n"], {"ss": v["n"]}) for i, v in enumerate(self.variants("Stacksize"))]
        if fty == AST + "Programsize":
            vi = self.vi["Programsize"]
            return [Shape(En({vi["Size"]: (U8,)}), "Size(n)", {}), Shape(En({vi["Auto"]: ()}), "Auto", {}),
                    Shape(En({vi["NotSet"]: ()}), "NotSet", {})]
        raise AnchorMissing("operand type %s of an Instruction variant" % fty)

    def instructions(self):
        """every Instruction variant x every operand shape: yields (variant name, [Shape...], value)"""
        for vi, v in enumerate(self.variants("Instruction")):
            lists = [self.field_shapes(f["ty"], k) for k, f in enumerate(v["fields"])]
            for combo in itertools.product(*lists):
                yield v["n"], list(combo), En({vi: tuple(s.value for s in combo)})

    # ---- translator ----------------------------------------------------------
    def new_translator(self, next_addr=U8, labels_known=True):
        names = self.p.field_names(TR)
        ss = En({i: () for i in range(len(self.variants("Stacksize")))})
        vals = {"next_addr": next_addr,
                "known_labels": Agg((Str("<hashmap>"), BOT, BOT)),
                "bytes": Arr(()),
                "stacksize": ss, "programsize": TOP}
        # fields this model does not know: an empty map for maps, unknown otherwise
        ftys = {f["n"]: f["ty"] for f in self.p.need_type(TR)["variants"][0]["fields"]}
        out = []
        for f in names:
            if f in vals:
                out.append(vals[f])
            elif "HashMap<" in ftys.get(f, ""):
                out.append(Agg((Str("<hashmap>"), BOT, BOT)))
            else:
                out.append(TOP)
        return Agg(out)

    def push_instruction(self, I, inst_value, next_addr=U8):
        st = absint.State()
        I.heap_counter = 0
        ta = I.new_alloc(st, "tr", self.new_translator(next_addr))
        ia = I.new_alloc(st, "inst", inst_value)
        ca = I.new_alloc(st, "comment", En({0: ()}))
        I.events.clear()
        r = I.run_body(self.p.need_body(TR + "::push_instruction"), [Ref(ta, (), True), Ref(ia), Ref(ca)], st, 0)
        tr = st.store[ta]
        names = self.p.field_names(TR)
        return {"ret": r, "tr": {n: tr.f[i] for i, n in enumerate(names)} if isinstance(tr, Agg) else None, "state": st}
