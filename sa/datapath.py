"""Data-path provenance of one clock edge (A4 applied to the back half of the
clock-edge pipeline and to the commit stage of raw/mod.rs).

The symbolic register-transfer evaluator (microsym.exec_word) is a model of the
pipeline; this module derives, from the MIR of the real pipeline stages, where
every operand of a clock edge comes from, so that the model can be checked
against the code on every run (rules C01 / C04, clause "pipeline agreement").

Per control word `a` and per register-selection class of the instruction
register, the three back-half stages are run abstractly with the eight
registers holding distinct opaque tags R0..R7; Bus::read, Bus::write,
AluOutput::from_input and Signals::carry_flag are replaced by recording
stand-ins.  The record says: the address read, the ALU operands A/B/carry-in and
function, the address/value written, and the pending register / flag write.
The commit stage is run once per register with opaque ALU outputs.
"""
import multiprocessing
import os
import pickle

from . import absint, step
from . import domain as D
from .domain import Agg, En, Ref, Opaque, TOP, BOT, Arr
from .facts import AnchorMissing

BUS_READ = "L::machine::bus::Bus::read"
BUS_WRITE = "L::machine::bus::Bus::write"
ALU_FROM = "L::machine::alu::AluOutput::from_input"
ALU_OUT = "L::machine::alu::AluOutput::output"
ALU_CO = "L::machine::alu::AluOutput::carry_out"
ALU_ZO = "L::machine::alu::AluOutput::zero_out"
ALU_NO = "L::machine::alu::AluOutput::negative_out"
SIG_CF = "L::machine::raw::signals::Signals::<'a>::carry_flag"
COMMIT = "L::machine::raw::RawMachine::apply_pending_register_writes"
SET_C = "L::machine::register::Register::set_carry_flag"
SET_Z = "L::machine::register::Register::set_zero_flag"
SET_N = "L::machine::register::Register::set_negative_flag"

_P = None
_MT = None


def tag(v):
    if isinstance(v, Opaque):
        return v.tag
    if isinstance(v, int) and not isinstance(v, bool):
        return v
    if isinstance(v, bool):
        return int(v)
    return "?" + D.short(v) if hasattr(D, "short") else "?"


def _deref(I, st, v):
    n = 0
    while isinstance(v, Ref) and n < 4:
        v = I.load(st, v.alloc, v.path)
        n += 1
    return v


def _back(args):
    a, ir = args
    p = _P
    I = absint.Interp(p)
    rec = {"read": [], "write": [], "alu": []}
    marks = {}

    def mark(I_, st, what, body, ln):
        if what in marks:
            I_.store_to(st, marks[what], (), Opaque("CALLED"), False, body, ln)

    def m_read(I_, st, depth, callee, args_, body, ln):
        rec["read"].append(tag(args_[1]))
        mark(I_, st, "read", body, ln)
        return Opaque("BUS")

    def m_write(I_, st, depth, callee, args_, body, ln):
        rec["write"].append((tag(args_[1]), tag(args_[2])))
        mark(I_, st, "write", body, ln)
        return Agg(())

    def m_from(I_, st, depth, callee, args_, body, ln):
        inp = _deref(I_, st, args_[0])
        sel = _deref(I_, st, args_[1])
        fields = [tag(x) for x in inp.f] if isinstance(inp, Agg) else ["?"]
        names = [v["n"] for v in p.need_type("L::machine::alu::AluSelect")["variants"]]
        fn = sorted(names[vi] for vi in sel.vs) if isinstance(sel, En) else ["?"]
        rec["alu"].append((fields, fn))
        return Opaque("ALURES")

    I.fn_overrides[BUS_READ] = m_read
    I.fn_overrides[BUS_WRITE] = m_write
    I.fn_overrides[ALU_FROM] = m_from
    I.fn_overrides[ALU_OUT] = lambda I_, st, depth, callee, args_, body, ln: Opaque("ALUOUT")
    I.fn_overrides[SIG_CF] = lambda I_, st, depth, callee, args_, body, ln: Opaque("CF")
    ov = step.machine_overrides(p, a, "Running", False, ir, Opaque("LBR"),
                                extra={"register.content": Arr([Opaque("R%d" % k) for k in range(8)]),
                                       # (both were taken by the commit stage earlier in the same edge)
                                       "pending_register_write": En({0: ()}),
                                       "pending_flag_write": En({0: ()})})
    st = absint.State()
    ma = step.new_machine(p, I, st, ov)
    for what in ("read", "write"):
        marks[what] = I.new_alloc(st, "mark-" + what, Opaque("NOT-CALLED"))
    I.events.clear()
    cur = Agg((Ref(ma, (), True),))
    for s in step.STAGES:
        cur = I.run_body(p.need_body(s), [cur], st, 0)
        if cur is BOT:
            break
    bad = [repr(e) for e in I.events if e.kind in step.BAD_EVENTS][:3]
    # a bus access that the word asks for happens on every path (a path around the call leaves the join of both markers)
    for what in ("read", "write"):
        mv = I.load(st, marks[what], ())
        if rec[what] and mv != Opaque("CALLED"):
            bad.append("the bus %s is skipped on some path (depends on machine state other than the control word)" % what)
    prw = step.field(p, I, st, ma, "pending_register_write")
    pfw = step.field(p, I, st, ma, "pending_flag_write")
    lbr = step.field(p, I, st, ma, "last_bus_read")
    rn = [v["n"] for v in p.need_type("L::machine::register::RegisterNumber")["variants"]]

    def opt(v):
        if not isinstance(v, En):
            return "?"
        out = []
        for vi, pl in sorted(v.vs.items()):
            if vi == 0:
                out.append(None)
            else:
                x = pl[0] if pl else None
                if isinstance(x, En):
                    out.extend(rn[k] for k in sorted(x.vs))
                else:
                    out.append("set")
        return out
    # the memory wait is decided by the address on the bus: the same stages on concrete register contents in which every two
    # registers differ in class (RAM / I/O) under at least one assignment, so that a wait decided by another register's content
    # (or by the data byte) shows as a wait that does not fit the recorded address
    waitcases = []
    if rec["read"] or rec["write"]:
        ram_v = [0x10, 0x20, 0x30, 0x40, 0x50, 0x60, 0x70, 0xEF]
        io_v = [0xF1, 0xF2, 0xF3, 0xF4, 0xF5, 0xF6, 0xF7, 0xF0]
        for bit in (0, 1, 2):
            for flip in (0, 1):
                regs = [(ram_v[k] if ((k >> bit) & 1) == flip else io_v[k]) for k in range(8)]
                I2 = absint.Interp(p)
                rec2 = {"read": [], "write": []}
                I2.fn_overrides[BUS_READ] = lambda I_, st_, d_, c_, a_, b_, l_, rec2=rec2: (rec2["read"].append(tag(a_[1])), Opaque("BUS"))[1]
                I2.fn_overrides[BUS_WRITE] = lambda I_, st_, d_, c_, a_, b_, l_, rec2=rec2: (rec2["write"].append(tag(a_[1])), Agg(()))[1]
                I2.fn_overrides[ALU_FROM] = lambda I_, st_, d_, c_, a_, b_, l_: Opaque("ALURES")
                I2.fn_overrides[ALU_OUT] = lambda I_, st_, d_, c_, a_, b_, l_: D.norm_rng(0, 255)
                I2.fn_overrides[SIG_CF] = lambda I_, st_, d_, c_, a_, b_, l_: frozenset((0, 1))
                ov2 = step.machine_overrides(p, a, "Running", False, ir, Opaque("LBR"),
                                             extra={"register.content": Arr(regs), "pending_register_write": En({0: ()}),
                                                    "pending_flag_write": En({0: ()})})
                st2 = absint.State()
                ma2 = step.new_machine(p, I2, st2, ov2)
                cur2 = Agg((Ref(ma2, (), True),))
                for s in step.STAGES:
                    cur2 = I2.run_body(p.need_body(s), [cur2], st2, 0)
                    if cur2 is BOT:
                        break
                w2 = step.field(p, I2, st2, ma2, "pending_wait_for_memory")
                waitcases.append((bit, flip, rec2["read"], rec2["write"], sorted(w2.vs) if isinstance(w2, En) else None))
    return (a, ir), {"read": rec["read"], "write": rec["write"], "alu": rec["alu"], "prw": opt(prw),
                     "pfw": opt(pfw), "lbr": tag(lbr), "bad": bad, "bot": cur is BOT, "waitcases": waitcases}


def _commit(k):
    """commit stage with pending write to register k and a pending flag write"""
    p = _P
    I = absint.Interp(p)
    rec = {"flags": {}, "set": []}
    I.fn_overrides[ALU_OUT] = lambda I_, st, depth, callee, args_, body, ln: Opaque("ALUOUT")
    I.fn_overrides[ALU_CO] = lambda I_, st, depth, callee, args_, body, ln: Opaque("CO")
    I.fn_overrides[ALU_ZO] = lambda I_, st, depth, callee, args_, body, ln: Opaque("ZO")
    I.fn_overrides[ALU_NO] = lambda I_, st, depth, callee, args_, body, ln: Opaque("NO")
    for nm, path in (("C", SET_C), ("Z", SET_Z), ("N", SET_N)):
        def mk(nm):
            def m(I_, st, depth, callee, args_, body, ln):
                rec["flags"].setdefault(nm, []).append(tag(args_[1]))
                # make the flag update visible in R4, so that its order relative to the register write shows
                r = args_[0]
                ci = p.field_index("L::machine::register::Register", "content")
                if isinstance(r, Ref):
                    regs_ = I_.load(st, r.alloc, tuple(r.path) + (ci,))
                    if isinstance(regs_, Arr) and len(regs_.e) == 8:
                        old4 = tag(regs_.e[4])
                        if not str(old4).startswith("F("):
                            I_.store_to(st, r.alloc, tuple(r.path) + (ci,),
                                        Arr(regs_.e[:4] + (Opaque("F(%s)" % old4),) + regs_.e[5:]), False, body, ln)
                return Agg(())
            return m
        I.fn_overrides[path] = mk(nm)
    rnum = "L::machine::register::RegisterNumber"
    ov = step.machine_overrides(p, None, "Running", False, Opaque("IR"), Opaque("LBR"),
                                extra={"register.content": Arr([Opaque("R%d" % j) for j in range(8)]),
                                       "pending_register_write": En({1: (En({k: ()}),)}) if k is not None else En({0: ()}),
                                       "pending_flag_write": En({1: (Agg(()),)})})
    st = absint.State()
    ma = step.new_machine(p, I, st, ov)
    I.events.clear()
    I.run_body(p.need_body(COMMIT), [Ref(ma, (), True)], st, 0)
    regs = step.field(p, I, st, ma, "register.content")
    out = [tag(x) for x in regs.e] if isinstance(regs, Arr) else ["?"]
    prw = step.field(p, I, st, ma, "pending_register_write")
    pfw = step.field(p, I, st, ma, "pending_flag_write")
    bad = [repr(e) for e in I.events if e.kind in step.BAD_EVENTS][:3]
    return k, {"regs": out, "flags": rec["flags"], "bad": bad,
               "prw_cleared": isinstance(prw, En) and set(prw.vs) == {0},
               "pfw_cleared": isinstance(pfw, En) and set(pfw.vs) == {0}}


def build(p, mt, cache_dir=None):
    global _P, _MT
    if cache_dir:
        from .facts import code_hash
        f = os.path.join(cache_dir, "datapath.%s.pickle" % code_hash())
        if os.path.exists(f):
            with open(f, "rb") as fh:
                return pickle.load(fh)
    _P, _MT = p, mt
    for s in step.STAGES + [COMMIT, BUS_READ, BUS_WRITE, ALU_FROM, ALU_OUT, SIG_CF, SET_C, SET_Z, SET_N,
                            ALU_CO, ALU_ZO, ALU_NO]:
        p.need_body(s)
    jobs = []
    for a in mt.programmed():
        groups = {}
        for ir in range(256):
            groups.setdefault(mt.regs(a, ir), ir)
        for triple, ir in groups.items():
            jobs.append((a, ir))
    back = {}
    commit = {}
    with multiprocessing.get_context("fork").Pool(min(16, os.cpu_count() or 4)) as pool:
        for k, r in pool.imap_unordered(_back, jobs, chunksize=8):
            back[k] = r
        for k, r in pool.imap_unordered(_commit, list(range(8)) + [None]):
            commit[k] = r
    res = {"back": back, "commit": commit}
    if cache_dir:
        from .facts import code_unchanged
    if cache_dir and code_unchanged():
        tmp = f + ".tmp%d" % os.getpid()
        with open(tmp, "wb") as fh:
            pickle.dump(res, fh)
        os.replace(tmp, f)
    return res


def expected_back(mt, a, ir):
    """what microsym.exec_word assumes for word a under instruction register ir"""
    w = mt.word[a]
    ra, rb, rw = mt.regs(a, ir)
    A = "BUS" if (w["maluia"] and w["busen"]) else (0 if w["maluia"] else "R%d" % ra)
    B = w["bconst"] if w["maluib"] else "R%d" % rb
    return {"read": ["R%d" % ra] if w["busen"] else [],
            "write": [("R%d" % ra, "ALUOUT")] if w["buswr"] else [],
            "alu": [([A, B, "CF"], [w["alu"]])],
            "prw": [mt.regnames[rw]] if w["mrgwe"] else [None],
            "pfw": ["set"] if w["mchflg"] else [None],
            "lbr": "BUS" if w["busen"] else 0}
