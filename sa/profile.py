"""Build-profile independence of the decided behaviour.

Every rule decides its property on MIR built with debug assertions on (the profile of `cargo build`/`cargo test`).  A
`debug_assert!` is compiled out of release builds together with the expression it evaluates, so an expression with a side
effect inside one makes the release binary a different program and the decision would not carry over.  Rule: inside the
region of a debug assertion (the blocks between its `if cfg!(debug_assertions)` switch and the join) no call receives a
mutable reference and no statement stores through a pointer.  (That a debug assertion cannot FAIL is part of the panic-site
clauses of the properties that forbid panics.)"""
from . import mirutil


def _region(body, bb0):
    t = body.blocks[bb0]["t"]
    if t["k"] != "switch":
        return set()
    targets = [x for _, x in t["vals"]] + [t["else"]]
    if len(set(targets)) != 2:
        return set()
    # with debug assertions on the condition is the constant true: the arm that leads to the assertion is the one from
    # which the other arm (the join) is reachable but not vice versa
    sc = mirutil.succs(body)
    a, b = targets[0], targets[1]
    ca, cb = _closure(sc, a), _closure(sc, b)
    only_a, only_b = ca - cb, cb - ca

    def has_assert_panic(blocks):
        for x in blocks:
            t_ = body.blocks[x]["t"]
            if t_["k"] == "call" and str(t_["f"].get("def", "")).startswith(("core::panicking::", "std::panicking::")) \
                    and any("assert" in str(m) for m in (t_.get("mx") or ())):
                return True
        return False
    # the assertion arm is the one that alone reaches the assertion's panic; its region ends where both arms meet again
    if has_assert_panic(only_a) and not has_assert_panic(only_b):
        return only_a
    if has_assert_panic(only_b) and not has_assert_panic(only_a):
        return only_b
    return set()


def _closure(sc, x):
    seen = set()
    stack = [x]
    while stack:
        y = stack.pop()
        if y in seen:
            continue
        seen.add(y)
        stack.extend(sc[y])
    return seen


def obligations(ctx, files=None, prefix="profile"):
    p = ctx.p
    bad = []
    nreg = 0
    for path, body in sorted(p.bodies.items()):
        if body.crate not in ("L", "B") or "::tests::" in path:
            continue
        if files is not None and body.file not in files:
            continue
        for bb, blk in enumerate(body.blocks):
            t = blk["t"]
            mx = t.get("mx") or ()
            if t["k"] != "switch" or not any(str(m).startswith("debug_assert") for m in mx) or not any("cfg" in str(m) for m in mx):
                continue
            reg = _region(body, bb)
            if not reg:
                bad.append("%s:%s debug assertion whose extent the analysis cannot delimit" % (body.file, t.get("ln")))
                continue
            nreg += 1
            for rb in sorted(reg):
                rblk = body.blocks[rb]
                for s in rblk["s"]:
                    if s["k"] == "assign" and "*" in [x for x in s["p"]["p"] if isinstance(x, str)]:
                        bad.append("%s:%s store through a pointer inside a debug assertion" % (body.file, s.get("ln")))
                rt = rblk["t"]
                if rt["k"] != "call":
                    continue
                callee = str(rt["f"].get("res") or rt["f"].get("def"))
                if callee.startswith(("core::panicking::", "core::fmt::", "alloc::fmt::", "std::panicking::")):
                    continue
                for a in rt["args"]:
                    pl = a.get("m") or a.get("c")
                    if pl is None:
                        continue
                    ty = body.locals[pl["l"]].get("ty", "") if not pl["p"] else ""
                    if str(ty).startswith("&mut"):
                        bad.append("%s:%s %s(&mut ..) is evaluated only when debug assertions are on" %
                                   (body.file, rt.get("ln"), callee.rsplit("::", 2)[-2] + "::" + callee.rsplit("::", 1)[-1]))
    ctx.chk.ob("%s/debug-assertions-are-pure" % prefix, not bad,
               "the behaviour decided here does not depend on the build profile: no debug assertion evaluates an expression with "
               "a side effect (release builds drop the whole expression)", "", "; ".join(sorted(set(bad))[:4]) or
               "%d debug assertions in the files of this property, all side-effect free" % nreg,
               "MIR region of every debug_assert!: no call with a &mut argument, no store through a pointer")
