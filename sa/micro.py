"""A6: micro-program analyser.

Builds the micro-CFG of the control store: for every programmed control word
(address a) and every instruction-register value i the successor micro-address
as a function of the data conditions, and the micro-operation (register roles,
ALU function, bus use), all obtained by abstract interpretation (A4) of the
repository's own `Signals` functions on (control word, IR) constants with the
data-dependent inputs unknown.  The next-address logic is not re-implemented
here.
"""
import multiprocessing
import os
import pickle
import time

from . import absint
from . import domain as D
from .domain import Agg, En, Ref, Arr, TOP, BOT, Opaque
from .facts import AnchorMissing

SIG = "L::machine::raw::signals::Signals"
SIGFN = "L::machine::raw::signals::Signals::<'a>::"
CONTENT = "L::machine::microprogram_ram::MicroprogramRam::CONTENT"
REGNUM = "L::machine::register::RegisterNumber"
ALUSEL = "L::machine::alu::AluSelect"

# data-condition inputs of the sequencer: name -> how it is pinned in Signals
COND_INPUTS = ["CF", "ZF", "NF", "IEF", "CO", "ZO", "NO", "IFF1", "LVL"]
FLAG_BITS = {"CF": "CARRY_FLAG", "ZF": "ZERO_FLAG", "NF": "NEGATIVE_FLAG", "IEF": "INTERRUPT_ENABLE_FLAG"}

BOOL = frozenset((0, 1))

_P = None      # program (set before forking workers)
_CTX = None


class MicroCtx:
    """everything needed to build an abstract Signals value"""

    def __init__(self, p):
        self.p = p
        self._fv_cache = {}
        self.names = p.field_names(SIG)
        need = {"word", "instruction", "interrupt_flipflop_1", "level_interrupt", "flags",
                "carry_out", "zero_out", "negative_out"}
        if set(self.names) != need:
            raise AnchorMissing("fields of Signals changed: %s" % sorted(set(self.names) ^ need))
        self.content = p.need_const(CONTENT)["arr"]
        if len(self.content) != 512:
            raise AnchorMissing("CONTENT is not 512 words")
        self.flagbit = {}
        for k, cname in FLAG_BITS.items():
            self.flagbit[k] = p.need_const("L::machine::register::Flags::" + cname)["v"]
        self.fn = {}
        for f in ("next_microprogram_address", "selected_register_a", "selected_register_b",
                  "selected_register_for_writing", "alu_select", "alu_input_b_constant",
                  "interrupt_logic_1", "busen", "buswr", "mrgwe", "mchflg", "maluia", "maluib",
                  "mac0", "mac1", "mac2", "mac3", "mrgws", "carry_flag"):
            self.fn[f] = p.need_body(SIGFN + f)
        self.regnames = [v["n"] for v in p.need_type(REGNUM)["variants"]]
        self.alunames = [v["n"] for v in p.need_type(ALUSEL)["variants"]]

    def flags_value(self, pins):
        key = tuple(pins.get(k) for k in ("CF", "ZF", "NF", "IEF"))
        v = self._fv_cache.get(key)
        if v is None:
            v = self._fv_cache[key] = self._flags_value(pins)
        return v

    def _flags_value(self, pins):
        """abstract u8 for Flags.bits given pinned condition inputs"""
        fixed_mask = 0
        fixed_val = 0
        for k, bit in self.flagbit.items():
            if k in pins:
                fixed_mask |= bit
                if pins[k]:
                    fixed_val |= bit
        free = [b for b in (1, 2, 4, 8, 16, 32, 64, 128) if not (fixed_mask & b)]
        # upper bits of the flag register are irrelevant for `contains` on bits 0..3 but unknown
        vals = set()
        flagbits = [b for b in free if b in self.flagbit.values()]
        others = [b for b in free if b not in self.flagbit.values()]
        base = [fixed_val]
        for b in flagbits:
            base = base + [x | b for x in base]
        # keep the set small: unknown upper bits represented by two extremes is unsound, so enumerate
        for x in base:
            vals.add(x)
        if others:
            allv = set()
            for x in vals:
                for m in range(1 << len(others)):
                    y = x
                    for j, b in enumerate(others):
                        if m >> j & 1:
                            y |= b
                    allv.add(y)
            vals = allv
        return D.norm_set(frozenset(vals))

    def make_signals(self, I, st, word, ir, pins):
        I.heap_counter = 0
        wa = I.new_alloc(st, "word", Agg((word,)))
        ia = I.new_alloc(st, "ir", Agg((ir,)))
        inta = I.new_alloc(st, "int", Agg(()))

        def opt(name):
            if name in pins:
                return En({1: (Ref(inta),)}) if pins[name] else En({0: ()})
            return En({0: (), 1: (Ref(inta),)})

        def b(name):
            return pins[name] if name in pins else BOOL
        vals = {"word": Ref(wa), "instruction": Ref(ia),
                "interrupt_flipflop_1": opt("IFF1"), "level_interrupt": opt("LVL"),
                "flags": Agg((self.flags_value(pins),)),
                "carry_out": b("CO"), "zero_out": b("ZO"), "negative_out": b("NO")}
        sa = I.new_alloc(st, "signals", Agg([vals[n] for n in self.names]))
        return Ref(sa)

    def eval_fn(self, I, fname, word, ir, pins):
        st = absint.State()
        s = self.make_signals(I, st, word, ir, pins)
        I.events.clear()
        r = I.run_body(self.fn[fname], [s], st, 0)
        for e in I.events:
            if e.kind in ("unknown_extern", "wild_write", "unknown_call_value", "recursion_or_depth",
                          "unknown_terminator", "havoc"):
                raise AnchorMissing("cannot evaluate Signals::%s exactly: %r" % (fname, e))
            if e.kind == "panic" or (e.kind == "assert" and e.info["may_fail"]):
                raise AnchorMissing("Signals::%s may panic for word=%#x ir=%#x: %r" % (fname, word, ir, e))
        return r


class _NoSingleton(Exception):
    pass


def _split(ctx, I, fname, word, ir, pins, order):
    """decision list [(pins, value)] with singleton values; raises _NoSingleton
    when pinning every condition input does not make the result a single value
    (then the result also depends on the part of `ir` left open)"""
    r = ctx.eval_fn(I, fname, word, ir, pins)
    if isinstance(r, int):
        return [(dict(pins), r)]
    vi = _enum_variant(r)
    if vi is not None:
        return [(dict(pins), vi)]
    rest = [k for k in order if k not in pins]
    if not rest:
        raise _NoSingleton()
    best = None
    for k in rest:
        r0 = ctx.eval_fn(I, fname, word, ir, dict(pins, **{k: 0}))
        r1 = ctx.eval_fn(I, fname, word, ir, dict(pins, **{k: 1}))
        if r0 != r or r1 != r:
            best = k
            break
    if best is None:
        raise _NoSingleton()
    out = []
    for v in (0, 1):
        out += _split(ctx, I, fname, word, ir, dict(pins, **{best: v}), order)
    return out


def _enum_variant(v):
    if isinstance(v, En) and len(v.vs) == 1:
        return next(iter(v.vs))
    return None


HI_CLASSES = [frozenset((h << 4) | l for l in range(16)) for h in range(16)]
LO_CLASSES = [frozenset((h << 4) | l for h in range(16)) for l in range(16)]
ALL_IR = frozenset(range(256))


def _over_ir(ctx, I, fname, word, order, stats):
    """-> list[256] of decision lists.  The IR space is covered by classes (all,
    per high nibble, per low nibble, single values); a class is accepted only
    if the abstract result is a single value for every condition leaf, which is
    then valid for each IR value of the class (soundness of A4)."""
    def attempt(irset):
        stats[0] += 1
        try:
            return _split(ctx, I, fname, word, irset, {}, order)
        except _NoSingleton:
            return None
    dl = attempt(ALL_IR)
    if dl is not None:
        return [dl] * 256
    out = [None] * 256
    for classes in (HI_CLASSES, LO_CLASSES):
        res = [attempt(c) for c in classes]
        if all(r is not None for r in res):
            for c, r in zip(classes, res):
                for ir in c:
                    out[ir] = r
            return out
        if classes is HI_CLASSES:
            # partial success: fill what is decided, enumerate the rest
            partial = res
    for c, r in zip(HI_CLASSES, partial):
        for ir in c:
            if r is not None:
                out[ir] = r
    for ir in range(256):
        if out[ir] is None:
            dl = attempt(ir)
            if dl is None:
                raise AnchorMissing("Signals::%s is not a function of (word, IR, conditions) for word=%#x ir=%#x"
                                    % (fname, word, ir))
            out[ir] = dl
    return out


def _work(a):
    ctx = _CTX
    I = absint.Interp(ctx.p)
    I.memo = True
    I.unroll = 16          # small constant-trip loops over the address bits are evaluated iteration by iteration
    word = ctx.content[a]
    per_word = {}
    stats = [0]
    for f in ("busen", "buswr", "mrgwe", "mchflg", "maluia", "maluib", "mac0", "mac1", "mac2", "mac3", "mrgws"):
        r = ctx.eval_fn(I, f, word, ALL_IR, {})
        if not isinstance(r, int):
            raise AnchorMissing("Signals::%s is not a function of the control word alone (word %#x)" % (f, a))
        per_word[f] = r
    r = ctx.eval_fn(I, "alu_select", word, ALL_IR, {})
    vi = _enum_variant(r)
    if vi is None:
        raise AnchorMissing("alu_select not constant for word %#x: %r" % (a, r))
    per_word["alu"] = ctx.alunames[vi]
    r = ctx.eval_fn(I, "alu_input_b_constant", word, ALL_IR, {})
    if not isinstance(r, int):
        raise AnchorMissing("alu_input_b_constant not constant for word %#x: %r" % (a, r))
    per_word["bconst"] = r
    try:
        per_word["il1"] = _split(ctx, I, "interrupt_logic_1", word, ALL_IR, {}, COND_INPUTS)
    except _NoSingleton:
        raise AnchorMissing("interrupt_logic_1 depends on IR for word %#x" % a)
    nxt = _over_ir(ctx, I, "next_microprogram_address", word, COND_INPUTS, stats)
    regs = []
    for f in ("selected_register_a", "selected_register_b", "selected_register_for_writing"):
        dls = _over_ir(ctx, I, f, word, [], stats)
        regs.append([dl[0][1] for dl in dls])
    rows = [(nxt[ir], (regs[0][ir], regs[1][ir], regs[2][ir])) for ir in range(256)]
    per_word["evals"] = stats[0]
    return a, per_word, rows


BOOL_IR = frozenset(range(256))


class MicroTables:
    """result of the per-(word, IR) evaluation"""

    def __init__(self):
        self.content = None
        self.word = {}     # a -> per-word dict
        self.rows = {}     # a -> list[256] of (nxt decision list, (ra, rb, rw))
        self.regnames = None
        self.alunames = None
        self.evals = 0
        self.seconds = 0.0

    def programmed(self):
        return sorted(self.word)

    def succ(self, a, ir):
        """decision list [(pins, next_addr)]"""
        return self.rows[a][ir][0]

    def regs(self, a, ir):
        return self.rows[a][ir][1]


def build_tables(p, cache_dir=None, procs=None):
    global _CTX
    if cache_dir:
        from .facts import code_hash
        f = os.path.join(cache_dir, "micro_tables.%s.pickle" % code_hash())
        if os.path.exists(f):
            with open(f, "rb") as fh:
                return pickle.load(fh)
    t0 = time.time()
    ctx = MicroCtx(p)
    _CTX = ctx
    prog = [a for a in range(512) if ctx.content[a] != 0]
    procs = procs or min(16, os.cpu_count() or 4)
    mt = MicroTables()
    mt.content = list(ctx.content)
    mt.regnames = ctx.regnames
    mt.alunames = ctx.alunames
    with multiprocessing.get_context("fork").Pool(procs) as pool:
        for a, per_word, rows in pool.imap_unordered(_work, prog, chunksize=4):
            mt.word[a] = per_word
            mt.rows[a] = rows
    mt.seconds = time.time() - t0
    if cache_dir:
        from .facts import code_unchanged
    if cache_dir and code_unchanged():
        tmp = f + ".tmp%d" % os.getpid()
        with open(tmp, "wb") as fh:
            pickle.dump(mt, fh)
        os.replace(tmp, f)
    return mt
