"""Abstract model of core::fmt for evaluating Display impls statically (C16).

Text is a Txt value: a sequence of literal strings and tokens
  ("dec", ty)      decimal rendering of an unknown integer of type ty
  ("hex", ty, width, upper, zero)  hex rendering with a width
  ("sym", tag)     an opaque string (label, comment) printed as is
  ("pad", width)   the blanks pad_to_width may append (zero or more)
The template bytes of fmt::Arguments::new are decoded as documented in
library/core/src/fmt/mod.rs ("Internal representation")."""
from . import domain as D
from .domain import Agg, En, Ref, Arr, Str, Opaque, TOP, BOT
from . import externs


class Txt:
    __slots__ = ("parts",)
    by_value_string = True

    def __init__(self, parts=()):
        out = []
        for p_ in parts:
            if isinstance(p_, str) and out and isinstance(out[-1], str):
                out[-1] = out[-1] + p_
            elif isinstance(p_, str) and p_ == "":
                continue
            else:
                out.append(p_)
        self.parts = tuple(out)

    def __eq__(self, o):
        return isinstance(o, Txt) and o.parts == self.parts

    def __hash__(self):
        return hash(("Txt", self.parts))

    def __repr__(self):
        return "Txt%r" % (self.parts,)

    def concrete(self):
        return all(isinstance(x, str) for x in self.parts)

    def text(self):
        return "".join(self.parts)


class FmtArg:
    __slots__ = ("kind", "ref", "ty")

    def __init__(self, kind, ref, ty):
        self.kind = kind
        self.ref = ref
        self.ty = ty

    def __eq__(self, o):
        return isinstance(o, FmtArg) and (o.kind, o.ref, o.ty) == (self.kind, self.ref, self.ty)

    def __hash__(self):
        return hash(("FmtArg", self.kind, self.ref, self.ty))

    def __repr__(self):
        return "FmtArg(%s,%s)" % (self.kind, self.ty)


class FmtArgs:
    __slots__ = ("template", "args", "lit")

    def __init__(self, template, args, lit=None):
        self.template = tuple(template) if template is not None else None
        self.args = tuple(args)
        self.lit = lit

    def __eq__(self, o):
        return isinstance(o, FmtArgs) and (o.template, o.args, o.lit) == (self.template, self.args, self.lit)

    def __hash__(self):
        return hash(("FmtArgs", self.template, self.args, self.lit))

    def __repr__(self):
        return "FmtArgs(%r)" % (self.lit if self.lit is not None else len(self.args),)


def decode_template(tb):
    """-> list of ('lit', str) | ('ph', {flags, width, precision, arg_index})"""
    out = []
    i = 0
    bs = bytes(tb)
    while i < len(bs):
        n = bs[i]
        i += 1
        if n == 0:
            break
        if n < 0x80:
            out.append(("lit", bs[i:i + n].decode()))
            i += n
        elif n == 0x80:
            ln = bs[i] | (bs[i + 1] << 8)
            i += 2
            out.append(("lit", bs[i:i + ln].decode()))
            i += ln
        elif n & 0xC0 == 0xC0:
            ph = {"flags": None, "width": None, "precision": None, "arg_index": None,
                  "width_indirect": bool(n & 0x10), "precision_indirect": bool(n & 0x20)}
            if n & 0x01:
                ph["flags"] = int.from_bytes(bs[i:i + 4], "little")
                i += 4
            if n & 0x02:
                ph["width"] = int.from_bytes(bs[i:i + 2], "little")
                i += 2
            if n & 0x04:
                ph["precision"] = int.from_bytes(bs[i:i + 2], "little")
                i += 2
            if n & 0x08:
                ph["arg_index"] = int.from_bytes(bs[i:i + 2], "little")
                i += 2
            out.append(("ph", ph))
        else:
            raise ValueError("unknown template byte %#x" % n)
    return out


ZERO_PAD_FLAG = 1 << 24      # FormattingOptions::flags: SIGN_AWARE_ZERO_PAD_FLAG
ALTERNATE_FLAG = 1 << 23


def render_hex(v, width, upper, zero, alt):
    s = ("%X" if upper else "%x") % v
    pre = "0x" if alt else ""
    if zero:
        return pre + s.rjust(max(0, width - len(pre)), "0")
    return (pre + s).rjust(width, " ")


class FmtModel:
    def __init__(self, p):
        self.p = p
        self.problems = []

    def install(self, I):
        ov = I.fn_overrides
        for k in ("display", "debug", "upper_hex", "lower_hex", "binary", "octal"):
            ov["core::fmt::rt::Argument::<'_>::new_%s" % k] = self._mk_arg(k)
        ov["core::fmt::Arguments::<'a>::new"] = self.m_args_new
        ov["core::fmt::Arguments::<'a>::from_str"] = self.m_args_from_str
        ov["core::fmt::Formatter::<'a>::write_fmt"] = self.m_write_fmt
        ov["core::fmt::Formatter::<'a>::write_str"] = self.m_write_str
        ov["alloc::fmt::format"] = self.m_format
        ov["alloc::string::ToString::to_string"] = self.m_to_string
        ov["pad::PadStr::pad_to_width"] = self.m_pad
        ov["core::hint::must_use"] = lambda I_, st, depth, callee, args, body, ln: args[0]
        ov["<alloc::string::String as core::ops::deref::Deref>::deref"] = self.m_deref_string

    def new_formatter(self, I, st):
        a = I.new_alloc(st, "formatter", Txt(()))
        return Ref(a, (), True)

    def _mk_arg(self, kind):
        def m(I, st, depth, callee, args, body, ln):
            ga = callee.get("ga", [])
            ty = [g for g in ga if not g.startswith("'")]
            return FmtArg(kind, args[0], ty[0] if ty else None)
        return m

    def m_args_new(self, I, st, depth, callee, args, body, ln):
        t = externs.deref(I, st, args[0])
        a = externs.deref(I, st, args[1])
        if isinstance(t, Arr) and isinstance(a, Arr) and all(isinstance(x, int) for x in t.e):
            return FmtArgs(t.e, a.e)
        self.problems.append("fmt::Arguments::new with unknown template")
        return TOP

    def m_args_from_str(self, I, st, depth, callee, args, body, ln):
        s = externs.deref(I, st, args[0]) if isinstance(args[0], Ref) else args[0]
        if isinstance(s, Str):
            return FmtArgs(None, (), s.s)
        self.problems.append("fmt::Arguments::from_str with unknown string")
        return TOP

    # ---- rendering -----------------------------------------------------------
    def render_value(self, I, st, depth, kind, ref, ty, ph, body, ln):
        """-> list of parts"""
        v = ref
        seen = 0
        while isinstance(v, Ref) and seen < 4:
            v = I.load(st, v.alloc, v.path)
            seen += 1
        tyc = (ty or "").lstrip("&").strip()
        if tyc.startswith("'"):
            tyc = tyc.split(" ", 1)[-1]
        width = ph.get("width") if ph else None
        flags = ph.get("flags") if ph else None
        if isinstance(v, Txt):
            return list(v.parts)
        if isinstance(v, Str):
            return [v.s]
        if isinstance(v, Opaque):
            return [("sym", v.tag)]
        if tyc in D.INT_TYPES and tyc not in ("bool", "char"):
            if kind == "display":
                if isinstance(v, int):
                    return [str(v)]
                return [("dec", tyc)]
            if kind in ("upper_hex", "lower_hex"):
                zero = bool(flags is not None and flags & ZERO_PAD_FLAG)
                alt = bool(flags is not None and flags & ALTERNATE_FLAG)
                if isinstance(v, int):
                    return [render_hex(v, width or 0, kind == "upper_hex", zero, alt)]
                return [("hex", tyc, width or 0, kind == "upper_hex", zero, alt)]
        # a type with a local Display impl
        if kind == "display":
            b = self.p.find_trait_method("core::fmt::Display", tyc, "fmt")
            if b is not None:
                sub = self.new_formatter(I, st)
                target = ref
                while isinstance(target, Ref) and isinstance(I.load(st, target.alloc, target.path), Ref):
                    target = I.load(st, target.alloc, target.path)
                I.run_body(b, [target, sub], st, depth + 1)
                out = I.load(st, sub.alloc, sub.path)
                st.store.pop(sub.alloc, None)
                if isinstance(out, Txt):
                    return list(out.parts)
        self.problems.append("cannot render %s of type %s (%r)" % (kind, ty, v))
        return [("unknown", ty)]

    def render(self, I, st, depth, fa, body, ln):
        if not isinstance(fa, FmtArgs):
            self.problems.append("write_fmt with unknown arguments")
            return [("unknown", "args")]
        if fa.lit is not None:
            return [fa.lit]
        parts = []
        nxt = 0
        for kind, x in decode_template(fa.template):
            if kind == "lit":
                parts.append(x)
            else:
                idx = x["arg_index"] if x["arg_index"] is not None else nxt
                nxt = idx + 1
                if idx >= len(fa.args) or not isinstance(fa.args[idx], FmtArg):
                    self.problems.append("placeholder without argument")
                    parts.append(("unknown", "arg"))
                    continue
                a = fa.args[idx]
                parts.extend(self.render_value(I, st, depth, a.kind, a.ref, a.ty, x, body, ln))
        return parts

    def m_write_fmt(self, I, st, depth, callee, args, body, ln):
        f = args[0]
        parts = self.render(I, st, depth, args[1], body, ln)
        if isinstance(f, Ref):
            cur = I.load(st, f.alloc, f.path)
            if isinstance(cur, Txt):
                I.store_to(st, f.alloc, f.path, Txt(cur.parts + tuple(parts)), False, body, ln)
            else:
                self.problems.append("formatter buffer lost")
        return En({0: (Agg(()),)})

    def m_write_str(self, I, st, depth, callee, args, body, ln):
        f = args[0]
        s = externs.deref(I, st, args[1]) if isinstance(args[1], Ref) else args[1]
        part = s.s if isinstance(s, Str) else (list(s.parts) if isinstance(s, Txt) else ("unknown", "str"))
        if isinstance(f, Ref):
            cur = I.load(st, f.alloc, f.path)
            if isinstance(cur, Txt):
                add = tuple(part) if isinstance(part, list) else (part,)
                I.store_to(st, f.alloc, f.path, Txt(cur.parts + add), False, body, ln)
        return En({0: (Agg(()),)})

    def m_format(self, I, st, depth, callee, args, body, ln):
        return Txt(self.render(I, st, depth, args[0], body, ln))

    def m_to_string(self, I, st, depth, callee, args, body, ln):
        ga = callee.get("ga", [])
        return Txt(self.render_value(I, st, depth, "display", args[0], ga[0] if ga else None, None, body, ln))

    def m_deref_string(self, I, st, depth, callee, args, body, ln):
        v = args[0]
        if isinstance(v, Ref):
            return I.load(st, v.alloc, v.path)
        return v

    def m_pad(self, I, st, depth, callee, args, body, ln):
        s = externs.deref(I, st, args[0]) if isinstance(args[0], Ref) else args[0]
        w = args[1]
        if isinstance(s, Str):
            s = Txt((s.s,))
        if isinstance(s, Txt) and isinstance(w, int):
            if s.concrete():
                t = s.text()
                # pad crate: pads with blanks up to the display width, never truncates here
                return Txt((t + " " * max(0, w - len(t)),))
            return Txt(s.parts + (("pad", w),))
        self.problems.append("pad_to_width on unknown text")
        return Txt((("unknown", "pad"),))
