"""A9: dependence (information-flow) analysis on MIR.

Forward data-flow: every local (tuple/struct locals field-sensitively at depth
one) is mapped to the set of root labels its value may depend on; control
dependence is added through post-dominators.  Roots are chosen by the caller:
parameters, or named fields behind a reference parameter.
"""
from . import mirutil


def _first_field(place):
    if place["p"] and isinstance(place["p"][0], dict) and "f" in place["p"][0]:
        return place["p"][0]["f"]
    return None


class Deps:
    def __init__(self, body, roots, prune=None, call_summaries=None):
        """roots: function(place) -> label or None, tried on every read place
        prune: {switch_bb: set(allowed successor bbs)}"""
        self.body = body
        self.roots = roots
        self.prune = prune or {}
        self.call_summaries = call_summaries or {}
        self.succ = []
        for bb, blk in enumerate(body.blocks):
            ss = list(mirutil.block_succs(blk["t"]))
            if bb in self.prune:
                ss = [s for s in ss if s in self.prune[bb]]
            self.succ.append(ss)
        self.reach = self._reach()
        self.ctrl = self._control_deps()
        self.out_state = {}
        self.in_state = {}
        self._solve()

    def _reach(self):
        seen = {0}
        st = [0]
        while st:
            b = st.pop()
            for s in self.succ[b]:
                if s not in seen:
                    seen.add(s)
                    st.append(s)
        return seen

    def _control_deps(self):
        """ctrl[x] = set of switch blocks x is control dependent on"""
        body = self.body
        reach = self.reach
        exits = [b for b in reach if not self.succ[b]]
        full = set(reach)
        pdom = {b: set(full) for b in reach}
        for e in exits:
            pdom[e] = {e}
        changed = True
        while changed:
            changed = False
            for b in sorted(reach, reverse=True):
                if b in exits:
                    continue
                new = None
                for s in self.succ[b]:
                    new = set(pdom[s]) if new is None else (new & pdom[s])
                new = (new or set()) | {b}
                if new != pdom[b]:
                    pdom[b] = new
                    changed = True
        ctrl = {b: set() for b in reach}
        for s in reach:
            if body.blocks[s]["t"]["k"] != "switch" or len(set(self.succ[s])) < 2:
                continue
            for t in set(self.succ[s]):
                # blocks that post-dominate t but not s
                for x in reach:
                    if x in pdom[t] and (x not in pdom[s] or x == s):
                        if x != s:
                            ctrl[x].add(s)
        return ctrl

    # ------------------------------------------------------------------
    def place_deps(self, st, place):
        lab = self.roots(place)
        if lab is not None:
            return frozenset([lab])
        l = place["l"]
        f = _first_field(place)
        if f is not None and (l, f) in st:
            base = st[(l, f)]
        else:
            base = st.get(l, frozenset())
        # index locals
        for pe in place["p"]:
            if isinstance(pe, dict) and "i" in pe:
                base = base | st.get(pe["i"], frozenset())
        return base

    def op_deps(self, st, op):
        pl = mirutil.place_of(op)
        if pl is None:
            return frozenset()
        return self.place_deps(st, pl)

    def rvalue_deps(self, st, r):
        k = r["k"]
        if k in ("use", "cast", "repeat"):
            return self.op_deps(st, r["o"])
        if k == "bin":
            return self.op_deps(st, r["a"]) | self.op_deps(st, r["b"])
        if k == "un":
            return self.op_deps(st, r["a"])
        if k in ("ref", "rawptr", "discr"):
            return self.place_deps(st, r["p"])
        if k == "agg":
            d = frozenset()
            for o in r["fields"]:
                d = d | self.op_deps(st, o)
            return d
        return frozenset()

    def assign(self, st, place, deps, field_deps=None):
        l = place["l"]
        if not place["p"]:
            for key in [k for k in st if isinstance(k, tuple) and k[0] == l]:
                del st[key]
            st[l] = deps
            if field_deps is not None:
                for i, d in enumerate(field_deps):
                    st[(l, i)] = d
            return
        f = _first_field(place)
        if f is not None and len(place["p"]) == 1:
            st[(l, f)] = deps
            st[l] = st.get(l, frozenset()) | deps
            return
        # write through deref / deeper projection: weak update of the base local
        st[l] = st.get(l, frozenset()) | deps
        if f is not None:
            st[(l, f)] = st.get((l, f), frozenset()) | deps

    def _transfer(self, bb, st):
        body = self.body
        blk = body.blocks[bb]
        ctx = frozenset()
        for s in self.ctrl.get(bb, ()):
            ctx = ctx | self.switch_deps.get(s, frozenset())
        for s in blk["s"]:
            if s["k"] == "assign":
                r = s["r"]
                deps = self.rvalue_deps(st, r) | ctx
                fd = None
                if r["k"] == "agg":
                    fd = [self.op_deps(st, o) | ctx for o in r["fields"]]
                self.assign(st, s["p"], deps, fd)
            elif s["k"] == "setdiscr":
                self.assign(st, s["p"], ctx)
        t = blk["t"]
        if t["k"] == "call":
            deps = ctx
            for a in t["args"]:
                deps = deps | self.op_deps(st, a)
            name = mirutil.callee_name(t)
            self.assign(st, t["dest"], deps)
            # a callee may write through &mut arguments: weakly taint what they point to
            for a in t["args"]:
                pl = mirutil.place_of(a)
                if pl is not None and not pl["p"]:
                    ty = body.locals[pl["l"]]["ty"]
                    if ty.startswith("&mut"):
                        tgt = self.ref_targets.get(pl["l"])
                        if tgt is not None:
                            self.assign(st, {"l": tgt["l"], "p": tgt["p"] + ["*"]} if False else
                                        {"l": tgt["l"], "p": [{"weak": 1}]}, deps)
        elif t["k"] == "switch":
            self.switch_deps[bb] = self.op_deps(st, t["d"]) | ctx
        return st

    def _solve(self):
        body = self.body
        # ref targets: local -> place it borrows (single definition)
        self.ref_targets = {}
        for bb in self.reach:
            for s in body.blocks[bb]["s"]:
                if s["k"] == "assign" and not s["p"]["p"] and s["r"]["k"] == "ref":
                    self.ref_targets[s["p"]["l"]] = s["r"]["p"]
        self.switch_deps = {}
        preds = {b: [] for b in self.reach}
        for b in self.reach:
            for s in self.succ[b]:
                preds[s].append(b)
        instate = {b: {} for b in self.reach}
        work = sorted(self.reach)
        iters = 0
        outstate = {}
        while work and iters < 10000:
            iters += 1
            bb = work.pop(0)
            st = dict(instate[bb])
            old_sw = self.switch_deps.get(bb)
            st = self._transfer(bb, st)
            if outstate.get(bb) == st and old_sw == self.switch_deps.get(bb):
                continue
            outstate[bb] = st
            for s in self.succ[bb]:
                merged = dict(instate[s])
                ch = False
                for k, v in st.items():
                    nv = merged.get(k, frozenset()) | v
                    if nv != merged.get(k):
                        merged[k] = nv
                        ch = True
                if ch or s not in outstate:
                    instate[s] = merged
                    if s not in work:
                        work.append(s)
            # blocks control dependent on this switch must be revisited when its deps change
            if old_sw != self.switch_deps.get(bb):
                for x, ss in self.ctrl.items():
                    if bb in ss and x not in work:
                        work.append(x)
        self.in_state = instate
        self.out_state = outstate

    def at_return(self, key):
        """deps of local / (local, field) at the return blocks"""
        d = frozenset()
        for bb in self.reach:
            if self.body.blocks[bb]["t"]["k"] == "ret":
                st = self.out_state.get(bb, {})
                d = d | st.get(key, st.get(key[0], frozenset()) if isinstance(key, tuple) else frozenset())
        return d
