"""Abstract model of pest's parse tree API for analysing the consumer functions
(parser/implementation/mod.rs) against the grammar (A7 + A4).

An abstract Pair is PairV(rule, idx, children, text):
  children : None (unknown: any child the rule can have) or a tuple of items,
             item = PairV | ("rep", (alt, alt, ...)) with alt = tuple of PairV
  text     : Str (concrete) or a lexical token Opaque(("lex", rule, lower, skip))
"""
from . import domain as D
from .domain import Agg, En, Ref, Arr, It, Str, Opaque, TOP, BOT, join
from . import externs
from .facts import AnchorMissing

RULE_ENUM = "L::parser::implementation::Rule"
BOOL = frozenset((0, 1))


class PairV:
    __slots__ = ("rule", "idx", "children", "text")

    def __init__(self, rule, idx=None, children=None, text=None):
        self.rule = rule
        self.idx = idx
        self.children = children
        self.text = text

    def __eq__(self, o):
        return isinstance(o, PairV) and (o.rule, o.idx, o.children, o.text) == (self.rule, self.idx, self.children, self.text)

    def __hash__(self):
        return hash(("PairV", self.rule, self.idx, self.children, self.text))

    def __repr__(self):
        return "Pair<%s#%s%s>" % (self.rule, self.idx, " %r" % (self.text,) if isinstance(self.text, Str) else "")

    def rules(self):
        return self.rule if isinstance(self.rule, frozenset) else frozenset([self.rule])

    def join_with(self, o):
        if self == o:
            return self
        return PairV(self.rules() | o.rules(), None, None, None)


class PestModel:
    def __init__(self, p, g):
        self.p = p
        self.g = g
        t = p.need_type(RULE_ENUM)
        self.variant = {v["n"]: i for i, v in enumerate(t["variants"])}
        self.lex_obligations = []    # (kind, rule, detail, ok)
        self.need_expand = set()

    # ---- values -----------------------------------------------------------
    def rule_value(self, rule):
        if rule not in self.variant:
            raise AnchorMissing("Rule::%s" % rule)
        return En({self.variant[rule]: ()})

    def items_iter(self, items):
        """It over child items (PairV or rep markers)"""
        if all(isinstance(x, PairV) for x in items):
            return It("exact", items)
        return It("seq", items)

    def unknown_children(self, rule):
        alpha = sorted(self.g.child_alphabet(rule)) if rule in self.g.rules else []
        if not alpha:
            return It("exact", ())
        return It("rep", [PairV(r) for r in alpha])

    # ---- models -------------------------------------------------------------
    def install(self, I):
        ov = I.fn_overrides
        ov["pest::iterators::pair::Pair::<'i, R>::into_inner"] = self.m_into_inner
        ov["pest::iterators::pair::Pair::<'i, R>::as_rule"] = self.m_as_rule
        ov["pest::iterators::pair::Pair::<'i, R>::as_str"] = self.m_as_str
        ov["<pest::iterators::pairs::Pairs<'i, R> as core::iter::traits::iterator::Iterator>::next"] = self.m_next
        ov["alloc::str::<impl str>::to_lowercase"] = self.m_to_lowercase
        ov["alloc::string::String::as_str"] = self.m_identity_deref
        ov["<alloc::string::String as core::ops::deref::Deref>::deref"] = self.m_identity_deref
        ov["<str as core::cmp::PartialEq>::eq"] = self.m_str_eq
        ov["<str as core::ops::index::Index<core::ops::range::RangeFrom<usize>>>::index"] = self.m_str_from
        ov["core::str::traits::<impl core::ops::index::Index<I> for str>::index"] = self.m_str_from
        ov["core::str::<impl str>::parse"] = self.m_parse
        ov["core::str::<impl str>::trim_matches"] = self.m_trim
        ov["core::hint::must_use"] = lambda I_, st, depth, callee, args, body, ln: args[0]
        ov["alloc::fmt::format"] = lambda I_, st, depth, callee, args, body, ln: Opaque("formatted")
        for ty in ("u8", "u16", "u32", "usize"):
            ov["core::num::<impl %s>::from_str_radix" % ty] = self.m_from_str_radix

    def _pair(self, I, st, v):
        if isinstance(v, Ref):
            v = I.load(st, v.alloc, v.path)
        return v if isinstance(v, PairV) else None

    def m_into_inner(self, I, st, depth, callee, args, body, ln):
        pr = self._pair(I, st, args[0])
        if pr is None:
            return It("rep", [TOP])
        if pr.children is None:
            if not isinstance(pr.rule, frozenset):
                self.need_expand.add(pr.rule)
            items = []
            for r in sorted(pr.rules()):
                u = self.unknown_children(r)
                items.extend(u.items)
            return It("rep", list(dict.fromkeys(items))) if items else It("exact", ())
        return self.items_iter(pr.children)

    def m_as_rule(self, I, st, depth, callee, args, body, ln):
        pr = self._pair(I, st, args[0])
        if pr is None:
            return En({i: () for i in self.variant.values()})
        vs = {}
        for r in pr.rules():
            if r not in self.variant:
                raise AnchorMissing("Rule::%s" % r)
            vs[self.variant[r]] = ()
        return En(vs)

    def m_as_str(self, I, st, depth, callee, args, body, ln):
        pr = self._pair(I, st, args[0])
        if pr is None:
            return Opaque(("lex", None, False, 0))
        if pr.text is not None:
            return pr.text
        if isinstance(pr.rule, frozenset):
            return Opaque(("lex", None, False, 0))
        return Opaque(("lex", pr.rule, False, 0))

    def m_next(self, I, st, depth, callee, args, body, ln):
        r = args[0]
        if not isinstance(r, Ref):
            return En({0: (), 1: (TOP,)})
        v = I.load(st, r.alloc, r.path)
        if isinstance(v, It) and v.kind == "seq":
            items = v.items
            if not items:
                return externs.none()
            first = items[0]
            if isinstance(first, PairV):
                I.store_to(st, r.alloc, r.path, self.items_iter(items[1:]), False, body, ln)
                return externs.some(first)
            # repetition marker: either skip it or enter one of its alternatives
            alts = first[1]
            rest = items[1:]
            outs = []
            # skip
            outs.append((None, rest))
            for alt in alts:
                if alt:
                    outs.append((alt[0], tuple(alt[1:]) + (first,) + tuple(rest)))
            # join everything that may remain into a summary iterator
            remaining = set()
            res = BOT
            may_none = False
            for head, tail in outs:
                if head is None:
                    # next() on the rest
                    if not tail:
                        may_none = True
                    else:
                        t0 = tail[0]
                        if isinstance(t0, PairV):
                            res = join(res, externs.some(t0))
                            for x in tail[1:]:
                                remaining.add(x)
                        else:
                            may_none = True
                            remaining.add(t0)
                else:
                    res = join(res, externs.some(head))
                    for x in tail:
                        remaining.add(x)
            flat = []
            for x in remaining:
                if isinstance(x, PairV):
                    flat.append(x)
                else:
                    for alt in x[1]:
                        flat.extend(alt)
            I.store_to(st, r.alloc, r.path, It("rep", list(dict.fromkeys(flat))) if flat else It("exact", ()), False, body, ln)
            if may_none:
                res = join(res, externs.none())
            return res
        return externs.iter_next(I, st, depth, callee, args, body, ln)

    # ---- strings --------------------------------------------------------------
    def m_to_lowercase(self, I, st, depth, callee, args, body, ln):
        v = externs.deref(I, st, args[0]) if isinstance(args[0], Ref) else args[0]
        if isinstance(v, Str):
            return Str(v.s.lower())
        if isinstance(v, Opaque) and isinstance(v.tag, tuple) and v.tag[0] == "lex":
            return Opaque(("lex", v.tag[1], True, v.tag[3]))
        return Opaque(("lex", None, True, 0))

    def m_identity_deref(self, I, st, depth, callee, args, body, ln):
        v = args[0]
        if isinstance(v, Ref):
            return I.load(st, v.alloc, v.path)
        return v

    def _lex_may_equal(self, tag, lit):
        _, rule, lower, skip = tag
        if rule is None or skip:
            return True
        cands = {lit, lit.upper(), lit.lower()} if lower else {lit}
        return any(self.g.full_match(rule, c) for c in cands)

    def m_str_eq(self, I, st, depth, callee, args, body, ln):
        a = externs.deref(I, st, args[0]) if isinstance(args[0], Ref) else args[0]
        b = externs.deref(I, st, args[1]) if isinstance(args[1], Ref) else args[1]
        if isinstance(a, Str) and isinstance(b, Str):
            return int(a.s == b.s)
        for x, y in ((a, b), (b, a)):
            if isinstance(x, Opaque) and isinstance(x.tag, tuple) and x.tag[0] == "lex" and isinstance(y, Str):
                return BOOL if self._lex_may_equal(x.tag, y.s) else 0
        return BOOL

    def m_str_from(self, I, st, depth, callee, args, body, ln):
        v = externs.deref(I, st, args[0]) if isinstance(args[0], Ref) else args[0]
        rng = args[1]
        start = rng.f[0] if isinstance(rng, Agg) and rng.f else None
        ga = " ".join(callee.get("ga", []))
        if "RangeFrom" not in ga and "RangeFrom" not in (callee.get("defargs") or ""):
            I.ev("panic", body, ln, {"kind": "str_slice", "callee": callee.get("def"), "msg": "unmodelled str index", "may": True})
            return Opaque(("lex", None, False, 0))
        if isinstance(v, Str) and isinstance(start, int):
            bs = v.s.encode()
            if start <= len(bs) and (start == len(bs) or (bs[start] & 0xC0) != 0x80):
                return Str(bs[start:].decode())
            I.ev("panic", body, ln, {"kind": "str_slice", "callee": callee.get("def"),
                                     "msg": "byte index %r not a char boundary / out of range in %r" % (start, v.s)})
            return BOT
        if isinstance(v, Opaque) and isinstance(v.tag, tuple) and v.tag[0] == "lex" and isinstance(start, int):
            rule = v.tag[1]
            ok = rule is not None and self.prefix_ascii(rule, start)
            self.lex_obligations.append(("str-index", rule, "[%d..]" % start, ok))
            if not ok:
                I.ev("panic", body, ln, {"kind": "str_slice", "callee": callee.get("def"),
                                         "msg": "cannot show that every %s text has %d leading ASCII bytes" % (rule, start),
                                         "may": True})
            return Opaque(("lex", rule, v.tag[2], v.tag[3] + start))
        I.ev("panic", body, ln, {"kind": "str_slice", "callee": callee.get("def"), "msg": "unknown string sliced", "may": True})
        return Opaque(("lex", None, False, 0))

    def prefix_ascii(self, rule, n):
        """every string of L(rule) starts with n fixed ASCII characters (a literal prefix)"""
        e = self.g.need(rule)["e"]
        lit = self.literal_prefix(e)
        return lit is not None and len(lit) >= n and all(ord(c) < 128 for c in lit[:n])

    def literal_prefix(self, e):
        k = e["k"]
        if k in ("str", "insens"):
            return e["s"]
        if k == "seq":
            a = self.literal_prefix(e["a"])
            return a
        if k == "ident" and e["s"] in self.g.rules:
            return self.literal_prefix(self.g.rules[e["s"]]["e"])
        if k == "choice":
            a = self.literal_prefix(e["a"])
            b = self.literal_prefix(e["b"])
            if a is None or b is None:
                return None
            n = 0
            while n < len(a) and n < len(b) and a[n] == b[n]:
                n += 1
            return a[:n]
        return None

    def numeric_bound(self, rule, skip, radix):
        """(ok, max_value, nstrings): every string of L(rule) after `skip` characters is a
        non-empty numeral of the radix; its maximal value.  The language is enumerated with
        leading-zero repetitions unrolled 0..2 times (leading zeros do not change the value and
        the digit alphabet of the repetition is checked separately)."""
        e = self.g.need(rule)["e"]
        st = self._digit_class_bound(e, skip, radix)
        if st is not None:
            return True, st[0], st[1]
        strs = self.g.strings(e, max_rep=1, cap=3000000)
        digits = "0123456789abcdefghijklmnopqrstuvwxyz"[:radix]
        mx = 0
        for s in strs:
            t = s[skip:]
            if not t or any(c.lower() not in digits for c in t):
                return False, None, len(strs)
            mx = max(mx, int(t, radix))
        # repetitions may only repeat the digit zero (value preserving)
        ok = self._reps_only_zero(e)
        return ok, mx, len(strs)

    def _digit_class_bound(self, e, skip, radix):
        """structural bound for  PREFIX ~ ( "0"* ~ D{1,n} | "0"+ )  with D the digit class of the radix:
        -> (radix**n - 1, number of digit positions) or None if the shape is different"""
        from .grammar import BUILTIN_CHARS
        want = {2: "ASCII_BIN_DIGIT", 16: "ASCII_HEX_DIGIT", 10: "ASCII_DIGIT", 8: "ASCII_OCT_DIGIT"}.get(radix)
        if e["k"] != "seq" or e["a"]["k"] != "str" or len(e["a"]["s"]) != skip:
            return None
        body = e["b"]
        if body["k"] != "choice":
            return None
        a, b = body["a"], body["b"]
        zero = {"k": "str", "s": "0"}
        # second alternative: "0"+
        if not (b["k"] == "seq" and b["a"] == zero and b["b"] == {"k": "rep", "e": zero}):
            return None
        if not (a["k"] == "seq" and a["a"] == {"k": "rep", "e": zero}):
            return None
        chain = a["b"]
        n = 0
        d = {"k": "ident", "s": want}
        if chain == d:
            return radix - 1, 1
        if not (chain["k"] == "seq" and chain["a"] == d):
            return None
        n = 1
        cur = chain["b"]
        while True:
            if cur == {"k": "opt", "e": d}:
                n += 1
                break
            if cur["k"] == "seq" and cur["a"] == {"k": "opt", "e": d}:
                n += 1
                cur = cur["b"]
                continue
            return None
        return radix ** n - 1, n

    def _reps_only_zero(self, e):
        k = e["k"]
        if k == "rep":
            return e["e"] == {"k": "str", "s": "0"}
        if k in ("seq", "choice"):
            return self._reps_only_zero(e["a"]) and self._reps_only_zero(e["b"])
        if k in ("opt",):
            return self._reps_only_zero(e["e"])
        if k == "ident" and e["s"] in self.g.rules:
            return self._reps_only_zero(self.g.rules[e["s"]]["e"])
        return True

    def _parse_int(self, I, st, v, ty, radix, body, ln, callee):
        lo, hi = D.ty_range(ty)
        if isinstance(v, Str):
            try:
                if v.s.startswith("+"):
                    x = int(v.s[1:], radix)
                else:
                    x = int(v.s, radix)
                if "_" in v.s or v.s.strip() != v.s or not v.s:
                    raise ValueError
                if lo <= x <= hi:
                    return En({0: (x,)})
            except ValueError:
                pass
            return En({1: (TOP,)})
        if isinstance(v, Opaque) and isinstance(v.tag, tuple) and v.tag[0] == "lex" and v.tag[1] is not None:
            rule, lower, skip = v.tag[1], v.tag[2], v.tag[3]
            try:
                ok, mx, n = self.numeric_bound(rule, skip, radix)
            except AnchorMissing:
                ok, mx, n = False, None, 0
            good = ok and mx is not None and mx <= hi
            self.lex_obligations.append(("numeric", rule, "radix %d after %d chars into %s: max %s over %d numerals"
                                         % (radix, skip, ty, mx, n), good))
            if good:
                return En({0: (D.norm_rng(0, mx),)})
            return En({0: (D.top_of_int(ty),), 1: (TOP,)})
        return En({0: (D.top_of_int(ty),), 1: (TOP,)})

    def m_from_str_radix(self, I, st, depth, callee, args, body, ln):
        ty = externs._int_ty_of(callee)
        v = externs.deref(I, st, args[0]) if isinstance(args[0], Ref) else args[0]
        radix = args[1]
        if ty not in D.INT_TYPES or not isinstance(radix, int):
            return En({0: (TOP,), 1: (TOP,)})
        return self._parse_int(I, st, v, ty, radix, body, ln, callee)

    def m_parse(self, I, st, depth, callee, args, body, ln):
        ga = callee.get("ga", [])
        ty = ga[0] if ga else None
        v = externs.deref(I, st, args[0]) if isinstance(args[0], Ref) else args[0]
        if ty in D.INT_TYPES:
            return self._parse_int(I, st, v, ty, 10, body, ln, callee)
        return En({0: (TOP,), 1: (TOP,)})

    def m_trim(self, I, st, depth, callee, args, body, ln):
        return Opaque(("lex", None, False, 0))
