"""A1-A3: CFG utilities, dominators, call graph, field-writer index, guards."""
from .absint import block_succs, LOG_MACROS


def succs(body):
    if body._succ is None:
        body._succ = [block_succs(b["t"]) for b in body.blocks]
    return body._succ


def preds(body):
    if body._pred is None:
        pr = [[] for _ in body.blocks]
        for i, ss in enumerate(succs(body)):
            for s in ss:
                pr[s].append(i)
        body._pred = pr
    return body._pred


def reachable_blocks(body):
    sc = succs(body)
    seen = {0}
    stack = [0]
    while stack:
        b = stack.pop()
        for s in sc[b]:
            if s not in seen:
                seen.add(s)
                stack.append(s)
    return seen


def dominators(body):
    """dom[b] = set of blocks dominating b (on the non-unwinding CFG)"""
    if body._dom is not None:
        return body._dom
    n = len(body.blocks)
    reach = reachable_blocks(body)
    pr = preds(body)
    full = set(reach)
    dom = {b: set(full) for b in reach}
    dom[0] = {0}
    changed = True
    order = sorted(reach)
    while changed:
        changed = False
        for b in order:
            if b == 0:
                continue
            ps = [p for p in pr[b] if p in reach]
            new = None
            for p in ps:
                new = set(dom[p]) if new is None else (new & dom[p])
            new = (new or set()) | {b}
            if new != dom[b]:
                dom[b] = new
                changed = True
    body._dom = dom
    return dom


def postdominators(body, exits=None):
    """pdom[b] = set of blocks post-dominating b w.r.t. the return blocks
    (blocks that cannot reach a return are post-dominated by everything)."""
    sc = succs(body)
    reach = reachable_blocks(body)
    if exits is None:
        exits = [b for b in reach if body.blocks[b]["t"]["k"] == "ret"]
    full = set(reach)
    pdom = {b: set(full) for b in reach}
    for e in exits:
        pdom[e] = {e}
    changed = True
    while changed:
        changed = False
        for b in sorted(reach, reverse=True):
            if b in exits:
                continue
            ss = [s for s in sc[b] if s in reach]
            new = None
            for s in ss:
                new = set(pdom[s]) if new is None else (new & pdom[s])
            if new is None:
                new = set(full)   # diverging block
            new = new | {b}
            if new != pdom[b]:
                pdom[b] = new
                changed = True
    return pdom


def calls_in(body):
    """[(bb, term)] for every call terminator in reachable blocks"""
    out = []
    for bb in sorted(reachable_blocks(body)):
        t = body.blocks[bb]["t"]
        if t["k"] == "call":
            out.append((bb, t))
    return out


def callee_name(t):
    f = t["f"]
    if "indirect" in f:
        return None
    return f.get("res") or f.get("def")


def callee_def(t):
    f = t["f"]
    if "indirect" in f:
        return None
    return f.get("def")


def in_log_macro(item):
    return bool(set(item.get("mx", ())) & LOG_MACROS)


def macro_names(item):
    return item.get("mx", [])


def call_graph(p):
    """path -> set of callee paths (resolved, local or foreign); closures are
    linked from the function that creates them."""
    g = {}
    for path, b in p.bodies.items():
        out = set()
        for blk in b.blocks:
            t = blk["t"]
            if t["k"] == "call":
                c = callee_name(t)
                if c:
                    out.add(c)
                # closures / fn items passed as arguments
                for a in t["args"]:
                    k = a.get("k")
                    if k and "fn" in k:
                        out.add(k["fn"].get("res") or k["fn"]["def"])
            for s in blk["s"]:
                if s["k"] == "assign":
                    r = s["r"]
                    if r["k"] == "agg" and r.get("ak") == "closure":
                        out.add(r["name"])
                    for o in _rvalue_operands(r):
                        k = o.get("k")
                        if k and "fn" in k:
                            out.add(k["fn"].get("res") or k["fn"]["def"])
        g[path] = out
    return g


def _rvalue_operands(r):
    k = r["k"]
    if k in ("use", "cast", "repeat"):
        return [r["o"]]
    if k == "bin":
        return [r["a"], r["b"]]
    if k == "un":
        return [r["a"]]
    if k == "agg":
        return r["fields"]
    return []


def reachable_fns(p, roots, graph=None):
    g = graph or call_graph(p)
    seen = set()
    stack = [r for r in roots]
    while stack:
        f = stack.pop()
        if f in seen:
            continue
        seen.add(f)
        for c in g.get(f, ()):
            if c not in seen:
                stack.append(c)
    return seen


# ---------------------------------------------------------------------------
# field writer index

def place_fields(place):
    """[(adt, field_name)] for the named field projections of a place, in order"""
    out = []
    for pe in place["p"]:
        if isinstance(pe, dict) and "f" in pe and "n" in pe:
            out.append((pe.get("adt"), pe["n"]))
    return out


def last_field(place):
    fs = place_fields(place)
    return fs[-1] if fs else None


def field_writers(p, adt, field, crates=("L", "B")):
    """All syntactic write sites of field `adt::field` in the analysed crates:
    assignments to a place that projects the field (the field itself or a
    sub-place of it) and mutable borrows of such a place.  Returns a list of
    dicts {body, bb, ln, kind, place, exact}."""
    out = []
    for path, b in p.bodies.items():
        if b.crate not in crates:
            continue
        reach = reachable_blocks(b)
        for bb in sorted(reach):
            blk = b.blocks[bb]
            for s in blk["s"]:
                if s["k"] == "assign" or s["k"] == "setdiscr":
                    fs = place_fields(s["p"])
                    if (adt, field) in fs:
                        out.append({"body": path, "bb": bb, "ln": s["ln"], "kind": "assign",
                                    "place": s["p"], "exact": fs[-1] == (adt, field),
                                    "stmt": s})
                    if s["k"] == "assign":
                        r = s["r"]
                        if r["k"] in ("ref", "rawptr") and ("mut" in str(r.get("bk")).lower()):
                            fs = place_fields(r["p"])
                            if (adt, field) in fs:
                                out.append({"body": path, "bb": bb, "ln": s["ln"], "kind": "mut_borrow",
                                            "place": r["p"], "exact": fs[-1] == (adt, field),
                                            "stmt": s})
            t = blk["t"]
            if t["k"] == "call":
                fs = place_fields(t["dest"])
                if (adt, field) in fs:
                    out.append({"body": path, "bb": bb, "ln": t["ln"], "kind": "call_dest",
                                "place": t["dest"], "exact": fs[-1] == (adt, field), "stmt": t})
    return out


def whole_writers(p, adt, crates=("L", "B")):
    """Sites that assign a whole value of type `adt` through a dereference
    (`*self = ...`) or construct an aggregate of it."""
    out = []
    for path, b in p.bodies.items():
        if b.crate not in crates:
            continue
        for bb in sorted(reachable_blocks(b)):
            blk = b.blocks[bb]
            for s in blk["s"]:
                if s["k"] != "assign":
                    continue
                pl = s["p"]
                r = s["r"]
                if r["k"] == "agg" and r.get("ak") == "adt" and r.get("name") == adt:
                    out.append({"body": path, "bb": bb, "ln": s["ln"], "kind": "aggregate", "stmt": s})
                elif pl["p"] and pl["p"][-1] == "*":
                    lt = b.locals[pl["l"]]["ty"]
                    if len(pl["p"]) == 1 and lt.replace("&mut ", "").replace("&", "").strip() == adt:
                        out.append({"body": path, "bb": bb, "ln": s["ln"], "kind": "whole_assign", "stmt": s})
    return out


# ---------------------------------------------------------------------------
# guards (A3)

def edge_conditions(body, bb):
    """For block bb: list of (switch_block, taken_value_or_'else', term) for every
    SwitchInt block that dominates bb and whose taken edge is determined, i.e.
    exactly one successor of the switch dominates-or-equals bb."""
    dom = dominators(body)
    out = []
    if bb not in dom:
        return out
    for d in sorted(dom[bb]):
        if d == bb:
            continue
        t = body.blocks[d]["t"]
        if t["k"] != "switch":
            continue
        taken = []
        for v, tgt in t["vals"]:
            if tgt in dom[bb] or tgt == bb:
                if _edge_dominates(body, d, tgt, bb):
                    taken.append(v)
        if t["else"] in dom[bb] or t["else"] == bb:
            if _edge_dominates(body, d, t["else"], bb):
                taken.append("else")
        if len(taken) == 1:
            out.append((d, taken[0], t))
    return out


def _edge_dominates(body, src, tgt, bb):
    # the edge src->tgt dominates bb if tgt dominates bb and tgt's only way in
    # (among blocks reaching it) is consistent; approximation: tgt dominates bb
    # and tgt has src as its only predecessor or is bb itself
    dom = dominators(body)
    if tgt != bb and tgt not in dom[bb]:
        return False
    pr = [x for x in preds(body)[tgt] if x in dom]
    return len(pr) == 1 and pr[0] == src


def local_def_sites(body, local):
    """[(bb, idx or 'term', item)] of assignments defining `local` (whole local)"""
    out = []
    for bb, blk in enumerate(body.blocks):
        for i, s in enumerate(blk["s"]):
            if s["k"] == "assign" and s["p"]["l"] == local and not s["p"]["p"]:
                out.append((bb, i, s))
        t = blk["t"]
        if t["k"] == "call" and t["dest"]["l"] == local and not t["dest"]["p"]:
            out.append((bb, "term", t))
    return out


def const_of(op):
    k = op.get("k")
    if k is not None and "v" in k:
        return k["v"]
    return None


def place_of(op):
    return op.get("c") or op.get("m")
