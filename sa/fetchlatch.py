"""Every IR-loading control word latches exactly the byte read from the bus (shared by C01 and C09): the routine that
runs next - and therefore what the "instruction" does - is selected by the IR, also after STOP + continue."""


def obligations(ctx, prefix=""):
    chk = ctx.chk
    g = ctx.graph
    # the routine entered is selected by the IR: every IR-loading word must latch exactly the byte read,
    # also on the edge at which that byte halts the machine (the continue key resumes from this IR)
    nl = 0
    for a in sorted(g.prog):
        if not g.is_load(a):
            continue
        nl += 1
        h = g.front[a].get("halts", {})
        # (byte 0x00 error-stops; only a reset, which sets the IR itself, leaves that state: its latch is not constrained)
        ok = h.get("0x01", {}).get("ir") == 1 and h.get("other", {}).get("ir") == list(range(2, 256))
        chk.ob(prefix + "ir-latches-fetched-byte/%#05x" % a, ok,
               "an IR-loading word latches exactly the byte read from the bus, for every byte that can be executed (also STOP, which is resumed by the continue key), "
               "so the routine run next is the routine of the fetched opcode", "control word %#05x" % a,
               "IR after the edge per byte class: %s" % {k: (v.get("ir") if not isinstance(v.get("ir"), list) or len(v.get("ir")) < 6
                                                              else "%d values %s..%s" % (len(v["ir"]), v["ir"][0], v["ir"][-1]))
                                                         for k, v in h.items()},
               "A4 of the clock edge per control word with the byte class pinned")
        # the byte it latches is a byte of the program: the word that loads the IR is a word that reads the bus (a word without
        # a bus access leaves the bus latch at 0, which the IR update would take for the opcode 0x00 and error-stop)
        chk.ob(prefix + "ir-load-reads-bus/%#05x" % a, bool(g.mt.word[a]["busen"]) and bool(g.back[a]["bus_read"]),
               "a control word that loads the instruction register reads the byte from the bus in the same word",
               "control word %#05x" % a, "BUSEN=%s, Bus::read reached: %s" % (g.mt.word[a]["busen"], g.back[a]["bus_read"]))
    chk.floor("IR-loading control words", nl, 15)



def stop_edge_advances(ctx, prefix=""):
    """the edge that loads STOP is a complete edge: the sequencer moves on as it does for that opcode, so that the continue
    key (which only sets the state back to Running) resumes with the next instruction (shared by C01, C05, C09)"""
    chk = ctx.chk
    g = ctx.graph
    for a in sorted(g.prog):
        if not g.is_load(a):
            continue
        h = g.front[a].get("halts", {})
        want = sorted({a2 for _pins, a2 in g.mt.succ(a, 1)})
        got = h.get("0x01", {}).get("addr")
        chk.ob(prefix + "stop-edge-advances/%#05x" % a, isinstance(got, list) and bool(got) and set(got) <= set(want),
               "the edge that loads STOP leaves the micro-sequencer at the successor of the fetch word for that opcode "
               "(not on the fetch word), so a continue resumes with the next instruction",
               "control word %#05x" % a, "micro-address after the edge: %s; successors by the next-address logic: %s"
               % ([hex(x) for x in got] if isinstance(got, list) else got, [hex(x) for x in want]),
               "A4 of the clock edge with the loaded byte pinned to 0x01")


def continue_resumes(ctx, prefix=""):
    """the continue key sets a regularly stopped machine back to Running wherever the micro-sequencer stands (the edge
    that loads STOP moves it on to a word that is not a fetch word: a resume that waited for a boundary would never happen)"""
    from . import absint, step
    from .domain import En
    p = ctx.p
    names = [v["n"] for v in p.need_type(step.STATE)["variants"]]
    for ty, fn in ((step.RM, "trigger_key_continue"), (step.MACHINE, "trigger_key_continue")):
        I = absint.Interp(p)
        ov = step.machine_overrides(p, None, "Stopped", None, stacksize_notset=True)
        st, ma, _r = step.run_method(p, I, "%s::%s" % (ty, fn), ov, ty=ty)
        after = step.field(p, I, st, ma, ("" if ty == step.RM else "raw.") + "state", ty=ty)
        got = sorted(names[vi] for vi in after.vs) if isinstance(after, En) else repr(after)
        ctx.chk.ob(prefix + "continue-resumes/%s" % ty.rsplit("::", 1)[-1], got == ["Running"],
                   "the continue key resumes a regularly stopped machine in every micro state", p.need_body("%s::%s" % (ty, fn)).loc(),
                   "state after the key on a stopped machine with everything else unknown: %s" % (got,),
                   "A4 of trigger_key_continue on a machine whose every other field is unknown")


def reset_control_state(ctx, prefix=""):
    """both resets (and through them a program load) leave the micro-sequencer in the power-on control state - micro-address and
    instruction register - whatever the machine was doing: what runs after a reset does not depend on the history before it
    (shared by C09 and C15). -> (power-on micro-address, power-on IR)"""
    from . import absint, step
    from .facts import AnchorMissing
    chk = ctx.chk
    p = ctx.p
    I = absint.Interp(p)
    st = absint.State()
    m0 = I.run_body(p.need_body(step.RM + "::new"), [], st, 0)
    ma = I.new_alloc(st, "machine", m0)
    a0 = step.field(p, I, st, ma, "microprogram_ram.current_index")
    i0 = step.field(p, I, st, ma, "instruction_register.content.bits")
    if not (isinstance(a0, int) and isinstance(i0, int)):
        raise AnchorMissing("power-on micro-address / IR not constant: %r %r" % (a0, i0))
    chk.note("power-on control state: micro-address %#x, IR %#x (constant-propagated from RawMachine::new)" % (a0, i0))

    # "from reset": both resets and a program load leave the sequencer in that same control state, whatever the
    # machine was doing (the dispatch of control word 0 depends on the IR: a stale opcode would select another routine)
    for ty, meth in ((step.RM, "cpu_reset"), (step.RM, "master_reset"), (step.MACHINE, "cpu_reset"), (step.MACHINE, "master_reset")):
        I2 = absint.Interp(p)
        ov = step.machine_overrides(p, None, ["Running", "Stopped", "ErrorStopped"], None)
        ov["instruction_register.content.bits"] = frozenset(range(256))
        st2, ma2, _r = step.run_method(p, I2, "%s::%s" % (ty, meth), ov, ty=ty)
        pre = "" if ty == step.RM else "raw."
        a1 = step.field(p, I2, st2, ma2, pre + "microprogram_ram.current_index", ty=ty)
        i1 = step.field(p, I2, st2, ma2, pre + "instruction_register.content.bits", ty=ty)
        nm = "%s::%s" % (ty.rsplit("::", 1)[-1], meth)
        chk.ob(prefix + "reset-control-state/%s" % nm, a1 == a0 and i1 == i0,
               "a reset puts the sequencer into the power-on control state (micro-address and instruction register), "
               "from any state", p.need_body("%s::%s" % (ty, meth)).loc(),
               "after the call: micro-address %r, IR %r; power-on: %#x, %#x" % (a1, i1, a0, i0),
               "A4 of the reset on a machine with every field unknown")

    return a0, i0


def boundary_predicate(ctx, prefix=""):
    """"instruction boundary" is what RawMachine::is_instruction_done (and its Machine wrapper) says: true exactly on the
    fetch words (MAC3) of the control store, for every programmed control word (shared by C15 and C11)"""
    from . import absint, step
    p, chk, g = ctx.p, ctx.chk, ctx.graph
    bad = []
    n = 0
    for ty, fn in ((step.RM, "is_instruction_done"), (step.MACHINE, "is_instruction_done")):
        body = p.bodies.get("%s::%s" % (ty, fn))
        if body is None:
            continue
        for a in sorted(g.prog):
            I = absint.Interp(p)
            ov = step.machine_overrides(p, a, None, None, stacksize_notset=True)
            st, ma, r = step.run_method(p, I, "%s::%s" % (ty, fn), ov, ty=ty)
            n += 1
            want = a in g.done
            if r not in (int(want), bool(want)) or isinstance(r, frozenset):
                bad.append("%s at word %#05x says %r, the word %s a fetch word" % (ty.rsplit("::", 1)[-1], a, r, "is" if want else "is not"))
    chk.ob(prefix + "boundary-predicate", not bad and n >= 200,
           "is_instruction_done is true exactly on the fetch words of the control store (for every programmed control word)",
           p.need_body(step.RM + "::is_instruction_done").loc(), "; ".join(bad[:3]) or "%d (function, word) cases" % n,
           "A4 of is_instruction_done with the micro-address pinned, per programmed control word")
