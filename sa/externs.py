"""Models of foreign (core/alloc/std and a few third-party) functions for the
abstract interpreter.  This table is part of the trusted base: each entry
states the function's effect on the abstract domain by name.

A model has the signature  m(interp, state, depth, callee, args, body, ln) -> value
and returns BOT when the function diverges.
"""
import re

from . import domain as D
from .domain import (TOP, BOT, Agg, En, Arr, ArrS, Ref, FnV, Str, Opaque, Rng, Fl,
                     join, is_scalar)

NONE = 0
SOME = 1
OK = 0
ERR = 1

BOOL = frozenset((0, 1))


def none():
    return En({NONE: ()})


def some(v):
    return En({SOME: (v,)})


def opt_parts(v):
    """-> (may_none, payload or None)"""
    if isinstance(v, En):
        may_none = NONE in v.vs
        payload = v.vs[SOME][0] if SOME in v.vs else None
        return may_none, payload, True
    return True, TOP, False


def deref(I, st, v):
    if isinstance(v, Ref):
        return I.load(st, v.alloc, v.path)
    return TOP


def _panic(kind):
    def m(I, st, depth, callee, args, body, ln):
        I.ev("panic", body, ln, {"kind": kind, "callee": callee.get("def"),
                                 "msg": _msg_of(I, st, args)})
        return BOT
    return m


def _msg_of(I, st, args):
    for a in args:
        if isinstance(a, Str):
            return a.s
        if isinstance(a, Ref):
            v = I.load(st, a.alloc, a.path)
            if isinstance(v, Str):
                return v.s
    return None


# ---------------------------------------------------------------------------
# Option / Result

def opt_take(I, st, depth, callee, args, body, ln):
    r = args[0]
    if isinstance(r, Ref):
        old = I.load(st, r.alloc, r.path)
        I.store_to(st, r.alloc, r.path, none(), False, body, ln)
        return old
    return TOP


def opt_replace(I, st, depth, callee, args, body, ln):
    r = args[0]
    if isinstance(r, Ref):
        old = I.load(st, r.alloc, r.path)
        I.store_to(st, r.alloc, r.path, En({1: (args[1],)}), False, body, ln)
        return old
    return TOP


def opt_insert(I, st, depth, callee, args, body, ln):
    r = args[0]
    if isinstance(r, Ref):
        I.store_to(st, r.alloc, r.path, En({1: (args[1],)}), False, body, ln)
        return Ref(r.alloc, r.path + (("v", 1), 0), True) if False else TOP
    return TOP


def opt_is_some(I, st, depth, callee, args, body, ln):
    v = deref(I, st, args[0])
    mn, pl, known = opt_parts(v)
    if not known:
        return BOOL
    out = set()
    if mn:
        out.add(0)
    if pl is not None:
        out.add(1)
    return D.norm_set(frozenset(out))


def opt_is_none(I, st, depth, callee, args, body, ln):
    v = opt_is_some(I, st, depth, callee, args, body, ln)
    return D.unop("Not", v, "bool")


def opt_as_ref(I, st, depth, callee, args, body, ln):
    r = args[0]
    if isinstance(r, Ref):
        v = I.load(st, r.alloc, r.path)
        if isinstance(v, En):
            vs = {}
            if NONE in v.vs:
                vs[NONE] = ()
            if SOME in v.vs:
                vs[SOME] = (Ref(r.alloc, r.path + (("d", SOME), 0), r.mut),)
            return En(vs)
    return TOP


def _expect_like(kind):
    def m(I, st, depth, callee, args, body, ln):
        v = args[0]
        if isinstance(v, En):
            # Option: variant 1 = Some ; Result: variant 0 = Ok
            is_result = "result" in callee.get("def", "")
            good = OK if is_result else SOME
            bad = [vi for vi in v.vs if vi != good]
            if bad:
                I.ev("panic", body, ln, {"kind": kind, "callee": callee.get("def"),
                                         "msg": _msg_of(I, st, args[1:]), "may": good in v.vs})
            if good in v.vs:
                return v.vs[good][0] if v.vs[good] else Agg(())
            return BOT
        I.ev("panic", body, ln, {"kind": kind, "callee": callee.get("def"),
                                 "msg": _msg_of(I, st, args[1:]), "may": True, "unknown_value": True})
        return TOP
    return m


def opt_or_else(I, st, depth, callee, args, body, ln):
    v, f = args[0], args[1]
    mn, pl, known = opt_parts(v)
    res = BOT
    if pl is not None:
        res = join(res, some(pl) if known else TOP)
    if mn:
        r = I.call_value(st, depth, f, [], body, ln)
        res = join(res, r)
    return res


def opt_filter(I, st, depth, callee, args, body, ln):
    v, f = args[0], args[1]
    mn, pl, known = opt_parts(v)
    if not known:
        return TOP
    res = BOT
    if mn:
        res = none()
    if pl is not None:
        r_ = _tmp_ref(I, st, pl)
        keep = I.call_value(st, depth, f, [r_], body, ln)
        st.store.pop(r_.alloc, None)
        if keep != 0:
            res = join(res, some(pl))
        if keep != 1:
            res = join(res, none())
    return res


def opt_map(I, st, depth, callee, args, body, ln):
    v, f = args[0], args[1]
    mn, pl, known = opt_parts(v)
    res = BOT
    if mn and known:
        res = none()
    if pl is not None:
        r = I.call_value(st, depth, f, [pl], body, ln)
        res = join(res, some(r) if r is not BOT else BOT)
    if not known:
        return TOP
    return res


def opt_and_then(I, st, depth, callee, args, body, ln):
    v, f = args[0], args[1]
    mn, pl, known = opt_parts(v)
    res = BOT
    if mn and known:
        res = none()
    if pl is not None:
        r = I.call_value(st, depth, f, [pl], body, ln)
        res = join(res, r)
    if not known:
        return TOP
    return res


def opt_unwrap_or(I, st, depth, callee, args, body, ln):
    v, d = args[0], args[1]
    mn, pl, known = opt_parts(v)
    res = BOT
    if pl is not None:
        res = join(res, pl)
    if mn:
        res = join(res, d)
    return res


def opt_unwrap_or_else(I, st, depth, callee, args, body, ln):
    v, f = args[0], args[1]
    mn, pl, known = opt_parts(v)
    if not known:
        return TOP
    res = BOT
    if pl is not None:
        res = join(res, pl)
    if mn:
        res = join(res, I.call_value(st, depth, f, [], body, ln))
    return res


def opt_map_or(I, st, depth, callee, args, body, ln):
    v, d, f = args[0], args[1], args[2]
    mn, pl, known = opt_parts(v)
    if not known:
        return TOP
    res = BOT
    if pl is not None:
        res = join(res, I.call_value(st, depth, f, [pl], body, ln))
    if mn:
        res = join(res, d)
    return res


def opt_cloned(I, st, depth, callee, args, body, ln):
    v = args[0]
    if isinstance(v, En):
        vs = {}
        if NONE in v.vs:
            vs[NONE] = ()
        if SOME in v.vs:
            vs[SOME] = (deref(I, st, v.vs[SOME][0]),)
        return En(vs)
    return TOP


def res_ok(I, st, depth, callee, args, body, ln):
    v = args[0]
    if isinstance(v, En):
        vs = {}
        if OK in v.vs:
            vs[SOME] = v.vs[OK]
        if ERR in v.vs:
            vs[NONE] = ()
        return En(vs)
    return TOP


def res_map(I, st, depth, callee, args, body, ln):
    v, f = args[0], args[1]
    if isinstance(v, En):
        vs = {}
        if ERR in v.vs:
            vs[ERR] = v.vs[ERR]
        if OK in v.vs:
            r = I.call_value(st, depth, f, [v.vs[OK][0]], body, ln)
            if r is not BOT:
                vs[OK] = (r,)
        return En(vs) if vs else BOT
    return TOP


def res_map_err(I, st, depth, callee, args, body, ln):
    v, f = args[0], args[1]
    if isinstance(v, En):
        vs = {}
        if OK in v.vs:
            vs[OK] = v.vs[OK]
        if ERR in v.vs:
            r = I.call_value(st, depth, f, [v.vs[ERR][0]], body, ln)
            vs[ERR] = (r if r is not BOT else TOP,)
        return En(vs) if vs else BOT
    return TOP


# ---------------------------------------------------------------------------
# mem

def mem_replace(I, st, depth, callee, args, body, ln):
    r, new = args[0], args[1]
    if isinstance(r, Ref):
        old = I.load(st, r.alloc, r.path)
        I.store_to(st, r.alloc, r.path, new, False, body, ln)
        return old
    return TOP


def mem_take(I, st, depth, callee, args, body, ln):
    r = args[0]
    if isinstance(r, Ref):
        old = I.load(st, r.alloc, r.path)
        I.store_to(st, r.alloc, r.path, TOP, False, body, ln)
        return old
    return TOP


# ---------------------------------------------------------------------------
# integer helpers

def _int_ty_of(callee):
    d = callee.get("def", "")
    m = re.search(r"::num::<impl (\w+)>::", d)
    if m:
        return m.group(1)
    m = re.match(r"^(?:core|std)::(\w+)::", d)
    return None


def _overflowing(op):
    def m(I, st, depth, callee, args, body, ln):
        ty = _int_ty_of(callee)
        if ty not in D.INT_TYPES:
            return TOP
        return D.binop(op + "WithOverflow", args[0], args[1], ty)
    return m


def _overflowing_shift(op):
    def m(I, st, depth, callee, args, body, ln):
        ty = _int_ty_of(callee)
        if ty not in D.INT_TYPES:
            return TOP
        bits = D.INT_TYPES[ty][0]
        a, b = args[0], args[1]
        if not (is_scalar(a) and is_scalar(b)):
            return Agg((D.top_of_int(ty), BOOL))
        vb = D.values(b)
        if vb is None:
            return Agg((D.top_of_int(ty), BOOL))
        res = BOT
        ovf = set()
        for y in vb:
            ovf.add(int(not (0 <= y < bits)))
            res = join(res, D.binop(op, a, y % bits, ty))
        return Agg((res, D.norm_set(frozenset(ovf))))
    return m


def _wrapping(op):
    def m(I, st, depth, callee, args, body, ln):
        ty = _int_ty_of(callee)
        if ty not in D.INT_TYPES:
            return TOP
        return D.binop(op, args[0], args[1], ty)
    return m


def _saturating(op):
    def m(I, st, depth, callee, args, body, ln):
        ty = _int_ty_of(callee)
        if ty not in D.INT_TYPES:
            return TOP
        a, b = args[0], args[1]
        if not (is_scalar(a) and is_scalar(b)):
            return D.top_of_int(ty)
        lo, hi = D.ty_range(ty)
        la, ha = D.bounds(a)
        lb, hb = D.bounds(b)
        if D._pairs_ok(a, b):
            out = set()
            for x in D.values(a):
                for y in D.values(b):
                    r = x + y if op == "Add" else x - y
                    out.add(max(lo, min(hi, r)))
            return D.norm_set(frozenset(out))
        if op == "Add":
            return D.norm_rng(max(lo, min(hi, la + lb)), max(lo, min(hi, ha + hb)))
        return D.norm_rng(max(lo, min(hi, la - hb)), max(lo, min(hi, ha - lb)))
    return m


def _checked(op):
    def m(I, st, depth, callee, args, body, ln):
        ty = _int_ty_of(callee)
        if ty not in D.INT_TYPES:
            return TOP
        r = D.binop(op + "WithOverflow", args[0], args[1], ty)
        if isinstance(r, Agg):
            val, of = r.f
            vs = {}
            if D.contains(of, 0):
                vs[SOME] = (val,)
            if D.contains(of, 1):
                vs[NONE] = ()
            return En(vs)
        return TOP
    return m


def _rotate(direction):
    def m(I, st, depth, callee, args, body, ln):
        ty = _int_ty_of(callee)
        if ty not in D.INT_TYPES:
            return TOP
        bits = D.INT_TYPES[ty][0]
        a, n = args[0], args[1]
        va, vn = (D.values(a) if is_scalar(a) else None), (D.values(n) if is_scalar(n) else None)
        if va is None or vn is None or len(list(vn)) > 64:
            return D.top_of_int(ty)
        mask = (1 << bits) - 1
        out = set()
        for x in va:
            x &= mask
            for k in vn:
                k %= bits
                if direction == "r":
                    out.add(((x >> k) | (x << (bits - k))) & mask)
                else:
                    out.add(((x << k) | (x >> (bits - k))) & mask)
        return D.norm_set(frozenset(out))
    return m


def int_from_str_radix(I, st, depth, callee, args, body, ln):
    ty = _int_ty_of(callee)
    if ty in D.INT_TYPES:
        return En({OK: (D.top_of_int(ty),), ERR: (TOP,)})
    return TOP


# ---------------------------------------------------------------------------
# floats

def f_max(I, st, depth, callee, args, body, ln):
    a, b = D.fl_of(args[0]), D.fl_of(args[1])
    # f32::max ignores a NaN operand
    lo = max(a.lo, b.lo)
    hi = max(a.hi, b.hi)
    if a.nan:
        lo = min(lo, b.lo)
    if b.nan:
        lo = min(lo, a.lo)
    return Fl(lo, hi, a.nan and b.nan)


def f_is_nan(I, st, depth, callee, args, body, ln):
    a = D.fl_of(args[0])
    only_nan = a.nan and (a.lo != a.lo or a.lo > a.hi)
    if not a.nan:
        return 0
    if only_nan:
        return 1
    return BOOL


def f_clamp(I, st, depth, callee, args, body, ln):
    a, lo, hi = D.fl_of(args[0]), D.fl_of(args[1]), D.fl_of(args[2])
    # f32::clamp keeps NaN and panics only for lo > hi / NaN bounds (not modelled: bounds are constants here)
    return Fl(min(max(a.lo, lo.lo), hi.hi), max(min(a.hi, hi.hi), lo.lo), a.nan)


def slice_iter_mut(I, st, depth, callee, args, body, ln):
    r = args[0]
    if isinstance(r, Ref):
        return _iter_of_value(I.load(st, r.alloc, r.path), Ref(r.alloc, r.path, True))
    return It("rep", [TOP])


def f_min(I, st, depth, callee, args, body, ln):
    a, b = D.fl_of(args[0]), D.fl_of(args[1])
    lo = min(a.lo, b.lo)
    hi = min(a.hi, b.hi)
    if a.nan:
        hi = max(hi, b.hi)
    if b.nan:
        hi = max(hi, a.hi)
    return Fl(lo, hi, a.nan and b.nan)


def range_incl_new(I, st, depth, callee, args, body, ln):
    # RangeInclusive { start, end, exhausted }
    return Agg((args[0], args[1], 0))


def range_incl_contains(I, st, depth, callee, args, body, ln):
    r = deref(I, st, args[0])
    x = deref(I, st, args[1])
    if isinstance(r, Agg) and len(r.f) >= 2:
        lo, hi = r.f[0], r.f[1]
        if isinstance(x, Fl) or isinstance(lo, Fl):
            c1 = D.fcmp("Le", lo, x)
            c2 = D.fcmp("Le", x, hi)
        elif is_scalar(x) and is_scalar(lo) and is_scalar(hi):
            c1 = D.cmpop("Le", lo, x)
            c2 = D.cmpop("Le", x, hi)
        else:
            return BOOL
        out = set()
        if D.contains(c1, 1) and D.contains(c2, 1):
            out.add(1)
        if D.contains(c1, 0) or D.contains(c2, 0):
            out.add(0)
        # exact: both definitely true
        if c1 == 1 and c2 == 1:
            return 1
        return D.norm_set(frozenset(out))
    return BOOL


def range_contains(I, st, depth, callee, args, body, ln):
    """core::ops::Range::contains: start <= x < end"""
    r = deref(I, st, args[0])
    x = deref(I, st, args[1])
    if isinstance(r, Agg) and len(r.f) >= 2:
        lo, hi = r.f[0], r.f[1]
        if isinstance(x, Fl) or isinstance(lo, Fl):
            c1 = D.fcmp("Le", lo, x)
            c2 = D.fcmp("Lt", x, hi)
        elif is_scalar(x) and is_scalar(lo) and is_scalar(hi):
            c1 = D.cmpop("Le", lo, x)
            c2 = D.cmpop("Lt", x, hi)
        else:
            return BOOL
        if c1 == 1 and c2 == 1:
            return 1
        out = set()
        if D.contains(c1, 1) and D.contains(c2, 1):
            out.add(1)
        if D.contains(c1, 0) or D.contains(c2, 0):
            out.add(0)
        return D.norm_set(frozenset(out))
    return BOOL


# ---------------------------------------------------------------------------
# conversions

PRIMS = set(D.INT_TYPES) | {"f32", "f64"}


def conv_from(I, st, depth, callee, args, body, ln):
    """<U as From<T>>::from for primitives and identity"""
    ga = callee.get("ga", [])
    if len(ga) >= 2:
        u, t = ga[0], ga[1]
        if u == t:
            return args[0]
        if u in D.INT_TYPES and t in D.INT_TYPES:
            return D.cast_int(args[0], u, t)
        if u in ("f32", "f64") and t in D.INT_TYPES:
            return D.int_to_float(args[0])
        if u in ("f32", "f64") and t in ("f32", "f64"):
            return args[0]
        if u == "alloc::string::String" and t == "&str":
            return deref(I, st, args[0])
    I.ev("unknown_extern", body, ln, callee.get("defargs"))
    return TOP


def conv_into(I, st, depth, callee, args, body, ln):
    """<T as Into<U>>::into  ==  <U as From<T>>::from (resolved by the driver)"""
    ga = callee.get("ga", [])
    tgt = callee.get("into_from")
    if tgt is not None and tgt in I.p.bodies:
        return I.call_fn(st, depth, {"def": tgt, "res": tgt, "local": True, "ik": "Item"},
                         args, body, ln)
    if len(ga) >= 2:
        t, u = ga[0], ga[1]
        if t == u:
            return args[0]
        return conv_from(I, st, depth, {"ga": [u, t], "defargs": callee.get("defargs")}, args, body, ln)
    return TOP


def from_primitive(I, st, depth, callee, args, body, ln):
    """num_traits::FromPrimitive::from_u8 & co: default methods delegating to
    the implementor's from_u64 / from_i64"""
    ga = callee.get("ga", [])
    name = callee.get("def", "").split("::")[-1]
    if ga:
        self_ty = ga[0]
        signed = name in ("from_i8", "from_i16", "from_i32", "from_isize")
        tgt = "from_i64" if signed else "from_u64"
        for tr in ("num_traits::cast::FromPrimitive",):
            path = "<%s as %s>::%s" % (self_ty, tr, tgt)
            if path in I.p.bodies:
                v = args[0]
                v = D.cast_int(v, "i64" if signed else "u64") if is_scalar(v) else v
                return I.call_fn(st, depth, {"def": path, "res": path, "local": True, "ik": "Item"},
                                 [v], body, ln)
    I.ev("unknown_extern", body, ln, callee.get("defargs"))
    return TOP


def clone_prim(I, st, depth, callee, args, body, ln):
    return deref(I, st, args[0])


def struct_eq(a, b):
    """abstract structural equality of two abstract values -> abstract bool"""
    if isinstance(a, Fl) or isinstance(b, Fl):
        return D.fcmp("Eq", a, b)
    if is_scalar(a) and is_scalar(b):
        return D.cmpop("Eq", a, b)
    if isinstance(a, Opaque) and isinstance(b, Opaque) and a == b:
        return 1
    if isinstance(a, Str) and isinstance(b, Str):
        return int(a.s == b.s)
    if isinstance(a, En) and isinstance(b, En):
        out = set()
        for va, fa in a.vs.items():
            for vb, fb in b.vs.items():
                if va != vb:
                    out.add(0)
                elif len(fa) != len(fb):
                    return BOOL
                else:
                    r = 1
                    for x, y in zip(fa, fb):
                        c = struct_eq(x, y)
                        if c == 0:
                            r = 0
                            break
                        if c != 1:
                            r = BOOL
                    if r == 1:
                        out.add(1)
                    elif r == 0:
                        out.add(0)
                    else:
                        out.update((0, 1))
        return D.norm_set(frozenset(out)) if out else BOOL
    if isinstance(a, Agg) and isinstance(b, Agg) and len(a.f) == len(b.f):
        r = 1
        for x, y in zip(a.f, b.f):
            c = struct_eq(x, y)
            if c == 0:
                return 0
            if c != 1:
                r = BOOL
        return r
    return BOOL


def eq_prim(op):
    def m(I, st, depth, callee, args, body, ln):
        ga = callee.get("ga", [])
        if op == "Ne" and ga:
            # default method PartialEq::ne = !eq: follow a local eq impl
            cands = ["<%s as core::cmp::PartialEq>::eq" % ga[0]]
            if len(ga) > 1:
                cands.append("<%s as core::cmp::PartialEq<%s>>::eq" % (ga[0], ga[1]))
            for path in cands:
                if path in I.p.bodies:
                    r = I.call_fn(st, depth, {"def": path, "res": path, "local": True, "ik": "Item"},
                                  args, body, ln)
                    if is_scalar(r):
                        return D.unop("Not", r, "bool")
                    return BOOL
        a = deref(I, st, args[0])
        b = deref(I, st, args[1])
        if isinstance(a, Ref) or isinstance(b, Ref):
            a = deref(I, st, a) if isinstance(a, Ref) else a
            b = deref(I, st, b) if isinstance(b, Ref) else b
        if isinstance(a, Fl) or isinstance(b, Fl):
            return D.fcmp(op, a, b)
        if is_scalar(a) and is_scalar(b):
            return D.cmpop(op, a, b)
        if isinstance(a, Str) and isinstance(b, Str):
            r = a.s == b.s
            return int(r if op == "Eq" else not r)
        if isinstance(a, (En, Agg)) and isinstance(b, (En, Agg)):
            r = struct_eq(a, b)
            return r if op == "Eq" else D.unop("Not", r, "bool")
        return BOOL
    return m


def discriminant_value(I, st, depth, callee, args, body, ln):
    v = deref(I, st, args[0])
    ga = callee.get("ga", [])
    if isinstance(v, En) and ga:
        return I.discr_values(v, ga[0])
    return TOP


def ignore_unit(I, st, depth, callee, args, body, ln):
    return Agg(())


def ignore_top(I, st, depth, callee, args, body, ln):
    return TOP


def identity(I, st, depth, callee, args, body, ln):
    return args[0]


def bool_then(I, st, depth, callee, args, body, ln):
    return TOP


def deref_ref(I, st, depth, callee, args, body, ln):
    # <&T as Deref>::deref(&&T) -> &T
    return deref(I, st, args[0])


TABLE = {
    "core::option::Option::<T>::take": opt_take,
    "core::option::Option::<T>::replace": opt_replace,
    "core::option::Option::<T>::insert": opt_insert,
    "core::option::Option::<T>::is_some": opt_is_some,
    "core::option::Option::<T>::is_none": opt_is_none,
    "core::option::Option::<T>::as_ref": opt_as_ref,
    "core::option::Option::<T>::as_mut": opt_as_ref,
    "core::option::Option::<T>::expect": _expect_like("expect"),
    "core::option::Option::<T>::unwrap": _expect_like("unwrap"),
    "core::result::Result::<T, E>::expect": _expect_like("expect"),
    "core::result::Result::<T, E>::unwrap": _expect_like("unwrap"),
    "core::option::Option::<T>::or_else": opt_or_else,
    "core::option::Option::<T>::filter": opt_filter,
    "core::option::Option::<T>::map": opt_map,
    "core::option::Option::<T>::and_then": opt_and_then,
    "core::option::Option::<T>::unwrap_or": opt_unwrap_or,
    "core::option::Option::<T>::unwrap_or_else": opt_unwrap_or_else,
    "core::option::Option::<T>::map_or": opt_map_or,
    "core::option::Option::<&T>::cloned": opt_cloned,
    "core::option::Option::<&T>::copied": opt_cloned,
    "core::result::Result::<T, E>::ok": res_ok,
    "core::result::Result::<T, E>::map": res_map,
    "core::result::Result::<T, E>::map_err": res_map_err,
    "core::mem::replace": mem_replace,
    "core::mem::take": mem_take,
    "core::cmp::PartialEq::eq": eq_prim("Eq"),
    "core::cmp::PartialEq::ne": eq_prim("Ne"),
    "core::clone::Clone::clone": clone_prim,
    "core::convert::From::from": conv_from,
    "core::convert::Into::into": conv_into,
            "core::f32::<impl f32>::max": f_max,
    "core::f32::<impl f32>::min": f_min,
    "core::f32::<impl f32>::is_nan": f_is_nan,
    "core::f32::<impl f32>::clamp": f_clamp,
    "core::slice::<impl [T]>::iter_mut": slice_iter_mut,
    "core::ops::range::RangeInclusive::<Idx>::new": range_incl_new,
    "core::ops::range::RangeInclusive::<Idx>::contains": range_incl_contains,
    "core::ops::range::Range::<Idx>::contains": range_contains,
    "core::ops::deref::Deref::deref": deref_ref,
    "std::panicking::begin_panic": _panic("panic"),
    "std::rt::begin_panic": _panic("panic"),
    "core::panicking::panic": _panic("panic"),
    "core::panicking::panic_fmt": _panic("panic_fmt"),
    "std::rt::panic_fmt": _panic("panic_fmt"),
    "core::panicking::panic_explicit": _panic("panic"),
    "core::panicking::unreachable_display": _panic("unreachable"),
    "core::panicking::panic_display": _panic("panic"),
    "core::panicking::panic_str_2015": _panic("panic"),
    "core::panicking::assert_failed": _panic("assert_failed"),
    "core::panicking::panic_nounwind": _panic("panic"),
    "core::option::expect_failed": _panic("expect"),
    "core::option::unwrap_failed": _panic("unwrap"),
    "core::result::unwrap_failed": _panic("unwrap"),
    "core::slice::index::slice_index_fail": _panic("slice_index"),
    "core::str::slice_error_fail": _panic("str_slice"),
    "std::process::exit": _panic("exit"),
        "core::intrinsics::cold_path": ignore_unit,
    "core::intrinsics::discriminant_value": discriminant_value,
}

for _ty in ("u8", "u16", "u32", "u64", "usize", "i8", "i16", "i32", "i64", "isize"):
    for _pre in ("core",):
        base = "%s::num::<impl %s>::" % (_pre, _ty)
        TABLE[base + "overflowing_add"] = _overflowing("Add")
        TABLE[base + "overflowing_sub"] = _overflowing("Sub")
        TABLE[base + "overflowing_mul"] = _overflowing("Mul")
        TABLE[base + "overflowing_shr"] = _overflowing_shift("Shr")
        TABLE[base + "overflowing_shl"] = _overflowing_shift("Shl")
        TABLE[base + "wrapping_add"] = _wrapping("Add")
        TABLE[base + "wrapping_sub"] = _wrapping("Sub")
        TABLE[base + "wrapping_mul"] = _wrapping("Mul")
        TABLE[base + "saturating_sub"] = _saturating("Sub")
        TABLE[base + "saturating_add"] = _saturating("Add")
        TABLE[base + "checked_add"] = _checked("Add")
        TABLE[base + "checked_sub"] = _checked("Sub")
        TABLE[base + "checked_mul"] = _checked("Mul")
        TABLE[base + "from_str_radix"] = int_from_str_radix
        TABLE[base + "rotate_right"] = _rotate("r")
        TABLE[base + "rotate_left"] = _rotate("l")

FROM_PRIMITIVE = re.compile(r"(?:^|::)FromPrimitive::from_(u8|u16|u32|usize|i8|i16|i32|isize)$")


def lookup(dfn, res, callee):
    if dfn is None:
        return None
    m = TABLE.get(dfn)
    if m is not None:
        # PartialEq/Clone/From resolved to a *local* impl are interpreted, not modelled
        return m
    if FROM_PRIMITIVE.search(dfn):
        return from_primitive
    if dfn.startswith("log::") or dfn.startswith("core::fmt::") or dfn.startswith("alloc::fmt::"):
        return ignore_top
    return None


# ---------------------------------------------------------------------------
# Box / Vec / iterators / HashMap / Rc / String  (collections are values:
# Arr = exactly known elements, ArrS = summary element + abstract length)

from .domain import It, BoxV  # noqa: E402

USIZE_TOP = D.top_of_int("usize")
MAX_EXACT = 64


def box_new_uninit(I, st, depth, callee, args, body, ln):
    a = I.new_alloc(st, "box", None)
    return BoxV(Ref(a, (), True))


def box_new(I, st, depth, callee, args, body, ln):
    a = I.new_alloc(st, "box", args[0])
    return BoxV(Ref(a, (), True))


def _dig_array(v):
    """MaybeUninit<[T;N]> { uninit, value: ManuallyDrop { value: MaybeDangling(..) } } -> the array"""
    seen = 0
    while isinstance(v, Agg) and seen < 6:
        nxt = None
        for f in v.f:
            if f is not None:
                nxt = f
        if nxt is None:
            return None
        v = nxt
        seen += 1
    return v


def box_into_vec(I, st, depth, callee, args, body, ln):
    b = args[0]
    if isinstance(b, BoxV):
        v = I.load(st, b.ref.alloc, b.ref.path)
        arr = _dig_array(v)
        if isinstance(arr, (Arr, ArrS)):
            return arr
    I.ev("imprecise", body, ln, "vec! contents not recovered")
    return ArrS(TOP, USIZE_TOP)


def vec_new(I, st, depth, callee, args, body, ln):
    return Arr(())


def _vec_len(v):
    if isinstance(v, Arr):
        return len(v.e)
    if isinstance(v, ArrS):
        return v.n if is_scalar(v.n) else USIZE_TOP
    return USIZE_TOP


def _vec_elem(v):
    if isinstance(v, Arr):
        r = BOT
        for e in v.e:
            r = join(r, e)
        return r
    if isinstance(v, ArrS):
        return v.elem
    return TOP


def vec_push(I, st, depth, callee, args, body, ln):
    r, x = args[0], args[1]
    if isinstance(r, Ref):
        v = I.load(st, r.alloc, r.path)
        if isinstance(v, Arr) and len(v.e) < MAX_EXACT:
            nv = Arr(v.e + (x,))
        elif isinstance(v, (Arr, ArrS)):
            n = _vec_len(v)
            nv = ArrS(join(_vec_elem(v), x), D.binop("Add", n, 1, "usize") if is_scalar(n) else USIZE_TOP)
        else:
            nv = ArrS(TOP, USIZE_TOP)
        I.store_to(st, r.alloc, r.path, nv, False, body, ln)
    return Agg(())


def vec_pop(I, st, depth, callee, args, body, ln):
    r = args[0]
    if isinstance(r, Ref):
        v = I.load(st, r.alloc, r.path)
        if isinstance(v, Arr):
            if not v.e:
                return none()
            I.store_to(st, r.alloc, r.path, Arr(v.e[:-1]), False, body, ln)
            return some(v.e[-1])
        if isinstance(v, ArrS):
            n = _vec_len(v)
            I.store_to(st, r.alloc, r.path, ArrS(v.elem, D.binop("Sub", n, frozenset((0, 1)), "usize") if is_scalar(n) else USIZE_TOP), False, body, ln)
            return En({NONE: (), SOME: (v.elem,)})
    return TOP


def vec_len(I, st, depth, callee, args, body, ln):
    return _vec_len(deref(I, st, args[0]))


def vec_is_empty(I, st, depth, callee, args, body, ln):
    n = _vec_len(deref(I, st, args[0]))
    return D.cmpop("Eq", n, 0)


def vec_deref(I, st, depth, callee, args, body, ln):
    # &Vec<T> -> &[T]: same storage
    return args[0]


def vec_clone(I, st, depth, callee, args, body, ln):
    return deref(I, st, args[0])


def _iter_of_value(v, by_ref=None):
    """It over the elements of a collection value; by_ref = Ref of the collection for reference iteration"""
    if isinstance(v, Arr):
        if by_ref is not None:
            return It("exact", [Ref(by_ref.alloc, by_ref.path + (("i", k),), by_ref.mut) for k in range(len(v.e))])
        return It("exact", v.e)
    if isinstance(v, ArrS):
        if by_ref is not None:
            return It("rep", [Ref(by_ref.alloc, by_ref.path + (("s", None),), by_ref.mut)])
        return It("rep", [v.elem])
    return It("rep", [TOP])


def vec_drain(I, st, depth, callee, args, body, ln):
    r = args[0]
    if isinstance(r, Ref):
        v = I.load(st, r.alloc, r.path)
        I.store_to(st, r.alloc, r.path, Arr(()), False, body, ln)
        return _iter_of_value(v)
    return It("rep", [TOP])


def slice_iter(I, st, depth, callee, args, body, ln):
    r = args[0]
    if isinstance(r, Ref):
        return _iter_of_value(I.load(st, r.alloc, r.path), r)
    return It("rep", [TOP])


def into_iter(I, st, depth, callee, args, body, ln):
    v = args[0]
    if isinstance(v, It):
        return v
    if isinstance(v, Ref):
        tgt = I.load(st, v.alloc, v.path)
        if isinstance(tgt, (Arr, ArrS)):
            return _iter_of_value(tgt, v)
        if isinstance(tgt, It):
            return v
        return It("rep", [TOP])
    if isinstance(v, (Arr, ArrS)):
        return _iter_of_value(v)
    if isinstance(v, Agg) and len(v.f) >= 2 and is_scalar(v.f[0]) and is_scalar(v.f[1]):
        return v       # Range<usize>: handled by range_next
    return It("rep", [TOP])


def _it(I, st, v):
    if isinstance(v, Ref):
        v = I.load(st, v.alloc, v.path)
    return v if isinstance(v, It) else It("rep", [TOP])


def _apply_rep(I, st, depth, f, arglists, body, ln):
    """apply closure f to each argument list zero or more times until the state is stable;
    returns the joined results (list, one per arglist)"""
    from .absint import join_states, states_equal, State
    results = [BOT] * len(arglists)
    for _ in range(6):
        before = State(dict(st.store))
        for k, al in enumerate(arglists):
            r = I.call_value(st, depth, f, list(al), body, ln)
            results[k] = join(results[k], r)
        merged = join_states(before, st)
        changed = not states_equal(merged, before)
        st.store.clear()
        st.store.update(merged.store)
        if not changed:
            break
    else:
        # did not stabilise: widen everything the closure can reach
        for al in arglists:
            for a in al:
                I.havoc_reachable(st, a, None, body, ln)
        I.havoc_reachable(st, f, None, body, ln)
    return results


def iter_map(I, st, depth, callee, args, body, ln):
    it, f = _it(I, st, args[0]), args[1]
    if it.kind == "exact":
        return It("exact", [I.call_value(st, depth, f, [x], body, ln) for x in it.items])
    return It("rep", _apply_rep(I, st, depth, f, [[x] for x in it.items], body, ln))


def iter_filter(I, st, depth, callee, args, body, ln):
    it, f = _it(I, st, args[0]), args[1]
    if it.kind == "exact":
        kept = []
        exact = True
        for x in it.items:
            r_ = _tmp_ref(I, st, x)
            d = I.call_value(st, depth, f, [r_], body, ln)
            st.store.pop(r_.alloc, None)
            if d == 1:
                kept.append(x)
            elif d == 0:
                continue
            else:
                kept.append(x)
                exact = False
        if exact:
            return It("exact", kept)
        return It("rep", [join_all_(kept)]) if kept else It("exact", [])
    refs = [_tmp_ref(I, st, x) for x in it.items]
    _apply_rep(I, st, depth, f, [[r] for r in refs], body, ln)
    for r in refs:
        st.store.pop(r.alloc, None)
    e = BOT
    for x in it.items:
        e = join(e, x)
    return It("rep", [e]) if it.items else It("exact", [])


def _tmp_ref(I, st, v):
    a = I.new_alloc(st, "tmp", v)
    return Ref(a, (), False)


def iter_flat_map(I, st, depth, callee, args, body, ln):
    it, f = _it(I, st, args[0]), args[1]
    out = []
    if it.kind == "exact":
        for x in it.items:
            r = I.call_value(st, depth, f, [x], body, ln)
            sub = _sub_iter(I, st, r)
            if sub.kind != "exact":
                e = BOT
                for y in out + list(sub.items):
                    e = join(e, y)
                return It("rep", [e])
            out.extend(sub.items)
        return It("exact", out)
    rs = _apply_rep(I, st, depth, f, [[x] for x in it.items], body, ln)
    group = []
    for r in rs:
        sub = _sub_iter(I, st, r)
        if sub.kind == "exact":
            group.extend(sub.items)
        else:
            e = BOT
            for y in sub.items:
                e = join(e, y)
            return It("rep", [join_all_(group + [e])])
    return It("rep", group)


def join_all_(vs):
    r = BOT
    for v in vs:
        r = join(r, v)
    return r


def _sub_iter(I, st, r):
    if isinstance(r, It):
        return r
    if isinstance(r, Ref):
        tgt = I.load(st, r.alloc, r.path)
        if isinstance(tgt, (Arr, ArrS)):
            return _iter_of_value(tgt, r)
    if isinstance(r, (Arr, ArrS)):
        return _iter_of_value(r)
    return It("rep", [TOP])


def iter_count(I, st, depth, callee, args, body, ln):
    it = _it(I, st, args[0])
    if it.kind == "exact":
        return len(it.items)
    return USIZE_TOP


def iter_chain(I, st, depth, callee, args, body, ln):
    a, b = args[0], args[1]
    if isinstance(a, It) and isinstance(b, It) and a.kind == "exact" and b.kind == "exact":
        return It("exact", a.items + b.items)
    if isinstance(a, It) and isinstance(b, It):
        return It("rep", tuple(set(a.items) | set(b.items)))
    return TOP


def iter_rev(I, st, depth, callee, args, body, ln):
    a = args[0]
    if isinstance(a, It) and a.kind == "exact":
        return It("exact", tuple(reversed(a.items)))
    return a if isinstance(a, It) else TOP


def iter_enumerate(I, st, depth, callee, args, body, ln):
    it = _it(I, st, args[0])
    if it.kind == "exact":
        return It("exact", [Agg((k, x)) for k, x in enumerate(it.items)])
    return It("rep", [Agg((USIZE_TOP, x)) for x in it.items])


def iter_for_each(I, st, depth, callee, args, body, ln):
    it, f = _it(I, st, args[0]), args[1]
    if it.kind == "exact":
        for x in it.items:
            I.call_value(st, depth, f, [x], body, ln)
    else:
        _apply_rep(I, st, depth, f, [[x] for x in it.items], body, ln)
    return Agg(())


def iter_fold(I, st, depth, callee, args, body, ln):
    it, acc, f = _it(I, st, args[0]), args[1], args[2]
    if it.kind == "exact":
        for x in it.items:
            acc = I.call_value(st, depth, f, [acc, x], body, ln)
        return acc
    # zero or more applications: iterate with widening on the accumulator
    for k in range(8):
        new = acc
        for x in it.items:
            new = join(new, I.call_value(st, depth, f, [acc, x], body, ln))
        if k >= 2:
            new = D.widen(acc, new)
        if new == acc:
            break
        acc = new
    return acc


def _iter_any_all(is_any):
    def m(I, st, depth, callee, args, body, ln):
        r0 = args[0]
        it, f = _it(I, st, r0), args[1]
        if it.kind == "exact":
            out = set()
            decided = None
            for x in it.items:
                r = I.call_value(st, depth, f, [x], body, ln)
                if r == (1 if is_any else 0):
                    decided = 1 if is_any else 0
                    break
                if not (r == (0 if is_any else 1)):
                    out.add("maybe")
            if isinstance(r0, Ref):
                I.store_to(st, r0.alloc, r0.path, It("exact", ()), False, body, ln)
            if decided is not None and "maybe" not in out:
                return decided
            if decided is None and not out:
                return 0 if is_any else 1
            return BOOL
        _apply_rep(I, st, depth, f, [[x] for x in it.items], body, ln)
        return BOOL
    return m


def iter_max(I, st, depth, callee, args, body, ln):
    it = _it(I, st, args[0])
    if it.kind == "exact" and not it.items:
        return none()
    e_ = join_all_(it.items)
    if it.kind == "exact":
        return some(e_)
    return En({NONE: (), SOME: (e_,)})


def iter_collect(I, st, depth, callee, args, body, ln):
    it = _it(I, st, args[0])
    if it.kind == "exact":
        return Arr(it.items)
    return ArrS(join_all_(it.items), USIZE_TOP)


def iter_next(I, st, depth, callee, args, body, ln):
    r = args[0]
    if isinstance(r, Ref):
        v = I.load(st, r.alloc, r.path)
        if isinstance(v, It):
            if v.kind == "exact":
                if not v.items:
                    return none()
                I.store_to(st, r.alloc, r.path, It("exact", v.items[1:]), False, body, ln)
                return some(v.items[0])
            return En({NONE: (), SOME: (join_all_(v.items),)})
        if isinstance(v, Agg) and len(v.f) >= 2 and is_scalar(v.f[0]) and is_scalar(v.f[1]):
            # Range<A>::next
            lo, hi = v.f[0], v.f[1]
            ty = None
            for g in callee.get("ga", []):
                if g in D.INT_TYPES:
                    ty = g
            if ty is None:
                for g in callee.get("ga", []):
                    m = re.search(r"Range<(\w+)>", g)
                    if m and m.group(1) in D.INT_TYPES:
                        ty = m.group(1)
            if ty is None:
                ty = "usize"
            c = D.cmpop("Lt", lo, hi)
            vs = {}
            if D.contains(c, 0):
                vs[NONE] = ()
            if D.contains(c, 1):
                cur = lo
                if is_scalar(lo) and is_scalar(hi):
                    hb = D.bounds(hi)[1]
                    cur = D.refine_cmp(lo, "Lt", hb) if D.values(lo) is not None or True else lo
                vs[SOME] = (cur,)
                nxt = D.binop("Add", cur, 1, ty) if is_scalar(cur) else TOP
                # after a successful next the start is advanced; join with the unchanged start (None case)
                newlo = nxt if not D.contains(c, 0) else join(lo, nxt)
                I.store_to(st, r.alloc, r.path, Agg((newlo,) + tuple(v.f[1:])), False, body, ln)
            return En(vs)
    return En({NONE: (), SOME: (TOP,)})


def str_to_lowercase(I, st, depth, callee, args, body, ln):
    v = deref(I, st, args[0]) if isinstance(args[0], Ref) else args[0]
    if isinstance(v, Str):
        return Str(v.s.lower())
    if isinstance(v, Opaque):
        # an unknown but fixed string: its lower-casing is again fixed; lower-casing is idempotent
        return v if str(v.tag).startswith("lc:") else Opaque("lc:%s" % (v.tag,))
    return TOP


def vec_append(I, st, depth, callee, args, body, ln):
    r, o = args[0], args[1]
    if isinstance(r, Ref) and isinstance(o, Ref):
        v = I.load(st, r.alloc, r.path)
        w = I.load(st, o.alloc, o.path)
        if isinstance(v, Arr) and isinstance(w, Arr) and len(v.e) + len(w.e) < MAX_EXACT:
            nv = Arr(v.e + w.e)
        elif isinstance(v, (Arr, ArrS)) and isinstance(w, (Arr, ArrS)):
            n, m = _vec_len(v), _vec_len(w)
            ev, ew = _vec_elem(v), _vec_elem(w)
            nv = ArrS(join(ev, ew) if ev is not BOT and ew is not BOT else (ev if ew is BOT else ew),
                      D.binop("Add", n, m, "usize") if is_scalar(n) and is_scalar(m) else USIZE_TOP)
        else:
            nv = ArrS(TOP, USIZE_TOP)
        I.store_to(st, r.alloc, r.path, nv, False, body, ln)
        I.store_to(st, o.alloc, o.path, Arr(()), False, body, ln)
    return Agg(())


def vec_extend(I, st, depth, callee, args, body, ln):
    """<Vec<T> as Extend<T>>::extend(&mut vec, iterator or collection)"""
    r, src = args[0], args[1]
    if not isinstance(r, Ref):
        return Agg(())
    v = I.load(st, r.alloc, r.path)
    w = I.load(st, src.alloc, src.path) if isinstance(src, Ref) else src
    it = w if isinstance(w, It) else (_iter_of_value(w) if isinstance(w, (Arr, ArrS)) else It("rep", [TOP]))
    if isinstance(v, Arr) and it.kind == "exact" and len(v.e) + len(it.items) < MAX_EXACT:
        nv = Arr(v.e + tuple(it.items))
    elif isinstance(v, (Arr, ArrS)):
        ev = _vec_elem(v)
        for x in it.items:
            ev = x if ev is BOT else join(ev, x)
        n = _vec_len(v)
        nv = ArrS(ev, D.binop("Add", n, len(it.items), "usize") if it.kind == "exact" and is_scalar(n) else USIZE_TOP)
    else:
        nv = TOP          # some other collection
    I.store_to(st, r.alloc, r.path, nv, False, body, ln)
    return Agg(())


# Rust's char::is_whitespace (Unicode White_Space)
_RUST_WS = set("\t\n\x0b\x0c\r \x85\xa0\u1680\u2000\u2001\u2002\u2003\u2004\u2005\u2006\u2007\u2008\u2009\u200a"
               "\u2028\u2029\u202f\u205f\u3000")


def _str_of(I, st, v):
    n = 0
    while isinstance(v, Ref) and n < 4:
        v = I.load(st, v.alloc, v.path)
        n += 1
    return v


def _char_pred(I, st, depth, pat, body, ln):
    """pattern argument of trim_matches & co. -> python predicate on a character, or None when not decidable"""
    pat = _str_of(I, st, pat) if isinstance(pat, Ref) and not isinstance(I.load(st, pat.alloc, pat.path), FnV) else pat
    if isinstance(pat, int) and not isinstance(pat, bool):
        return lambda ch: ord(ch) == pat
    if isinstance(pat, Str) and len(pat.s) == 1:
        return lambda ch: ch == pat.s
    pv = _str_of(I, st, pat) if isinstance(pat, Ref) else pat
    if isinstance(pv, Arr) and pv.e and all(isinstance(x, int) and not isinstance(x, bool) for x in pv.e):
        chars_ = {x for x in pv.e}          # a slice or array of characters: any of them
        return lambda ch: ord(ch) in chars_
    if isinstance(pat, (FnV, Ref)):
        def pred(ch):
            r = I.call_value(st, depth, pat, [ord(ch)], body, ln)
            if r in (0, 1, True, False):
                return bool(r)
            raise ValueError("undecided")
        return pred
    return None


def _mk_trim(front, back, whitespace):
    def f(I, st, depth, callee, args, body, ln):
        s = _str_of(I, st, args[0])
        if not isinstance(s, Str):
            return TOP
        pat_s = _str_of(I, st, args[1]) if (not whitespace and len(args) > 1 and isinstance(args[1], (Ref, Str))) else None
        if isinstance(pat_s, Str) and len(pat_s.s) != 1:
            # a string pattern: stripped as a whole, repeatedly
            t = s.s
            if pat_s.s:
                while front and t.startswith(pat_s.s):
                    t = t[len(pat_s.s):]
                while back and t.endswith(pat_s.s):
                    t = t[:-len(pat_s.s)]
            return Str(t)
        if whitespace:
            pred = lambda ch: ch in _RUST_WS
        else:
            pred = _char_pred(I, st, depth, args[1], body, ln)
            if pred is None:
                return TOP
        t = s.s
        try:
            if front:
                while t and pred(t[0]):
                    t = t[1:]
            if back:
                while t and pred(t[-1]):
                    t = t[:-1]
        except ValueError:
            return TOP
        return Str(t)
    return f


def str_contains(I, st, depth, callee, args, body, ln):
    s = _str_of(I, st, args[0])
    pat = _str_of(I, st, args[1]) if isinstance(args[1], Ref) else args[1]
    if isinstance(s, Str):
        if isinstance(pat, int) and not isinstance(pat, bool):
            return 1 if chr(pat) in s.s else 0
        if isinstance(pat, Str):
            return 1 if pat.s in s.s else 0
    return frozenset((0, 1))


def _int_minmax(which):
    def f(I, st, depth, callee, args, body, ln):
        a, b = args[0], args[1]
        if isinstance(a, Ref):
            a = I.load(st, a.alloc, a.path)
        if isinstance(b, Ref):
            b = I.load(st, b.alloc, b.path)
        if isinstance(a, D.Fl) or isinstance(b, D.Fl) or not (is_scalar(a) and is_scalar(b)):
            return TOP
        va, vb = D.values(a), D.values(b)
        if va is not None and vb is not None and len(va) * len(vb) <= 4096:
            return D.norm_set(frozenset((min if which == "min" else max)(x, y) for x in va for y in vb))
        (la, ha), (lb, hb) = D.bounds(a), D.bounds(b)
        lo, hi = ((min(la, lb), min(ha, hb)) if which == "min" else (max(la, lb), max(ha, hb)))
        return lo if lo == hi else D.Rng(lo, hi)
    return f


def slice_contains(I, st, depth, callee, args, body, ln):
    v = deref(I, st, args[0])
    x = deref(I, st, args[1])
    if isinstance(v, Arr):
        if not v.e:
            return 0
        if isinstance(x, (Opaque, Str)) and all(isinstance(y, (Opaque, Str)) for y in v.e):
            # opaque strings: equal tags denote the same string; different tags may or may not be equal
            if any(type(y) is type(x) and y == x for y in v.e):
                return 1
            if isinstance(x, Str) and all(isinstance(y, Str) for y in v.e):
                return 0
            return BOOL
        if is_scalar(x) and all(is_scalar(y) for y in v.e):
            out = set()
            for y in v.e:
                c = D.cmpop("Eq", y, x)
                if c == 1:
                    return 1
                if D.contains(c, 1):
                    out.add(1)
            out.add(0)
            return D.norm_set(frozenset(out)) if 1 in out else 0
    return BOOL


def vec_index(I, st, depth, callee, args, body, ln):
    """<Vec<T>/[T] as Index<I>>::index for I = usize / RangeTo / RangeFrom / Range / RangeFull"""
    r, idx = args[0], args[1]
    v = deref(I, st, r)
    n = _vec_len(v)
    ga = " ".join(callee.get("ga", []))

    def may_panic(cond_ok, what):
        # cond_ok: abstract bool of the bounds condition
        if cond_ok != 1:
            I.ev("panic", body, ln, {"kind": "index", "callee": callee.get("def"), "msg": what,
                                     "may": D.contains(cond_ok, 1), "len": n, "index": idx})
        return cond_ok != 0
    if is_scalar(idx):
        ok = D.cmpop("Lt", idx, n) if is_scalar(n) else BOOL
        if not may_panic(ok, "index out of bounds"):
            return BOT
        if isinstance(r, Ref):
            if isinstance(idx, int) and isinstance(v, Arr):
                return Ref(r.alloc, r.path + (("i", idx),), r.mut)
            return Ref(r.alloc, r.path + (("s", idx),), r.mut)
        return TOP
    if isinstance(idx, Agg):
        fs = idx.f
        if "RangeTo<" in ga and len(fs) == 1:
            ok = D.cmpop("Le", fs[0], n) if (is_scalar(fs[0]) and is_scalar(n)) else BOOL
            if not may_panic(ok, "range end out of bounds"):
                return BOT
            end = fs[0]
            if isinstance(v, Arr) and isinstance(end, int):
                a = I.site_alloc(st, "subslice", Arr(v.e[:end]), body, ln)
                return Ref(a, (), False)
            a = I.site_alloc(st, "subslice", ArrS(_vec_elem(v), end if is_scalar(end) else USIZE_TOP), body, ln)
            return Ref(a, (), False)
        if "RangeFrom<" in ga and len(fs) == 1:
            ok = D.cmpop("Le", fs[0], n) if (is_scalar(fs[0]) and is_scalar(n)) else BOOL
            if not may_panic(ok, "range start out of bounds"):
                return BOT
            a = I.site_alloc(st, "subslice", ArrS(_vec_elem(v), USIZE_TOP), body, ln)
            return Ref(a, (), False)
        if "RangeFull" in ga:
            return r
        if ("RangeInclusive<" in ga or "RangeToInclusive<" in ga) and len(fs) in (1, 3):
            # a..=b / ..=b : fails when b is usize::MAX, a > b + 1 or b + 1 > len
            lo, hi = (0, fs[0]) if len(fs) == 1 else (fs[0], fs[1])
            if is_scalar(lo) and is_scalar(hi) and is_scalar(n) and D.bounds(hi)[1] < (1 << 64) - 1:
                hi1 = D.binop("Add", hi, 1, "usize")
                ok1 = D.cmpop("Le", lo, hi1)
                ok2 = D.cmpop("Le", hi1, n)
                ok = 1 if (ok1 == 1 and ok2 == 1) else (0 if (ok1 == 0 or ok2 == 0) else BOOL)
            else:
                ok = BOOL
            if not may_panic(ok, "inclusive range out of bounds"):
                return BOT
            a = I.site_alloc(st, "subslice", ArrS(_vec_elem(v), USIZE_TOP), body, ln)
            return Ref(a, (), False)
        if len(fs) == 2:
            ok1 = D.cmpop("Le", fs[0], fs[1]) if (is_scalar(fs[0]) and is_scalar(fs[1])) else BOOL
            ok2 = D.cmpop("Le", fs[1], n) if (is_scalar(fs[1]) and is_scalar(n)) else BOOL
            ok = 1 if (ok1 == 1 and ok2 == 1) else (0 if (ok1 == 0 or ok2 == 0) else BOOL)
            if not may_panic(ok, "range out of bounds"):
                return BOT
            a = I.site_alloc(st, "subslice", ArrS(_vec_elem(v), USIZE_TOP), body, ln)
            return Ref(a, (), False)
    I.ev("panic", body, ln, {"kind": "index", "callee": callee.get("def"), "msg": "unmodelled index", "may": True})
    return TOP


def slice_first(I, st, depth, callee, args, body, ln):
    r = args[0]
    v = deref(I, st, r)
    if isinstance(v, Arr):
        if not v.e:
            return none()
        return some(Ref(r.alloc, r.path + (("i", 0),), False))
    if isinstance(v, ArrS) and isinstance(r, Ref):
        return En({NONE: (), SOME: (Ref(r.alloc, r.path + (("s", None),), False),)})
    return En({NONE: (), SOME: (TOP,)})


def slice_last(I, st, depth, callee, args, body, ln):
    r = args[0]
    v = deref(I, st, r)
    if isinstance(v, Arr):
        if not v.e:
            return none()
        return some(Ref(r.alloc, r.path + (("i", len(v.e) - 1),), False))
    if isinstance(v, ArrS):
        c = D.cmpop("Eq", _vec_len(v), 0)
        vs = {}
        if D.contains(c, 1):
            vs[NONE] = ()
        if D.contains(c, 0):
            vs[SOME] = (Ref(r.alloc, r.path + (("s", None),), False),)
        return En(vs)
    return En({NONE: (), SOME: (TOP,)})


def hashmap_new(I, st, depth, callee, args, body, ln):
    # abstract map: Agg(("map", keys summary, values summary)) -> we keep (keys, values) joins
    return Agg((Str("<hashmap>"), BOT, BOT))


def hashmap_insert(I, st, depth, callee, args, body, ln):
    r, k, v = args[0], args[1], args[2]
    if isinstance(r, Ref):
        m = I.load(st, r.alloc, r.path)
        if isinstance(m, Agg) and len(m.f) == 3:
            I.store_to(st, r.alloc, r.path, Agg((m.f[0], join(m.f[1], k), join(m.f[2], v))), False, body, ln)
            return En({NONE: (), SOME: (m.f[2],)}) if m.f[2] is not BOT else none()
    return En({NONE: (), SOME: (TOP,)})


def hashmap_get(I, st, depth, callee, args, body, ln):
    r = args[0]
    if isinstance(r, Ref):
        m = I.load(st, r.alloc, r.path)
        if isinstance(m, Agg) and len(m.f) == 3:
            if m.f[2] is BOT:
                return none()
            a = I.new_alloc(st, "mapval", m.f[2])
            return En({NONE: (), SOME: (Ref(a, (), False),)})
    return En({NONE: (), SOME: (TOP,)})


def rc_from(I, st, depth, callee, args, body, ln):
    a = I.new_alloc(st, "rc", args[0])
    return BoxV(Ref(a, (), False))


def rc_deref(I, st, depth, callee, args, body, ln):
    b = deref(I, st, args[0])
    if isinstance(b, BoxV):
        return b.ref
    return TOP


def fn_call(I, st, depth, callee, args, body, ln):
    # <F as Fn<Args>>::call(&f, (args,))
    f = args[0]
    tup = args[1]
    al = list(tup.f) if isinstance(tup, Agg) else [TOP]
    return I.call_value(st, depth, f, al, body, ln)


def to_string(I, st, depth, callee, args, body, ln):
    v = deref(I, st, args[0])
    return v if isinstance(v, Str) else TOP


def string_from_str(I, st, depth, callee, args, body, ln):
    return deref(I, st, args[0]) if isinstance(args[0], Ref) else args[0]


def _default_of(t):
    """<T as Default>::default() for the types whose default is fixed by the standard library; None otherwise"""
    if t in D.INT_TYPES or t in ("bool", "char"):
        return 0
    if t in ("f32", "f64"):
        return Fl(0.0, 0.0, False)
    if t.startswith("alloc::vec::Vec"):
        return Arr(())
    if t.startswith("core::option::Option"):
        return none()
    if t.startswith("core::marker::PhantomData") or t == "()":
        return Agg(())
    m = re.match(r"^\[(.+); (\d+)\]$", t)
    if m and int(m.group(2)) <= 32:
        e = _default_of(m.group(1))
        return None if e is None else Arr((e,) * int(m.group(2)))
    return None


def default_default(I, st, depth, callee, args, body, ln):
    ga = callee.get("ga", [])
    t = ga[0] if ga else ""
    if not t:
        m = re.match(r"^<(.+) as core::default::Default>::default$", str(callee.get("defargs") or callee.get("res") or ""))
        t = m.group(1) if m else ""
    v = _default_of(t)
    if v is not None:
        return v
    I.ev("unknown_extern", body, ln, callee.get("defargs"))
    return TOP


def try_branch(I, st, depth, callee, args, body, ln):
    # <Result<T,E> as Try>::branch -> ControlFlow<Result<Infallible,E>, T>: Continue=0(T), Break=1(residual)
    v = args[0]
    if isinstance(v, En):
        vs = {}
        if OK in v.vs:
            vs[0] = (v.vs[OK][0],)
        if ERR in v.vs:
            vs[1] = (En({ERR: v.vs[ERR]}),)
        return En(vs)
    return En({0: (TOP,), 1: (TOP,)})


def from_residual(I, st, depth, callee, args, body, ln):
    v = args[0]
    if isinstance(v, En) and ERR in v.vs:
        return En({ERR: (TOP,)})
    return En({ERR: (TOP,)})


TABLE.update({
    "core::hint::must_use": identity,
    "std::time::Instant::now": ignore_top,
    "std::time::Instant::elapsed": ignore_top,
    "core::cmp::Ord::cmp": ignore_top,
    "core::cmp::PartialOrd::partial_cmp": ignore_top,
    "core::hash::Hash::hash": ignore_unit,
    "alloc::boxed::Box::<T>::new_uninit": box_new_uninit,
    "alloc::boxed::Box::<T>::new": box_new,
    "alloc::boxed::box_assume_init_into_vec_unsafe": box_into_vec,
    "alloc::vec::Vec::<T>::new": vec_new,
    "alloc::vec::Vec::<T, A>::push": vec_push,
    "core::cmp::Ord::min": _int_minmax("min"),
    "core::cmp::Ord::max": _int_minmax("max"),
    "core::cmp::min": _int_minmax("min"),
    "core::cmp::max": _int_minmax("max"),
    "core::str::<impl str>::trim_matches": _mk_trim(True, True, False),
    "core::str::<impl str>::trim_start_matches": _mk_trim(True, False, False),
    "core::str::<impl str>::trim_end_matches": _mk_trim(False, True, False),
    "core::str::<impl str>::trim": _mk_trim(True, True, True),
    "core::str::<impl str>::trim_start": _mk_trim(True, False, True),
    "core::str::<impl str>::trim_end": _mk_trim(False, True, True),
    "core::str::<impl str>::contains": str_contains,
    "core::iter::traits::collect::Extend::extend": vec_extend,
    "alloc::vec::Vec::<T, A>::pop": vec_pop,
    "alloc::vec::Vec::<T, A>::len": vec_len,
    "alloc::vec::Vec::<T, A>::is_empty": vec_is_empty,
    "alloc::vec::Vec::<T, A>::drain": vec_drain,
    "core::slice::<impl [T]>::iter": slice_iter,
    "core::slice::<impl [T]>::contains": slice_contains,
    "alloc::str::<impl str>::to_lowercase": str_to_lowercase,
    "alloc::vec::Vec::<T, A>::append": vec_append,
    "core::slice::<impl [T]>::last": slice_last,
    "core::slice::<impl [T]>::first": slice_first,
    "core::slice::<impl [T]>::len": vec_len,
    "core::slice::<impl [T]>::is_empty": vec_is_empty,
    "core::iter::traits::collect::IntoIterator::into_iter": into_iter,
    "core::iter::traits::iterator::Iterator::map": iter_map,
    "core::iter::traits::iterator::Iterator::filter": iter_filter,
    "core::iter::traits::iterator::Iterator::flat_map": iter_flat_map,
    "core::iter::traits::iterator::Iterator::enumerate": iter_enumerate,
    "core::iter::traits::iterator::Iterator::chain": iter_chain,
    "core::iter::traits::iterator::Iterator::count": iter_count,
    "core::iter::traits::iterator::Iterator::rev": iter_rev,
    "core::iter::traits::iterator::Iterator::for_each": iter_for_each,
    "core::iter::traits::iterator::Iterator::fold": iter_fold,
    "core::iter::traits::iterator::Iterator::collect": iter_collect,
    "core::iter::traits::iterator::Iterator::max": iter_max,
    "core::iter::traits::iterator::Iterator::min": iter_max,
    "core::iter::traits::iterator::Iterator::any": _iter_any_all(True),
    "core::iter::traits::iterator::Iterator::all": _iter_any_all(False),
    "core::iter::traits::iterator::Iterator::next": iter_next,
    "std::collections::hash::map::HashMap::<K, V>::new": hashmap_new,
    "std::collections::hash::map::HashMap::<K, V, S, A>::insert": hashmap_insert,
    "std::collections::hash::map::HashMap::<K, V, S, A>::get": hashmap_get,
    "core::ops::function::Fn::call": fn_call,
    "core::ops::function::FnMut::call_mut": fn_call,
    "core::ops::function::FnOnce::call_once": fn_call,
    "alloc::string::ToString::to_string": to_string,
    "core::default::Default::default": default_default,
    "core::ops::try_trait::Try::branch": try_branch,
    "core::ops::try_trait::FromResidual::from_residual": from_residual,
})

# models selected on the resolved callee (impl-specific)
def option_eq(op):
    def m(I, st, depth, callee, args, body, ln):
        a = deref(I, st, args[0])
        b = deref(I, st, args[1])
        if isinstance(a, En) and isinstance(b, En):
            out = set()
            for va, fa in a.vs.items():
                for vb, fb in b.vs.items():
                    if va != vb:
                        out.add(0)
                    elif not fa:
                        out.add(1)
                    else:
                        x, y = fa[0], fb[0]
                        if isinstance(x, En) and isinstance(y, En) and all(not f for f in x.vs.values()) \
                                and all(not f for f in y.vs.values()):
                            if set(x.vs) & set(y.vs):
                                out.add(1)
                            if len(set(x.vs) | set(y.vs)) > 1:
                                out.add(0)
                        elif is_scalar(x) and is_scalar(y):
                            c = D.cmpop("Eq", x, y)
                            for k in (0, 1):
                                if D.contains(c, k):
                                    out.add(k)
                        elif isinstance(x, Opaque) and x == y:
                            out.add(1)
                        else:
                            out.update((0, 1))
            r = D.norm_set(frozenset(out))
            return r if op == "Eq" else D.unop("Not", r, "bool")
        return BOOL
    return m


RES_TABLE = {
    "<alloc::vec::Vec<T, A> as core::ops::index::Index<I>>::index": vec_index,
    "<alloc::vec::Vec<T, A> as core::ops::index::IndexMut<I>>::index_mut": vec_index,
    "core::slice::index::<impl core::ops::index::Index<I> for [T]>::index": vec_index,
    "core::array::<impl core::ops::index::Index<I> for [T; N]>::index": vec_index,
    "core::array::<impl core::ops::index::IndexMut<I> for [T; N]>::index_mut": vec_index,
    "core::ops::range::RangeInclusive::<Idx>::new": lambda I, st, depth, callee, args, body, ln: Agg((args[0], args[1], 0)),
    "core::slice::index::<impl core::ops::index::IndexMut<I> for [T]>::index_mut": vec_index,
    "<core::option::Option<T> as core::cmp::PartialEq>::eq": option_eq("Eq"),
    "<core::option::Option<T> as core::cmp::PartialEq>::ne": option_eq("Ne"),
    "<alloc::vec::Vec<T, A> as core::ops::deref::Deref>::deref": vec_deref,
    "<alloc::vec::Vec<T, A> as core::ops::deref::DerefMut>::deref_mut": vec_deref,
    "<alloc::vec::Vec<T, A> as core::clone::Clone>::clone": vec_clone,
    "<alloc::rc::Rc<T, A> as core::ops::deref::Deref>::deref": rc_deref,
    "<alloc::rc::Rc<T> as core::convert::From<T>>::from": rc_from,
    "<alloc::string::String as core::convert::From<&str>>::from": string_from_str,
    "<alloc::string::String as core::clone::Clone>::clone": vec_clone,
    "<core::option::Option<T> as core::clone::Clone>::clone": clone_prim,
    "<alloc::vec::Vec<T> as core::default::Default>::default": vec_new,
}

_old_lookup = lookup


def lookup(dfn, res, callee):   # noqa: F811
    if res in RES_TABLE:
        return RES_TABLE[res]
    return _old_lookup(dfn, res, callee)


# ---- operator traits on primitive integers reached as calls (an operand is a reference, so rustc does not emit the built-in
# operation with its own overflow assertion: `0xEF - self.register.get(..)` is `<u8 as Sub<&u8>>::sub`, a libcore routine that
# inherits the crate's overflow checks).  Modelled as the checked operation; a possible overflow is a panic event at the call.
import re as _re
_ARITH_RES = _re.compile(r"^<&?(?:'\w+ )?(u8|u16|u32|u64|u128|usize|i8|i16|i32|i64|i128|isize) as core::ops::(?:arith|bit)::"
                         r"(Add|Sub|Mul|Shl|Shr)<&?(?:'\w+ )?(?:u8|u16|u32|u64|u128|usize|i8|i16|i32|i64|i128|isize)>>::(add|sub|mul|shl|shr)$")


def _arith_call(ty, op):
    def m(I, st, depth, callee, args, body, ln):
        a = deref(I, st, args[0]) if isinstance(args[0], Ref) else args[0]
        b = deref(I, st, args[1]) if isinstance(args[1], Ref) else args[1]
        r = D.binop(op + "WithOverflow", a, b, ty)
        may = True
        val = D.top_of_int(ty)
        if isinstance(r, Agg) and len(r.f) == 2:
            val, flag = r.f
            may = flag != 0 and flag != frozenset((0,))
        if may:
            I.ev("panic", body, ln, {"kind": "arith-call", "callee": callee.get("res") or callee.get("def"),
                                     "msg": "attempt to %s with overflow" % op.lower(), "may": True})
        return val
    return m


_prev_lookup = lookup


def lookup(dfn, res, callee):   # noqa: F811
    mt_ = _ARITH_RES.match(res or "")
    if mt_:
        return _arith_call(mt_.group(1), mt_.group(2))
    return _prev_lookup(dfn, res, callee)
