"""Models of foreign (core/alloc/std and a few third-party) functions for the
abstract interpreter.  This table is part of the trusted base: each entry
states the function's effect on the abstract domain by name.

A model has the signature  m(interp, state, depth, callee, args, body, ln) -> value
and returns BOT when the function diverges.
"""
import re

from . import domain as D
from .domain import (TOP, BOT, Agg, En, Arr, ArrS, Ref, FnV, Str, Opaque, Rng, Fl,
                     join, is_scalar)

NONE = 0
SOME = 1
OK = 0
ERR = 1

BOOL = frozenset((0, 1))


def none():
    return En({NONE: ()})


def some(v):
    return En({SOME: (v,)})


def opt_parts(v):
    """-> (may_none, payload or None)"""
    if isinstance(v, En):
        may_none = NONE in v.vs
        payload = v.vs[SOME][0] if SOME in v.vs else None
        return may_none, payload, True
    return True, TOP, False


def deref(I, st, v):
    if isinstance(v, Ref):
        return I.load(st, v.alloc, v.path)
    return TOP


def _panic(kind):
    def m(I, st, depth, callee, args, body, ln):
        I.ev("panic", body, ln, {"kind": kind, "callee": callee.get("def"),
                                 "msg": _msg_of(I, st, args)})
        return BOT
    return m


def _msg_of(I, st, args):
    for a in args:
        if isinstance(a, Str):
            return a.s
        if isinstance(a, Ref):
            v = I.load(st, a.alloc, a.path)
            if isinstance(v, Str):
                return v.s
    return None


# ---------------------------------------------------------------------------
# Option / Result

def opt_take(I, st, depth, callee, args, body, ln):
    r = args[0]
    if isinstance(r, Ref):
        old = I.load(st, r.alloc, r.path)
        I.store_to(st, r.alloc, r.path, none(), False, body, ln)
        return old
    return TOP


def opt_is_some(I, st, depth, callee, args, body, ln):
    v = deref(I, st, args[0])
    mn, pl, known = opt_parts(v)
    if not known:
        return BOOL
    out = set()
    if mn:
        out.add(0)
    if pl is not None:
        out.add(1)
    return D.norm_set(frozenset(out))


def opt_is_none(I, st, depth, callee, args, body, ln):
    v = opt_is_some(I, st, depth, callee, args, body, ln)
    return D.unop("Not", v, "bool")


def opt_as_ref(I, st, depth, callee, args, body, ln):
    r = args[0]
    if isinstance(r, Ref):
        v = I.load(st, r.alloc, r.path)
        if isinstance(v, En):
            vs = {}
            if NONE in v.vs:
                vs[NONE] = ()
            if SOME in v.vs:
                vs[SOME] = (Ref(r.alloc, r.path + (("d", SOME), 0), r.mut),)
            return En(vs)
    return TOP


def _expect_like(kind):
    def m(I, st, depth, callee, args, body, ln):
        v = args[0]
        if isinstance(v, En):
            # Option: variant 1 = Some ; Result: variant 0 = Ok
            is_result = "result" in callee.get("def", "")
            good = OK if is_result else SOME
            bad = [vi for vi in v.vs if vi != good]
            if bad:
                I.ev("panic", body, ln, {"kind": kind, "callee": callee.get("def"),
                                         "msg": _msg_of(I, st, args[1:]), "may": good in v.vs})
            if good in v.vs:
                return v.vs[good][0] if v.vs[good] else Agg(())
            return BOT
        I.ev("panic", body, ln, {"kind": kind, "callee": callee.get("def"),
                                 "msg": _msg_of(I, st, args[1:]), "may": True, "unknown_value": True})
        return TOP
    return m


def opt_or_else(I, st, depth, callee, args, body, ln):
    v, f = args[0], args[1]
    mn, pl, known = opt_parts(v)
    res = BOT
    if pl is not None:
        res = join(res, some(pl) if known else TOP)
    if mn:
        r = I.call_value(st, depth, f, [], body, ln)
        res = join(res, r)
    return res


def opt_map(I, st, depth, callee, args, body, ln):
    v, f = args[0], args[1]
    mn, pl, known = opt_parts(v)
    res = BOT
    if mn and known:
        res = none()
    if pl is not None:
        r = I.call_value(st, depth, f, [pl], body, ln)
        res = join(res, some(r) if r is not BOT else BOT)
    if not known:
        return TOP
    return res


def opt_and_then(I, st, depth, callee, args, body, ln):
    v, f = args[0], args[1]
    mn, pl, known = opt_parts(v)
    res = BOT
    if mn and known:
        res = none()
    if pl is not None:
        r = I.call_value(st, depth, f, [pl], body, ln)
        res = join(res, r)
    if not known:
        return TOP
    return res


def opt_unwrap_or(I, st, depth, callee, args, body, ln):
    v, d = args[0], args[1]
    mn, pl, known = opt_parts(v)
    res = BOT
    if pl is not None:
        res = join(res, pl)
    if mn:
        res = join(res, d)
    return res


def opt_cloned(I, st, depth, callee, args, body, ln):
    v = args[0]
    if isinstance(v, En):
        vs = {}
        if NONE in v.vs:
            vs[NONE] = ()
        if SOME in v.vs:
            vs[SOME] = (deref(I, st, v.vs[SOME][0]),)
        return En(vs)
    return TOP


def res_ok(I, st, depth, callee, args, body, ln):
    v = args[0]
    if isinstance(v, En):
        vs = {}
        if OK in v.vs:
            vs[SOME] = v.vs[OK]
        if ERR in v.vs:
            vs[NONE] = ()
        return En(vs)
    return TOP


def res_map(I, st, depth, callee, args, body, ln):
    v, f = args[0], args[1]
    if isinstance(v, En):
        vs = {}
        if ERR in v.vs:
            vs[ERR] = v.vs[ERR]
        if OK in v.vs:
            r = I.call_value(st, depth, f, [v.vs[OK][0]], body, ln)
            if r is not BOT:
                vs[OK] = (r,)
        return En(vs) if vs else BOT
    return TOP


# ---------------------------------------------------------------------------
# mem

def mem_replace(I, st, depth, callee, args, body, ln):
    r, new = args[0], args[1]
    if isinstance(r, Ref):
        old = I.load(st, r.alloc, r.path)
        I.store_to(st, r.alloc, r.path, new, False, body, ln)
        return old
    return TOP


def mem_take(I, st, depth, callee, args, body, ln):
    r = args[0]
    if isinstance(r, Ref):
        old = I.load(st, r.alloc, r.path)
        I.store_to(st, r.alloc, r.path, TOP, False, body, ln)
        return old
    return TOP


# ---------------------------------------------------------------------------
# integer helpers

def _int_ty_of(callee):
    d = callee.get("def", "")
    m = re.search(r"::num::<impl (\w+)>::", d)
    if m:
        return m.group(1)
    m = re.match(r"^(?:core|std)::(\w+)::", d)
    return None


def _overflowing(op):
    def m(I, st, depth, callee, args, body, ln):
        ty = _int_ty_of(callee)
        if ty not in D.INT_TYPES:
            return TOP
        return D.binop(op + "WithOverflow", args[0], args[1], ty)
    return m


def _overflowing_shift(op):
    def m(I, st, depth, callee, args, body, ln):
        ty = _int_ty_of(callee)
        if ty not in D.INT_TYPES:
            return TOP
        bits = D.INT_TYPES[ty][0]
        a, b = args[0], args[1]
        if not (is_scalar(a) and is_scalar(b)):
            return Agg((D.top_of_int(ty), BOOL))
        vb = D.values(b)
        if vb is None:
            return Agg((D.top_of_int(ty), BOOL))
        res = BOT
        ovf = set()
        for y in vb:
            ovf.add(int(not (0 <= y < bits)))
            res = join(res, D.binop(op, a, y % bits, ty))
        return Agg((res, D.norm_set(frozenset(ovf))))
    return m


def _wrapping(op):
    def m(I, st, depth, callee, args, body, ln):
        ty = _int_ty_of(callee)
        if ty not in D.INT_TYPES:
            return TOP
        return D.binop(op, args[0], args[1], ty)
    return m


def _saturating(op):
    def m(I, st, depth, callee, args, body, ln):
        ty = _int_ty_of(callee)
        if ty not in D.INT_TYPES:
            return TOP
        a, b = args[0], args[1]
        if not (is_scalar(a) and is_scalar(b)):
            return D.top_of_int(ty)
        lo, hi = D.ty_range(ty)
        la, ha = D.bounds(a)
        lb, hb = D.bounds(b)
        if D._pairs_ok(a, b):
            out = set()
            for x in D.values(a):
                for y in D.values(b):
                    r = x + y if op == "Add" else x - y
                    out.add(max(lo, min(hi, r)))
            return D.norm_set(frozenset(out))
        if op == "Add":
            return D.norm_rng(max(lo, min(hi, la + lb)), max(lo, min(hi, ha + hb)))
        return D.norm_rng(max(lo, min(hi, la - hb)), max(lo, min(hi, ha - lb)))
    return m


def _checked(op):
    def m(I, st, depth, callee, args, body, ln):
        ty = _int_ty_of(callee)
        if ty not in D.INT_TYPES:
            return TOP
        r = D.binop(op + "WithOverflow", args[0], args[1], ty)
        if isinstance(r, Agg):
            val, of = r.f
            vs = {}
            if D.contains(of, 0):
                vs[SOME] = (val,)
            if D.contains(of, 1):
                vs[NONE] = ()
            return En(vs)
        return TOP
    return m


def int_from_str_radix(I, st, depth, callee, args, body, ln):
    ty = _int_ty_of(callee)
    if ty in D.INT_TYPES:
        return En({OK: (D.top_of_int(ty),), ERR: (TOP,)})
    return TOP


# ---------------------------------------------------------------------------
# floats

def f_max(I, st, depth, callee, args, body, ln):
    a, b = D.fl_of(args[0]), D.fl_of(args[1])
    # f32::max ignores a NaN operand
    lo = max(a.lo, b.lo)
    hi = max(a.hi, b.hi)
    if a.nan:
        lo = min(lo, b.lo)
    if b.nan:
        lo = min(lo, a.lo)
    return Fl(lo, hi, a.nan and b.nan)


def f_min(I, st, depth, callee, args, body, ln):
    a, b = D.fl_of(args[0]), D.fl_of(args[1])
    lo = min(a.lo, b.lo)
    hi = min(a.hi, b.hi)
    if a.nan:
        hi = max(hi, b.hi)
    if b.nan:
        hi = max(hi, a.hi)
    return Fl(lo, hi, a.nan and b.nan)


def range_incl_new(I, st, depth, callee, args, body, ln):
    # RangeInclusive { start, end, exhausted }
    return Agg((args[0], args[1], 0))


def range_incl_contains(I, st, depth, callee, args, body, ln):
    r = deref(I, st, args[0])
    x = deref(I, st, args[1])
    if isinstance(r, Agg) and len(r.f) >= 2:
        lo, hi = r.f[0], r.f[1]
        if isinstance(x, Fl) or isinstance(lo, Fl):
            c1 = D.fcmp("Le", lo, x)
            c2 = D.fcmp("Le", x, hi)
        elif is_scalar(x) and is_scalar(lo) and is_scalar(hi):
            c1 = D.cmpop("Le", lo, x)
            c2 = D.cmpop("Le", x, hi)
        else:
            return BOOL
        out = set()
        if D.contains(c1, 1) and D.contains(c2, 1):
            out.add(1)
        if D.contains(c1, 0) or D.contains(c2, 0):
            out.add(0)
        # exact: both definitely true
        if c1 == 1 and c2 == 1:
            return 1
        return D.norm_set(frozenset(out))
    return BOOL


# ---------------------------------------------------------------------------
# conversions

PRIMS = set(D.INT_TYPES) | {"f32", "f64"}


def conv_from(I, st, depth, callee, args, body, ln):
    """<U as From<T>>::from for primitives and identity"""
    ga = callee.get("ga", [])
    if len(ga) >= 2:
        u, t = ga[0], ga[1]
        if u == t:
            return args[0]
        if u in D.INT_TYPES and t in D.INT_TYPES:
            return D.cast_int(args[0], u, t)
        if u in ("f32", "f64") and t in D.INT_TYPES:
            return D.int_to_float(args[0])
        if u in ("f32", "f64") and t in ("f32", "f64"):
            return args[0]
        if u == "alloc::string::String" and t == "&str":
            return deref(I, st, args[0])
    I.ev("unknown_extern", body, ln, callee.get("defargs"))
    return TOP


def conv_into(I, st, depth, callee, args, body, ln):
    """<T as Into<U>>::into  ==  <U as From<T>>::from (resolved by the driver)"""
    ga = callee.get("ga", [])
    tgt = callee.get("into_from")
    if tgt is not None and tgt in I.p.bodies:
        return I.call_fn(st, depth, {"def": tgt, "res": tgt, "local": True, "ik": "Item"},
                         args, body, ln)
    if len(ga) >= 2:
        t, u = ga[0], ga[1]
        if t == u:
            return args[0]
        return conv_from(I, st, depth, {"ga": [u, t], "defargs": callee.get("defargs")}, args, body, ln)
    return TOP


def from_primitive(I, st, depth, callee, args, body, ln):
    """num_traits::FromPrimitive::from_u8 & co: default methods delegating to
    the implementor's from_u64 / from_i64"""
    ga = callee.get("ga", [])
    name = callee.get("def", "").split("::")[-1]
    if ga:
        self_ty = ga[0]
        signed = name in ("from_i8", "from_i16", "from_i32", "from_isize")
        tgt = "from_i64" if signed else "from_u64"
        for tr in ("num_traits::cast::FromPrimitive",):
            path = "<%s as %s>::%s" % (self_ty, tr, tgt)
            if path in I.p.bodies:
                v = args[0]
                v = D.cast_int(v, "i64" if signed else "u64") if is_scalar(v) else v
                return I.call_fn(st, depth, {"def": path, "res": path, "local": True, "ik": "Item"},
                                 [v], body, ln)
    I.ev("unknown_extern", body, ln, callee.get("defargs"))
    return TOP


def clone_prim(I, st, depth, callee, args, body, ln):
    return deref(I, st, args[0])


def eq_prim(op):
    def m(I, st, depth, callee, args, body, ln):
        ga = callee.get("ga", [])
        if op == "Ne" and ga:
            # default method PartialEq::ne = !eq: follow a local eq impl
            cands = ["<%s as core::cmp::PartialEq>::eq" % ga[0]]
            if len(ga) > 1:
                cands.append("<%s as core::cmp::PartialEq<%s>>::eq" % (ga[0], ga[1]))
            for path in cands:
                if path in I.p.bodies:
                    r = I.call_fn(st, depth, {"def": path, "res": path, "local": True, "ik": "Item"},
                                  args, body, ln)
                    if is_scalar(r):
                        return D.unop("Not", r, "bool")
                    return BOOL
        a = deref(I, st, args[0])
        b = deref(I, st, args[1])
        if isinstance(a, Ref) or isinstance(b, Ref):
            a = deref(I, st, a) if isinstance(a, Ref) else a
            b = deref(I, st, b) if isinstance(b, Ref) else b
        if isinstance(a, Fl) or isinstance(b, Fl):
            return D.fcmp(op, a, b)
        if is_scalar(a) and is_scalar(b):
            return D.cmpop(op, a, b)
        if isinstance(a, Str) and isinstance(b, Str):
            r = a.s == b.s
            return int(r if op == "Eq" else not r)
        if isinstance(a, En) and isinstance(b, En):
            # payload-free enums compare by variant
            if all(not f for f in a.vs.values()) and all(not f for f in b.vs.values()):
                sa, sb = set(a.vs), set(b.vs)
                out = set()
                if sa & sb:
                    out.add(1)
                if len(sa | sb) > 1:
                    out.add(0)
                r = D.norm_set(frozenset(out))
                return r if op == "Eq" else D.unop("Not", r, "bool")
        return BOOL
    return m


def discriminant_value(I, st, depth, callee, args, body, ln):
    v = deref(I, st, args[0])
    ga = callee.get("ga", [])
    if isinstance(v, En) and ga:
        return I.discr_values(v, ga[0])
    return TOP


def ignore_unit(I, st, depth, callee, args, body, ln):
    return Agg(())


def ignore_top(I, st, depth, callee, args, body, ln):
    return TOP


def identity(I, st, depth, callee, args, body, ln):
    return args[0]


def bool_then(I, st, depth, callee, args, body, ln):
    return TOP


def deref_ref(I, st, depth, callee, args, body, ln):
    # <&T as Deref>::deref(&&T) -> &T
    return deref(I, st, args[0])


TABLE = {
    "core::option::Option::<T>::take": opt_take,
    "core::option::Option::<T>::is_some": opt_is_some,
    "core::option::Option::<T>::is_none": opt_is_none,
    "core::option::Option::<T>::as_ref": opt_as_ref,
    "core::option::Option::<T>::as_mut": opt_as_ref,
    "core::option::Option::<T>::expect": _expect_like("expect"),
    "core::option::Option::<T>::unwrap": _expect_like("unwrap"),
    "core::result::Result::<T, E>::expect": _expect_like("expect"),
    "core::result::Result::<T, E>::unwrap": _expect_like("unwrap"),
    "core::option::Option::<T>::or_else": opt_or_else,
    "core::option::Option::<T>::map": opt_map,
    "core::option::Option::<T>::and_then": opt_and_then,
    "core::option::Option::<T>::unwrap_or": opt_unwrap_or,
    "core::option::Option::<&T>::cloned": opt_cloned,
    "core::option::Option::<&T>::copied": opt_cloned,
    "core::result::Result::<T, E>::ok": res_ok,
    "core::result::Result::<T, E>::map": res_map,
    "core::mem::replace": mem_replace,
    "core::mem::take": mem_take,
    "core::cmp::PartialEq::eq": eq_prim("Eq"),
    "core::cmp::PartialEq::ne": eq_prim("Ne"),
    "core::clone::Clone::clone": clone_prim,
    "core::convert::From::from": conv_from,
    "core::convert::Into::into": conv_into,
            "core::f32::<impl f32>::max": f_max,
    "core::f32::<impl f32>::min": f_min,
    "core::ops::range::RangeInclusive::<Idx>::new": range_incl_new,
    "core::ops::range::RangeInclusive::<Idx>::contains": range_incl_contains,
    "core::ops::deref::Deref::deref": deref_ref,
    "std::panicking::begin_panic": _panic("panic"),
    "std::rt::begin_panic": _panic("panic"),
    "core::panicking::panic": _panic("panic"),
    "core::panicking::panic_fmt": _panic("panic_fmt"),
    "std::rt::panic_fmt": _panic("panic_fmt"),
    "core::panicking::panic_explicit": _panic("panic"),
    "core::panicking::unreachable_display": _panic("unreachable"),
    "core::panicking::panic_display": _panic("panic"),
    "core::panicking::panic_str_2015": _panic("panic"),
    "core::panicking::assert_failed": _panic("assert_failed"),
    "core::panicking::panic_nounwind": _panic("panic"),
    "core::option::expect_failed": _panic("expect"),
    "core::option::unwrap_failed": _panic("unwrap"),
    "core::result::unwrap_failed": _panic("unwrap"),
    "core::slice::index::slice_index_fail": _panic("slice_index"),
    "core::str::slice_error_fail": _panic("str_slice"),
    "std::process::exit": _panic("exit"),
        "core::intrinsics::cold_path": ignore_unit,
    "core::intrinsics::discriminant_value": discriminant_value,
}

for _ty in ("u8", "u16", "u32", "u64", "usize", "i8", "i16", "i32", "i64", "isize"):
    for _pre in ("core",):
        base = "%s::num::<impl %s>::" % (_pre, _ty)
        TABLE[base + "overflowing_add"] = _overflowing("Add")
        TABLE[base + "overflowing_sub"] = _overflowing("Sub")
        TABLE[base + "overflowing_mul"] = _overflowing("Mul")
        TABLE[base + "overflowing_shr"] = _overflowing_shift("Shr")
        TABLE[base + "overflowing_shl"] = _overflowing_shift("Shl")
        TABLE[base + "wrapping_add"] = _wrapping("Add")
        TABLE[base + "wrapping_sub"] = _wrapping("Sub")
        TABLE[base + "wrapping_mul"] = _wrapping("Mul")
        TABLE[base + "saturating_sub"] = _saturating("Sub")
        TABLE[base + "saturating_add"] = _saturating("Add")
        TABLE[base + "checked_add"] = _checked("Add")
        TABLE[base + "checked_sub"] = _checked("Sub")
        TABLE[base + "checked_mul"] = _checked("Mul")
        TABLE[base + "from_str_radix"] = int_from_str_radix

FROM_PRIMITIVE = re.compile(r"(?:^|::)FromPrimitive::from_(u8|u16|u32|usize|i8|i16|i32|isize)$")


def lookup(dfn, res, callee):
    if dfn is None:
        return None
    m = TABLE.get(dfn)
    if m is not None:
        # PartialEq/Clone/From resolved to a *local* impl are interpreted, not modelled
        return m
    if FROM_PRIMITIVE.search(dfn):
        return from_primitive
    if dfn.startswith("log::") or dfn.startswith("core::fmt::") or dfn.startswith("alloc::fmt::"):
        return ignore_top
    return None
