"""Loader for the reference tables in spec/*.toml"""
import os
import tomllib

VERIF = os.path.dirname(os.path.dirname(os.path.abspath(__file__)))


def load(name):
    with open(os.path.join(VERIF, "spec", name + ".toml"), "rb") as fh:
        return tomllib.load(fh)


def expand_ranges(rs):
    out = set()
    for lo, hi in rs:
        out.update(range(lo, hi + 1))
    return out
