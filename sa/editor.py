"""C17, clause "line editor": zone analysis of the InputState methods under the struct invariant

   Inv:  input_index <= input.len()
         history_index = Some(k)            =>  k < history.len()
         curr_completions = Some((list, k)) =>  k < list.len()

Each method is analysed for every combination of the two option tags at entry
(so the guarded parts of Inv are plain constraints), all paths separately.  A
panic-capable site is discharged when its condition is implied on every path
that reaches it; Inv must hold again at every return and before every call of a
sibling method (whose effect is then summarised as "anything that satisfies
Inv")."""
from . import zone
from .zone import Lin, St, ISIZE_MAX, USIZE_MAX

IS = "B::tui::input::InputState"
METHODS = ["handle", "next_completion", "previous_completion", "complete"]
HI = ("S", "history_index")
CC = ("S", "curr_completions")


class EditorAnalyzer(zone.Analyzer):
    def __init__(self, p, body, tags):
        super().__init__(p, body)
        self.tags = tags
        self.guards = {}
        for m in METHODS:
            self.call_hooks["%s::%s" % (IS, m)] = self.sibling

    # ---- invariant --------------------------------------------------------------------------
    def entry(self):
        st = St()
        st.env[("L", 1)] = ("ref", ("S",), True)
        self.establish(st, self.tags[0], self.tags[1], "0")
        return st

    def establish(self, st, hi_tag, cc_tag, suffix):
        d = st.dbm

        def sym(name, hi=None):
            s = "%s%s" % (name, suffix)
            d.add("0", s, 0)
            if hi is not None:
                d.add(s, "0", hi)
            return Lin(s, 0)
        i, n, h = sym("i", USIZE_MAX), sym("n", ISIZE_MAX), sym("h", ISIZE_MAX)
        st.env[("S", "input_index")] = i
        st.env[("S", "input", "#len")] = n
        st.env[("S", "history", "#len")] = h
        d.assume_le(i, n)
        for P, tag, nm, lenpath in ((HI, hi_tag, "k", ("S", "history")), (CC, cc_tag, "c", None)):
            for key, _ in zone.prefix_items(st.env, P):
                del st.env[key]
            st.env[P + ("#tag",)] = tag
            if tag == "None":
                continue
            if P is HI:
                pay = sym("hk", USIZE_MAX)
                st.env[P + ("@Some", "0")] = pay
                ln = h
            else:
                pay = sym("ck", USIZE_MAX)
                ln = sym("cn", ISIZE_MAX)
                st.env[P + ("@Some", "0", "0", "#len")] = ln
                st.env[P + ("@Some", "0", "1")] = pay
            if tag == "Some":
                d.assume_le(Lin(pay.s, pay.k + 1), ln)
            else:
                self.guards[(P, suffix)] = (pay, ln)

    def on_tag(self, st, P, tag, previous):
        if tag == "Some" and isinstance(previous, str) and previous.startswith("?"):
            g = self.guards.get((P, previous[1:]))
            if g:
                st.dbm.assume_le(Lin(g[0].s, g[0].k + 1), g[1])

    def inv_problems(self, st):
        out = []
        i = st.env.get(("S", "input_index"))
        n = self.vlen(st, ("S", "input"))
        if not (isinstance(i, Lin) and st.dbm.le(i, n)):
            out.append("cursor %r not known to be within the text of length %r" % (i, n))
        for P, what in ((HI, "history index"), (CC, "completion index")):
            tag = st.env.get(P + ("#tag",))
            if tag == "None":
                continue
            if P is HI:
                pay = st.env.get(P + ("@Some", "0"))
                ln = self.vlen(st, ("S", "history"))
            else:
                pay = st.env.get(P + ("@Some", "0", "1"))
                ln = self.vlen(st, P + ("@Some", "0", "0"))
            d = st.dbm
            if isinstance(tag, str) and tag.startswith("?"):
                g = self.guards.get((P, tag[1:]))
                d = st.dbm.copy()
                if g:
                    d.assume_le(Lin(g[0].s, g[0].k + 1), g[1])
            elif tag != "Some":
                out.append("%s: option state unknown" % what)
                continue
            if not (isinstance(pay, Lin) and d.le(Lin(pay.s, pay.k + 1), ln)):
                out.append("%s %r not known to be below the length %r" % (what, pay, ln))
        return out

    def sibling(self, an, st, args, dest, bb, t):
        tgt = self.ref_target(st, args[0]) if args else None
        probs = self.inv_problems(st) if tgt == ("S",) else ["receiver is not the editor state"]
        self.oblige(bb, not probs, "invariant before calling %s: %s" % (t["f"].get("res", "").rsplit("::", 1)[-1],
                                                                      "; ".join(probs) or "holds"))
        self.counter += 1
        suffix = "c%d" % self.counter
        for key, _ in zone.prefix_items(st.env, ("S",)):
            del st.env[key]
        self.establish(st, "?" + suffix, "?" + suffix, suffix)
        return True


def submit_problems(p, an, st):
    """Enter: a non-empty line becomes the newest history entry (Tui::handle_input executes
    `history.last()` right after handing Enter to the editor, so anything else would execute a
    different line than the one submitted)"""
    kc = p.need_type("crossterm::event::KeyCode")
    enter = [i for i, v in enumerate(kc["variants"]) if v["n"] == "Enter"][0]
    keys = [v for k, v in st.env.items() if k and k[0] == "#variant"]
    if enter not in keys:
        return []
    n0 = Lin("n0", 0)
    if st.dbm.le(n0, Lin("0", 0)):
        return []          # the line was empty: nothing is submitted
    last = st.env.get(("S", "history", "#last"))
    h = an.vlen(st, ("S", "history"))
    ok = (isinstance(last, tuple) and last[0] == "collected" and last[1][0] == ("S", "input") and last[1][1] == n0
          and h == Lin("h0", 1))
    if ok:
        return []
    return ["Enter on a non-empty line does not make that line the newest history entry (history last: %r, length %r)" % (last, h)]


def analyse(p):
    """-> {method: {bb: [(ok, detail), ...]}}, {method: [exit problems]}"""
    sites = {}
    exits = {}
    npaths = 0
    for m in METHODS:
        body = p.need_body("%s::%s" % (IS, m))
        sites[m] = {}
        exits[m] = []
        for hi_tag in ("None", "Some"):
            for cc_tag in ("None", "Some"):
                an = EditorAnalyzer(p, body, (hi_tag, cc_tag))
                an.run(an.entry())
                for bb, lst in an.site.items():
                    sites[m].setdefault(bb, []).extend(lst)
                for st in an.exit_states:
                    npaths += 1
                    pr = an.inv_problems(st)
                    if m == "handle":
                        pr = pr + submit_problems(p, an, st)
                    if pr:
                        exits[m].append("entry (history %s, completions %s): %s" % (hi_tag, cc_tag, "; ".join(pr)))
    return sites, exits, npaths
