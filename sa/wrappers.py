"""Thin wrappers of `Machine`: the method of the outer type must hand its argument, unchanged and
unconditionally, to exactly one call of the routine it is named after - in every machine state.

The wrapper is interpreted abstractly on a machine whose every field is unknown (all three run
states); the target routine is replaced by a stand-in that records its receiver and arguments and
overwrites a marker cell.  "Called on every path" is a must-property: the marker cell holds the
stand-in's value after the wrapper only if no path around the call exists (a joined path would
leave the join of both markers, i.e. TOP); the recorded may-calls bound it to one call."""
from . import absint, step, shapes
from .domain import Opaque, Ref, Agg, TOP

RM = step.RM
MACHINE = step.MACHINE
BUS = "L::machine::bus::Bus"
BOARD = "L::machine::board::Board"

# Machine method -> (target routine, receiver path inside Machine, properties it serves)
TABLE = {
    "trigger_key_interrupt": (RM + "::trigger_key_edge_interrupt", "raw", 0),
    "trigger_key_continue": (RM + "::trigger_key_continue", "raw", 0),
    "set_input_fc": (BUS + "::input_fc", "raw.bus", 1),
    "set_input_fd": (BUS + "::input_fd", "raw.bus", 1),
    "set_input_fe": (BUS + "::input_fe", "raw.bus", 1),
    "set_input_ff": (BUS + "::input_ff", "raw.bus", 1),
    "set_digital_input1": (BOARD + "::set_digital_input1", "raw.bus.board", 1),
    "set_temp": (BOARD + "::set_temp", "raw.bus.board", 1),
    "set_jumper1": (BOARD + "::set_jumper1", "raw.bus.board", 1),
    "set_jumper2": (BOARD + "::set_jumper2", "raw.bus.board", 1),
    "set_analog_input1": (BOARD + "::set_analog_input1", "raw.bus.board", 1),
    "set_analog_input2": (BOARD + "::set_analog_input2", "raw.bus.board", 1),
    "set_universal_input_output1": (BOARD + "::set_universal_input_output1", "raw.bus.board", 1),
    "set_universal_input_output2": (BOARD + "::set_universal_input_output2", "raw.bus.board", 1),
    "set_universal_input_output3": (BOARD + "::set_universal_input_output3", "raw.bus.board", 1),
}


def _path_of(p, dotted):
    ty = MACHINE
    path = []
    for name in dotted.split("."):
        base, _ = shapes.split_generic_args(ty)
        idx = p.field_index(base, name)
        path.append(idx)
        ty = p.need_type(base)["variants"][0]["fields"][idx]["ty"]
    return tuple(path)


def check(ctx, names, key_prefix="wrapper"):
    p = ctx.p
    chk = ctx.chk
    for name in names:
        target, recv, nargs = TABLE[name]
        wb = p.need_body("%s::%s" % (MACHINE, name))
        p.need_body(target)
        I = absint.Interp(p)
        st = absint.State()
        ov = step.machine_overrides(p, None, ["Running", "Stopped", "ErrorStopped"], None, stacksize_notset=True)
        ma = step.new_machine(p, I, st, ov, MACHINE)
        marker = I.new_alloc(st, "marker", Opaque("NOT-CALLED"))
        calls = []

        def stub(I_, st_, depth, callee, args, body, ln):
            calls.append(list(args))
            I_.store_to(st_, marker, (), Opaque("CALLED"), False, body, ln)
            return Agg(())
        I.fn_overrides[target] = stub
        I.events.clear()
        args = [Ref(ma, (), True)] + [Opaque("ARG")] * nargs
        I.run_body(wb, args, st, 0)
        bad = [e for e in I.events if e.kind in step.BAD_EVENTS]
        written = sorted(step.written_fields(p, I, ty=MACHINE))
        mval = I.load(st, marker, ())
        want_recv = _path_of(p, recv)
        problems = []
        if bad:
            problems.append("not analysable: %r" % bad[:2])
        if mval != Opaque("CALLED"):
            problems.append("the call is not made on every path (in some machine state or under some condition it is skipped)")
        if len(calls) != 1:
            problems.append("%d call sites reached (expected 1)" % len(calls))
        for c in calls:
            r = c[0] if c else None
            if not (isinstance(r, Ref) and r.alloc == ma and tuple(r.path) == want_recv):
                problems.append("receiver is %r, not Machine.%s" % (r, recv))
            if list(c[1:]) != [Opaque("ARG")] * nargs:
                problems.append("argument not passed through unchanged: %r" % (c[1:],))
        if written:
            problems.append("writes machine fields itself: %s" % written[:4])
        chk.ob("%s/%s" % (key_prefix, name), not problems,
               "the Machine method hands its argument unchanged to exactly one, unconditional call of the routine it stands "
               "for, in every machine state, and does nothing else", wb.loc(),
               "; ".join(problems) or "-> %s" % target.replace("L::machine::", ""),
               "A4 of the wrapper on an unknown machine with a recording stand-in and a must-call marker")
