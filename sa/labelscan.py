"""The undefined-label scan of the parser (validate_lines), interpreted abstractly on every
instruction shape with opaque label names (shared by C03 and C06)."""
from . import asmmodel, absint
from .domain import En, Arr, Ref, Opaque, Agg

PI = "L::parser::implementation::"


def tags(v, out):
    if isinstance(v, Opaque):
        out.add(v.tag)
    elif isinstance(v, En):
        for pl in v.vs.values():
            for x in pl:
                tags(x, out)
    elif isinstance(v, Agg):
        for x in v.f:
            tags(x, out)
    elif isinstance(v, Arr):
        for x in v.e:
            tags(x, out)
    return out


_CACHE = {}


def scan(p):
    """-> (number of cases, list of disagreeing cases)"""
    if id(p) in _CACHE:
        return _CACHE[id(p)]
    vb = p.need_body(PI + "validate_lines")
    am = asmmodel.AsmModel(p)
    lvi = am.vi["Line"]
    nshapes = 0
    bad_scan = []
    for vname, combo, value in am.instructions():
        labs = sorted(tags(value, set()))
        defining = vname == "AsmEquals"
        for mode in ("undefined", "defined"):
            if mode == "defined" and not labs:
                continue
            I = absint.Interp(p)
            I.unroll = 4
            st = absint.State()
            lines = []
            if mode == "defined":
                lines = [En({lvi["Label"]: (Opaque(l), En({0: ()}))}) for l in labs]
            lines.append(En({lvi["Instruction"]: (value, En({0: ()}))}))
            la = I.new_alloc(st, "lines", Arr(lines))
            r = I.run_body(vb, [Ref(la, (), False)], st, 0)
            evs = [e for e in I.events if e.kind in ("unknown_extern", "havoc", "wild_write", "unknown_call_value")]
            if mode == "undefined" and labs and not defining:
                okr = (isinstance(r, En) and set(r.vs) == {1} and isinstance(r.vs[1][0], En)
                       and isinstance(list(r.vs[1][0].vs.values())[0][0], Arr)
                       and sorted(x.tag for x in list(r.vs[1][0].vs.values())[0][0].e if isinstance(x, Opaque)) == labs)
            else:
                okr = isinstance(r, En) and set(r.vs) == {0}
            nshapes += 1
            if not okr or evs:
                bad_scan.append("%s %s (%s labels): %r" % (vname, [getattr(c, "desc", c) for c in combo]
                                                           if isinstance(combo, (list, tuple)) else combo, mode, r))
    _CACHE[id(p)] = (nshapes, bad_scan)
    return nshapes, bad_scan


def count_cases(p, limit, thorough=False):
    """The label-count limit on concrete counts: k label definitions (label lines and .EQU lines alternating) are accepted
    up to the limit and rejected beyond it - also for counts that a narrow counter would wrap (256 + k).
    -> (cases, disagreeing cases)"""
    vb = p.need_body(PI + "validate_lines")
    am = asmmodel.AsmModel(p)
    lvi = am.vi["Line"]
    equ = None
    for vname, combo, value in am.instructions():
        if vname == "AsmEquals":
            equ = value
            break
    t = p.need_type("L::parser::implementation::error::ParserError")
    too_many = [i for i, v in enumerate(t["variants"]) if v["n"] == "TooManyLabels"]
    if not too_many or equ is None:
        from .facts import AnchorMissing
        raise AnchorMissing("ParserError::TooManyLabels / Instruction::AsmEquals")
    ivi = list(equ.vs)[0]
    counts = [0, 1, limit - 1, limit, limit + 1, limit + 2, 2 * limit, 255, 256, 257, 256 + limit, 256 + limit + 1] + ([512, 513, 1024 + limit] if thorough else [])
    bad = []
    for k in counts:
        for mix in ("labels", "mixed"):
            I = absint.Interp(p)
            I.unroll = k + 8
            st = absint.State()
            lines = []
            for j in range(k):
                if mix == "mixed" and j % 2:
                    pl = list(equ.vs[ivi])
                    pl[0] = Opaque("L%d" % j)
                    lines.append(En({lvi["Instruction"]: (En({ivi: tuple(pl)}), En({0: ()}))}))
                else:
                    lines.append(En({lvi["Label"]: (Opaque("L%d" % j), En({0: ()}))}))
            la = I.new_alloc(st, "lines", Arr(lines))
            r = I.run_body(vb, [Ref(la, (), False)], st, 0)
            evs = [e for e in I.events if e.kind in ("unknown_extern", "havoc", "wild_write", "unknown_call_value")]
            if k <= limit:
                okr = isinstance(r, En) and set(r.vs) == {0}
            else:
                okr = (isinstance(r, En) and set(r.vs) == {1} and isinstance(r.vs[1][0], En)
                       and set(r.vs[1][0].vs) == set(too_many))
            if not okr or evs:
                bad.append("%d definitions (%s): %r %s" % (k, mix, r, [repr(e)[:80] for e in evs[:1]]))
    return 2 * len(counts), bad
