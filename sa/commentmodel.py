"""The parser's parse_comment, interpreted on concrete comment texts (shared by C03 and C16)."""
import itertools
from . import absint, pestmodel
from .pestmodel import PairV
from .domain import Str

PIMPL = "L::parser::implementation::"
ALPHABET = " \t;x"


def family(maxlen=4):
    """every text over {blank, tab, ';', letter} up to maxlen characters (what follows the leading semicolon)"""
    out = [""]
    for n in range(1, maxlen + 1):
        out += ["".join(c) for c in itertools.product(ALPHABET, repeat=n)]
    return out


class CommentParser:
    def __init__(self, p, g):
        self.p = p
        self.body = p.need_body(PIMPL + "parse_comment")
        self.pm = pestmodel.PestModel(p, g)

    def parse(self, rest):
        """-> (stored text as Str or an abstract value, problems)"""
        I = absint.Interp(self.p)
        self.pm.install(I)
        I.fn_overrides.pop("core::str::<impl str>::trim_matches", None)      # the real trimming, on the concrete text
        pair = PairV("comment", None, (PairV("semicolon", 0, None, Str(";")), PairV("rest", 1, None, Str(rest))),
                     Str(";" + rest))
        st = absint.State()
        rv = I.run_body(self.body, [pair], st, 0)
        bad = [e for e in I.events if e.kind in ("panic", "unknown_extern", "unknown_call_value")
               or (e.kind == "assert" and e.info["may_fail"])]
        return rv, bad
