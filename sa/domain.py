"""Abstract value domain for the MIR abstract interpreter (analysis A4).

Scalars
  int                    one concrete value (bools are 0/1, chars code points)
  frozenset[int]         a small finite set (2..SETMAX values)
  Rng(lo, hi)            an interval (inclusive)
  Fl(lo, hi, nan)        a float interval with a may-be-NaN flag
  TOP                    no information (any type)
  BOT                    no value (unreachable / uninitialised)
Aggregates (immutable, updates are functional)
  Agg(fields)            struct / tuple / closure environment
  En({vi: fields})       enum value: the possible variants with their payloads
  Arr(elems)             array / vector with exactly known element list
  ArrS(elem, n)          summarised array: every element is `elem`, n elements
  Ref(alloc, path, mut)  pointer to a place of the abstract store
  FnV(path, env)         function item or closure value
  Str(s)                 a string constant
  Opaque(tag)            an unknown value with identity: survives copies and
                         moves, any computation on it yields TOP.
"""
import struct as _struct


SETMAX = 600
PAIRMAX = 70000


class _Top:
    __slots__ = ()

    def __repr__(self):
        return "TOP"


class _Bot:
    __slots__ = ()

    def __repr__(self):
        return "BOT"


TOP = _Top()
BOT = _Bot()


class Rng:
    __slots__ = ("lo", "hi")

    def __init__(self, lo, hi):
        self.lo = lo
        self.hi = hi

    def __eq__(self, o):
        return isinstance(o, Rng) and o.lo == self.lo and o.hi == self.hi

    def __hash__(self):
        return hash(("Rng", self.lo, self.hi))

    def __repr__(self):
        return "[%s..%s]" % (self.lo, self.hi)


class Fl:
    __slots__ = ("lo", "hi", "nan")

    def __init__(self, lo, hi, nan=False):
        self.lo = lo
        self.hi = hi
        self.nan = nan

    def __eq__(self, o):
        return isinstance(o, Fl) and o.lo == self.lo and o.hi == self.hi and o.nan == self.nan

    def __hash__(self):
        return hash(("Fl", self.lo, self.hi, self.nan))

    def __repr__(self):
        return "f[%s..%s%s]" % (self.lo, self.hi, " nan" if self.nan else "")


INF = float("inf")
FTOP = Fl(-INF, INF, True)


class Agg:
    __slots__ = ("f",)

    def __init__(self, f):
        self.f = tuple(f)

    def __eq__(self, o):
        return isinstance(o, Agg) and o.f == self.f

    def __hash__(self):
        return hash(("Agg", self.f))

    def __repr__(self):
        return "Agg%r" % (self.f,)


class En:
    __slots__ = ("vs",)

    def __init__(self, vs):
        self.vs = dict(vs)

    def __eq__(self, o):
        return isinstance(o, En) and o.vs == self.vs

    def __hash__(self):
        return hash(("En", tuple(sorted(self.vs.items()))))

    def __repr__(self):
        return "En%r" % (self.vs,)


class Arr:
    __slots__ = ("e",)

    def __init__(self, e):
        self.e = tuple(e)

    def __eq__(self, o):
        return isinstance(o, Arr) and o.e == self.e

    def __hash__(self):
        return hash(("Arr", self.e))

    def __repr__(self):
        if len(self.e) > 12:
            return "Arr(%d elems)" % len(self.e)
        return "Arr%r" % (self.e,)


class ArrS:
    __slots__ = ("elem", "n")

    def __init__(self, elem, n):
        self.elem = elem
        self.n = n

    def __eq__(self, o):
        return isinstance(o, ArrS) and o.elem == self.elem and o.n == self.n

    def __hash__(self):
        return hash(("ArrS", self.elem, self.n))

    def __repr__(self):
        return "ArrS(%r x %r)" % (self.elem, self.n)


class Ref:
    __slots__ = ("alloc", "path", "mut")

    def __init__(self, alloc, path=(), mut=False):
        self.alloc = alloc
        self.path = tuple(path)
        self.mut = mut

    def __eq__(self, o):
        return isinstance(o, Ref) and o.alloc == self.alloc and o.path == self.path

    def __hash__(self):
        return hash(("Ref", self.alloc, self.path))

    def __repr__(self):
        return "&%s%r%s" % ("mut " if self.mut else "", self.alloc, list(self.path))


class FnV:
    __slots__ = ("path", "env", "callee")

    def __init__(self, path, env=None, callee=None):
        self.path = path
        self.env = env
        self.callee = callee

    def __eq__(self, o):
        return isinstance(o, FnV) and o.path == self.path and o.env == self.env

    def __hash__(self):
        return hash(("FnV", self.path, self.env))

    def __repr__(self):
        return "fn<%s>" % self.path


class Str:
    __slots__ = ("s",)

    def __init__(self, s):
        self.s = s

    def __eq__(self, o):
        return isinstance(o, Str) and o.s == self.s

    def __hash__(self):
        return hash(("Str", self.s))

    def __repr__(self):
        return "Str(%r)" % self.s


class It:
    """abstract iterator: kind 'exact' (the remaining items, in order) or
    'rep' (zero or more repetitions of the item group)"""
    __slots__ = ("kind", "items")

    def __init__(self, kind, items):
        self.kind = kind
        self.items = tuple(items)

    def __eq__(self, o):
        return isinstance(o, It) and o.kind == self.kind and o.items == self.items

    def __hash__(self):
        return hash(("It", self.kind, self.items))

    def __repr__(self):
        return "It(%s,%r)" % (self.kind, self.items)


class BoxV:
    """an owning pointer (Box/Rc) to an abstract heap cell"""
    __slots__ = ("ref",)

    def __init__(self, ref):
        self.ref = ref

    def __eq__(self, o):
        return isinstance(o, BoxV) and o.ref == self.ref

    def __hash__(self):
        return hash(("BoxV", self.ref))

    def __repr__(self):
        return "Box(%r)" % (self.ref,)


class Opaque:
    __slots__ = ("tag",)

    def __init__(self, tag):
        self.tag = tag

    def __eq__(self, o):
        return isinstance(o, Opaque) and o.tag == self.tag

    def __hash__(self):
        return hash(("Opaque", self.tag))

    def __repr__(self):
        return "Opaque(%s)" % (self.tag,)


# ---------------------------------------------------------------------------
# integer types

INT_TYPES = {
    "u8": (8, False), "u16": (16, False), "u32": (32, False), "u64": (64, False),
    "u128": (128, False), "usize": (64, False),
    "i8": (8, True), "i16": (16, True), "i32": (32, True), "i64": (64, True),
    "i128": (128, True), "isize": (64, True),
    "bool": (1, False), "char": (32, False),
}


def ty_range(ty):
    bits, signed = INT_TYPES[ty]
    if ty == "char":
        return 0, 0x10FFFF
    if signed:
        return -(1 << (bits - 1)), (1 << (bits - 1)) - 1
    return 0, (1 << bits) - 1


def is_int_ty(ty):
    return ty in INT_TYPES


def top_of_int(ty):
    lo, hi = ty_range(ty)
    if hi - lo < SETMAX:
        return frozenset(range(lo, hi + 1))
    return Rng(lo, hi)


def is_scalar(v):
    return isinstance(v, (int, frozenset, Rng))


def norm_set(s):
    """frozenset/iterable of ints -> canonical abstract int"""
    if not isinstance(s, frozenset):
        s = frozenset(s)
    n = len(s)
    if n == 0:
        return BOT
    if n == 1:
        return next(iter(s))
    if n > SETMAX:
        return Rng(min(s), max(s))
    return s


def norm_rng(lo, hi):
    if lo > hi:
        return BOT
    if lo == hi:
        return lo
    if hi - lo < 64:
        return frozenset(range(lo, hi + 1))
    return Rng(lo, hi)


def bounds(v):
    """(lo, hi) of an abstract int"""
    if isinstance(v, bool):
        return int(v), int(v)
    if isinstance(v, int):
        return v, v
    if isinstance(v, frozenset):
        return min(v), max(v)
    if isinstance(v, Rng):
        return v.lo, v.hi
    return None


def values(v):
    """iterable of the concrete values if enumerable, else None"""
    if isinstance(v, int):
        return (v,)
    if isinstance(v, frozenset):
        return v
    if isinstance(v, Rng) and v.hi - v.lo < PAIRMAX:
        return range(v.lo, v.hi + 1)
    return None


def size_of(v):
    if isinstance(v, int):
        return 1
    if isinstance(v, frozenset):
        return len(v)
    if isinstance(v, Rng):
        return v.hi - v.lo + 1
    return None


def wrap(x, ty):
    bits, signed = INT_TYPES[ty]
    if ty == "bool":
        return x & 1
    m = (1 << bits) - 1
    x &= m
    if signed and x >> (bits - 1):
        x -= 1 << bits
    return x


def contains(v, x):
    if isinstance(v, int):
        return v == x
    if isinstance(v, frozenset):
        return x in v
    if isinstance(v, Rng):
        return v.lo <= x <= v.hi
    return True


# ---------------------------------------------------------------------------
# join / order

def join(a, b):
    if a is b:
        return a
    if a is BOT:
        return b
    if b is BOT:
        return a
    if a is TOP or b is TOP:
        return TOP
    if a is None or b is None:
        # None = uninitialised / moved-out storage
        return a if b is None else b
    ta = type(a)
    tb = type(b)
    if ta is int or ta is frozenset or ta is Rng or ta is bool:
        if not (tb is int or tb is frozenset or tb is Rng or tb is bool):
            return TOP
        if ta is not Rng and tb is not Rng:
            sa = a if ta is frozenset else (int(a),)
            sb = b if tb is frozenset else (int(b),)
            return norm_set(frozenset(sa) | frozenset(sb))
        la, ha = bounds(a)
        lb, hb = bounds(b)
        return Rng(min(la, lb), max(ha, hb))
    if ta is not tb:
        return TOP
    if a == b:
        return a
    if ta is Fl:
        return Fl(min(a.lo, b.lo), max(a.hi, b.hi), a.nan or b.nan)
    if ta is Agg:
        if len(a.f) != len(b.f):
            return TOP
        return Agg(join(x, y) for x, y in zip(a.f, b.f))
    if ta is En:
        vs = dict(a.vs)
        for vi, fs in b.vs.items():
            if vi in vs:
                o = vs[vi]
                if len(o) != len(fs):
                    return TOP
                vs[vi] = tuple(join(x, y) for x, y in zip(o, fs))
            else:
                vs[vi] = fs
        return En(vs)
    if ta is Arr:
        if len(a.e) != len(b.e):
            e = BOT
            for x in a.e + b.e:
                e = join(e, x)
            return ArrS(e, join(len(a.e), len(b.e)))
        return Arr(join(x, y) for x, y in zip(a.e, b.e))
    if ta is ArrS:
        return ArrS(join(a.elem, b.elem), join(a.n, b.n))
    if ta is Ref:
        return TOP
    if hasattr(a, "join_with"):
        return a.join_with(b)
    if ta is It:
        items = a.items + b.items
        e = BOT
        for x in items:
            e = join(e, x)
        return It("rep", (e,)) if items else It("exact", ())
    return TOP


def join_all(vs):
    r = BOT
    for v in vs:
        r = join(r, v)
    return r


def widen(old, new, ty=None):
    """old ⊑ new expected; push unstable interval bounds to type limits"""
    if old == new:
        return new
    if is_scalar(old) and is_scalar(new):
        lo0, hi0 = bounds(old)
        lo1, hi1 = bounds(new)
        tlo, thi = ty_range(ty) if ty in INT_TYPES else (-(1 << 127), (1 << 128))
        lo = lo0 if lo1 >= lo0 else tlo
        hi = hi0 if hi1 <= hi0 else thi
        return Rng(min(lo, lo1), max(hi, hi1)) if lo != hi else lo
    if isinstance(old, Fl) and isinstance(new, Fl):
        lo = old.lo if new.lo >= old.lo else -INF
        hi = old.hi if new.hi <= old.hi else INF
        return Fl(lo, hi, old.nan or new.nan)
    if type(old) is type(new):
        if isinstance(old, Agg) and len(old.f) == len(new.f):
            return Agg(widen(x, y) for x, y in zip(old.f, new.f))
        if isinstance(old, En):
            vs = {}
            for vi, fs in new.vs.items():
                if vi in old.vs and len(old.vs[vi]) == len(fs):
                    vs[vi] = tuple(widen(x, y) for x, y in zip(old.vs[vi], fs))
                else:
                    vs[vi] = fs
            return En(vs)
        if isinstance(old, Arr) and len(old.e) == len(new.e):
            return Arr(widen(x, y) for x, y in zip(old.e, new.e))
        if isinstance(old, ArrS):
            return ArrS(widen(old.elem, new.elem), widen(old.n, new.n, "usize"))
    return join(old, new)


# ---------------------------------------------------------------------------
# arithmetic

def _pairs_ok(a, b):
    sa = size_of(a)
    sb = size_of(b)
    return sa is not None and sb is not None and sa * sb <= PAIRMAX and sa <= 70000 and sb <= 70000


_CMP = {
    "Eq": lambda x, y: x == y, "Ne": lambda x, y: x != y,
    "Lt": lambda x, y: x < y, "Le": lambda x, y: x <= y,
    "Gt": lambda x, y: x > y, "Ge": lambda x, y: x >= y,
}


def _concrete_bin(op, x, y, ty):
    """returns (value, overflowed)"""
    if op == "Add" or op == "AddUnchecked" or op == "AddWithOverflow":
        r = x + y
    elif op == "Sub" or op == "SubUnchecked" or op == "SubWithOverflow":
        r = x - y
    elif op == "Mul" or op == "MulUnchecked" or op == "MulWithOverflow":
        r = x * y
    elif op == "BitAnd":
        return wrap(x & y, ty), False
    elif op == "BitOr":
        return wrap(x | y, ty), False
    elif op == "BitXor":
        return wrap(x ^ y, ty), False
    elif op == "Shl" or op == "ShlUnchecked":
        bits = INT_TYPES[ty][0]
        return wrap(x << (y % bits), ty), not (0 <= y < bits)
    elif op == "Shr" or op == "ShrUnchecked":
        bits = INT_TYPES[ty][0]
        return wrap(x >> (y % bits), ty), not (0 <= y < bits)
    elif op == "Div":
        if y == 0:
            return None, True
        q = abs(x) // abs(y)
        if (x < 0) != (y < 0):
            q = -q
        r = q
    elif op == "Rem":
        if y == 0:
            return None, True
        r = abs(x) % abs(y)
        if x < 0:
            r = -r
    else:
        raise KeyError(op)
    w = wrap(r, ty)
    return w, w != r


def binop(op, a, b, ty):
    """Abstract binary operation on integer-typed operands of type `ty`.
    Returns the abstract result (wrapping semantics); for comparison ops a
    bool abstract value.  For *WithOverflow ops returns Agg((value, flag))."""
    if a is BOT or b is BOT:
        return BOT
    with_ovf = op.endswith("WithOverflow")
    if isinstance(a, Fl) or isinstance(b, Fl):
        return fbinop(op, a, b)
    if op in _CMP:
        return cmpop(op, a, b)
    if not (is_scalar(a) and is_scalar(b)) or ty not in INT_TYPES:
        if op in ("Offset",):
            return TOP
        if with_ovf:
            return Agg((top_of_int(ty) if ty in INT_TYPES else TOP, frozenset((0, 1))))
        return top_of_int(ty) if ty in INT_TYPES else TOP
    if isinstance(a, int) and isinstance(b, int):
        v, o = _concrete_bin(op, a, b, ty)
        if v is None:
            return BOT
        return Agg((v, int(o))) if with_ovf else v
    if _pairs_ok(a, b):
        res = set()
        ovf = set()
        for x in values(a):
            for y in values(b):
                v, o = _concrete_bin(op, x, y, ty)
                if v is None:
                    continue
                res.add(v)
                ovf.add(int(o))
        r = norm_set(frozenset(res))
        return Agg((r, norm_set(frozenset(ovf)))) if with_ovf else r
    # interval fallback
    la, ha = bounds(a)
    lb, hb = bounds(b)
    tlo, thi = ty_range(ty)
    base = op.replace("WithOverflow", "").replace("Unchecked", "")
    r = None
    if base == "Add":
        r = (la + lb, ha + hb)
    elif base == "Sub":
        r = (la - hb, ha - lb)
    elif base == "Mul":
        c = [la * lb, la * hb, ha * lb, ha * hb]
        r = (min(c), max(c))
    elif base == "BitAnd" and la >= 0 and lb >= 0:
        r = (0, min(ha, hb))
    elif base == "BitOr" and la >= 0 and lb >= 0:
        m = max(ha, hb)
        r = (max(la, lb), (1 << m.bit_length()) - 1)
    elif base == "BitXor" and la >= 0 and lb >= 0:
        m = max(ha, hb)
        r = (0, (1 << m.bit_length()) - 1)
    elif base == "Shr" and la >= 0 and lb >= 0 and hb < INT_TYPES[ty][0]:
        r = (la >> hb, ha >> lb)
    elif base == "Shl" and la >= 0 and lb >= 0 and hb < INT_TYPES[ty][0]:
        r = (la << lb, ha << hb)
    elif base == "Div" and lb > 0 and la >= 0:
        r = (la // hb, ha // lb)
    elif base == "Rem" and lb > 0 and la >= 0:
        r = (0, min(ha, hb - 1))
    if r is None:
        val = top_of_int(ty)
        of = frozenset((0, 1))
    else:
        if r[0] >= tlo and r[1] <= thi:
            val = norm_rng(r[0], r[1])
            of = 0
        elif r[0] > thi or r[1] < tlo:
            val = top_of_int(ty)
            of = 1
        else:
            val = top_of_int(ty)
            of = frozenset((0, 1))
    return Agg((val, of)) if with_ovf else val


def cmpop(op, a, b):
    if isinstance(a, Fl) or isinstance(b, Fl):
        return fcmp(op, a, b)
    if not (is_scalar(a) and is_scalar(b)):
        if op in ("Eq", "Ne") and a == b and isinstance(a, (Str,)):
            return 1 if op == "Eq" else 0
        return frozenset((0, 1))
    f = _CMP[op]
    if isinstance(a, int) and isinstance(b, int):
        return int(f(a, b))
    la, ha = bounds(a)
    lb, hb = bounds(b)
    # quick interval decisions
    if op == "Lt":
        if ha < lb:
            return 1
        if la >= hb:
            return 0
    elif op == "Le":
        if ha <= lb:
            return 1
        if la > hb:
            return 0
    elif op == "Gt":
        if la > hb:
            return 1
        if ha <= lb:
            return 0
    elif op == "Ge":
        if la >= hb:
            return 1
        if ha < lb:
            return 0
    elif op in ("Eq", "Ne"):
        if ha < lb or hb < la:
            return 0 if op == "Eq" else 1
    if _pairs_ok(a, b):
        out = set()
        for x in values(a):
            for y in values(b):
                out.add(int(f(x, y)))
                if len(out) == 2:
                    return frozenset((0, 1))
        return norm_set(frozenset(out))
    return frozenset((0, 1))


def unop(op, a, ty):
    if a is BOT:
        return BOT
    if isinstance(a, Fl):
        if op == "Neg":
            return Fl(-a.hi, -a.lo, a.nan)
        return FTOP
    if not is_scalar(a) or ty not in INT_TYPES:
        return TOP
    vs = values(a)
    if vs is None:
        return top_of_int(ty)
    if op == "Not":
        if ty == "bool":
            return norm_set(frozenset(1 - x for x in vs))
        return norm_set(frozenset(wrap(~x, ty) for x in vs))
    if op == "Neg":
        return norm_set(frozenset(wrap(-x, ty) for x in vs))
    return top_of_int(ty)


def cast_int(a, to_ty, from_ty=None):
    """IntToInt cast (truncating / sign extending)"""
    if a is BOT:
        return BOT
    if to_ty not in INT_TYPES:
        return TOP
    if not is_scalar(a):
        if from_ty in INT_TYPES:
            a = top_of_int(from_ty)
        else:
            return top_of_int(to_ty)
    vs = values(a)
    if vs is not None:
        return norm_set(frozenset(wrap(x, to_ty) for x in vs))
    lo, hi = bounds(a)
    tlo, thi = ty_range(to_ty)
    if lo >= tlo and hi <= thi:
        return a
    return top_of_int(to_ty)


# ---------------------------------------------------------------------------
# floats

def fl_of(v):
    if isinstance(v, Fl):
        return v
    if isinstance(v, float):
        return Fl(v, v, v != v)
    return FTOP


def _fmul(x, y):
    if (x == 0 and y in (INF, -INF)) or (y == 0 and x in (INF, -INF)):
        return None
    return x * y


def f32r(x):
    """round a binary64 value to the nearest binary32 value (all floats of the analysed code are f32; for
    + - * / on binary32 operands, computing in binary64 and rounding once more is exact)"""
    if x != x or x in (INF, -INF):
        return x
    try:
        return _struct.unpack("f", _struct.pack("f", x))[0]
    except OverflowError:
        return INF if x > 0 else -INF


def f32_next_up(x):
    """the next binary32 value above the binary32 value x"""
    if x != x or x == INF:
        return x
    if x == 0.0:
        return _struct.unpack("f", _struct.pack("I", 1))[0]
    i = _struct.unpack("I", _struct.pack("f", x))[0]
    i = i + 1 if x > 0 else i - 1
    return _struct.unpack("f", _struct.pack("I", i))[0]


def fbinop(op, a, b, ty="f32"):
    """float operation in the type of its operands: binary32 results are rounded to binary32, binary64 results are the
    host doubles"""
    r = _fbinop(op, a, b)
    if ty != "f64" and isinstance(r, Fl) and r is not FTOP:
        return Fl(f32r(r.lo), f32r(r.hi), r.nan)
    return r


def fl_round(a, ty):
    """value of a float cast into type ty"""
    a = fl_of(a)
    if ty == "f32" and isinstance(a, Fl) and a is not FTOP:
        return Fl(f32r(a.lo), f32r(a.hi), a.nan)
    return a


def _fbinop(op, a, b):
    a = fl_of(a)
    b = fl_of(b)
    if op in _CMP:
        return fcmp(op, a, b)
    nan = a.nan or b.nan
    if op == "Add":
        lo, hi = a.lo + b.lo, a.hi + b.hi
        if lo != lo or hi != hi:
            return FTOP
        return Fl(lo, hi, nan or (a.hi == INF and b.lo == -INF) or (a.lo == -INF and b.hi == INF))
    if op == "Sub":
        lo, hi = a.lo - b.hi, a.hi - b.lo
        if lo != lo or hi != hi:
            return FTOP
        return Fl(lo, hi, nan or (a.hi == INF and b.hi == INF) or (a.lo == -INF and b.lo == -INF))
    if op == "Mul":
        c = [_fmul(x, y) for x in (a.lo, a.hi) for y in (b.lo, b.hi)]
        if any(x is None for x in c):
            return FTOP
        return Fl(min(c), max(c), nan)
    if op == "Div":
        if b.lo <= 0 <= b.hi:
            # division by an interval containing zero: +-inf or NaN (0/0) possible
            if a.lo >= 0 and b.lo >= 0:
                lo = a.lo / b.hi if b.hi > 0 and b.hi != INF else 0.0
                return Fl(lo, INF, nan or (a.lo <= 0 <= a.hi))
            return FTOP
        c = []
        for x in (a.lo, a.hi):
            for y in (b.lo, b.hi):
                if x in (INF, -INF) and y in (INF, -INF):
                    return FTOP
                c.append(x / y)
        return Fl(min(c), max(c), nan)
    return FTOP


def fcmp(op, a, b):
    a = fl_of(a)
    b = fl_of(b)
    out = set()
    if a.nan or b.nan:
        out.add(1 if op == "Ne" else 0)
    # non-NaN part
    if op == "Lt":
        if a.lo < b.hi:
            out.add(1)
        if a.hi >= b.lo:
            out.add(0)
    elif op == "Le":
        if a.lo <= b.hi:
            out.add(1)
        if a.hi > b.lo:
            out.add(0)
    elif op == "Gt":
        if a.hi > b.lo:
            out.add(1)
        if a.lo <= b.hi:
            out.add(0)
    elif op == "Ge":
        if a.hi >= b.lo:
            out.add(1)
        if a.lo < b.hi:
            out.add(0)
    elif op == "Eq":
        if a.lo <= b.hi and b.lo <= a.hi:
            out.add(1)
        if not (a.lo == a.hi == b.lo == b.hi):
            out.add(0)
    elif op == "Ne":
        if not (a.lo == a.hi == b.lo == b.hi):
            out.add(1)
        if a.lo <= b.hi and b.lo <= a.hi:
            out.add(0)
    return norm_set(frozenset(out))


def float_to_int(a, ty):
    """Rust `as` cast float -> int: saturating, NaN -> 0"""
    a = fl_of(a)
    tlo, thi = ty_range(ty)

    def sat(x):
        if x != x:
            return 0
        if x <= tlo:
            return tlo
        if x >= thi:
            return thi
        return int(x)
    lo = sat(a.lo)
    hi = sat(a.hi)
    if a.nan:
        lo = min(lo, 0)
        hi = max(hi, 0)
    return norm_rng(lo, hi)


def int_to_float(a):
    b = bounds(a)
    if b is None:
        return FTOP
    return Fl(float(b[0]), float(b[1]), False)


# ---------------------------------------------------------------------------
# refinement helpers

def refine_cmp(v, op, c):
    """restrict abstract int v to values x with `x op c` for a constant c"""
    if v is BOT:
        return BOT
    if not is_scalar(v):
        return v
    vs = values(v)
    f = _CMP[op]
    if vs is not None:
        return norm_set(frozenset(x for x in vs if f(x, c)))
    lo, hi = bounds(v)
    if op == "Lt":
        hi = min(hi, c - 1)
    elif op == "Le":
        hi = min(hi, c)
    elif op == "Gt":
        lo = max(lo, c + 1)
    elif op == "Ge":
        lo = max(lo, c)
    elif op == "Eq":
        lo, hi = max(lo, c), min(hi, c)
    elif op == "Ne":
        if lo == c:
            lo += 1
        if hi == c:
            hi -= 1
    return norm_rng(lo, hi)


NEG = {"Eq": "Ne", "Ne": "Eq", "Lt": "Ge", "Le": "Gt", "Gt": "Le", "Ge": "Lt"}
SWAP = {"Eq": "Eq", "Ne": "Ne", "Lt": "Gt", "Le": "Ge", "Gt": "Lt", "Ge": "Le"}


def short(v, limit=6):
    """compact rendering of abstract values for reports"""
    if isinstance(v, frozenset):
        vs = sorted(v)
        if len(vs) > limit and vs == list(range(vs[0], vs[-1] + 1)):
            return "{%#x..%#x}" % (vs[0], vs[-1])
        if len(vs) > limit:
            return "{%d values %#x..%#x}" % (len(vs), vs[0], vs[-1])
        return "{" + ",".join("%#x" % x for x in vs) + "}"
    if isinstance(v, bool):
        return str(int(v))
    if isinstance(v, int):
        return "%#x" % v
    if isinstance(v, Agg):
        return "(" + ", ".join(short(x, limit) for x in v.f) + ")"
    if isinstance(v, En):
        return "En{" + ", ".join("%s:%s" % (k, "(" + ",".join(short(x, limit) for x in f) + ")") for k, f in sorted(v.vs.items())) + "}"
    if isinstance(v, Arr):
        if len(v.e) > 8:
            return "[%d elems]" % len(v.e)
        return "[" + ", ".join(short(x, limit) for x in v.e) + "]"
    if isinstance(v, ArrS):
        return "[%s x %s]" % (short(v.elem, limit), short(v.n, limit))
    if isinstance(v, dict):
        return "{" + ", ".join("%s: %s" % (k, short(x, limit)) for k, x in v.items()) + "}"
    if isinstance(v, (list, tuple)):
        return "[" + ", ".join(short(x, limit) for x in v) + "]"
    return repr(v)
