"""C07 - CPU reset, master reset and program load restore exactly the documented state.

Decided by abstract interpretation (A4) of cpu_reset / master_reset / load on a
machine whose every field is unknown: the set of written leaf fields (mod-set,
from the interpreter's write log) is compared with the reset classes of
spec/reset_classes.toml in both directions, and the value left in every
must-reset field is compared with the value RawMachine::new() gives it."""
from .. import absint, step, shapes, spec, mirutil
from .. import domain as D
from ..domain import Agg, En, Ref, TOP, BOT, Arr, ArrS, Opaque
from ..facts import AnchorMissing

LEVEL = "other"
EXPLANATION = ("mod-set and reset-value analysis by abstract interpretation of the reset entry points on a fully "
               "unknown machine, against the reset-class table spec/reset_classes.toml")

RM = step.RM
MACHINE = step.MACHINE
BITFLAG_LEAF = True


def leaf_paths(p):
    """dotted leaf paths of RawMachine (recursing into local structs)"""
    return shapes.field_paths(p, RM)


def covers(written, leaf):
    """is leaf (dotted) written given the set of written dotted paths (a write to a
    prefix or to an element/sub-path counts)"""
    for w in written:
        w0 = w.replace("[*]", "").split("[")[0]
        if leaf == w0 or leaf.startswith(w0 + ".") or w0.startswith(leaf + "."):
            return True
    return False


def load_path(p, I, st, ma, dotted, ty):
    return step.field(p, I, st, ma, dotted, ty)


def run(ctx):
    p = ctx.p
    chk = ctx.chk
    classes = spec.load("reset_classes")
    rm_classes = classes["RawMachine"]
    leaves = leaf_paths(p)
    chk.floor("leaf fields of RawMachine", len(leaves), 35)
    chk.note("leaf fields: %s" % leaves)
    for lf in leaves:
        chk.ob("classified/%s" % lf, lf in rm_classes, "every field of the machine state has a reset class",
               "RawMachine.%s" % lf, "unclassified field (add it to spec/reset_classes.toml with a reason)")
    for lf in rm_classes:
        if lf not in leaves:
            chk.fail("anchor/field/%s" % lf, "fail-closed: classified field no longer exists", "", lf,
                     status="anchor-missing")
    mt = p.need_type(MACHINE)
    mfields = [f["n"] for f in mt["variants"][0]["fields"]]
    for f in mfields:
        if f != "raw":
            chk.ob("classified/Machine.%s" % f, f in classes["Machine"], "every field of Machine has a reset class",
                   "Machine.%s" % f, "")

    I = absint.Interp(p)
    I.unroll = 8          # small fixed loops over the ports (e.g. `for port in 0..2`) are interpreted exactly
    # power-on values
    st0 = absint.State()
    m0 = I.run_body(p.need_body(RM + "::new"), [], st0, 0)
    a0 = I.new_alloc(st0, "machine", m0)

    def poweron(lf):
        return step.field(p, I, st0, a0, lf)

    def cls(lf):
        c = rm_classes.get(lf, "")
        if c.startswith("cpu-untouched"):
            return "cpu-untouched"
        return "unspecified" if c.startswith("unspecified") else c

    def analyse(name, path, ty, want_reset, forbid, extra_args=()):
        ov = step.machine_overrides(p, None, None, None, stacksize_notset=True)
        st, ma, r = step.run_method(p, I, path, ov, extra_args=extra_args, ty=ty)
        pref = "raw." if ty == MACHINE else ""
        written = {w[len(pref):] if w.startswith(pref) else ("Machine." + w)
                   for w in step.written_fields(p, I, ty=ty)}
        bad = [e for e in I.events if e.kind in step.BAD_EVENTS and not e.in_log]
        b = p.need_body(path)
        chk.ob("%s/analysable" % name, not bad and r is not BOT, "the reset entry point is fully analysable and returns",
               b.loc(), "%s" % bad[:3])
        for lf in leaves:
            c = cls(lf)
            w = covers(written, lf)
            if c in want_reset:
                val = step.field(p, I, st, ma, pref + lf, ty)
                pv = poweron(lf)
                ok = w and val == pv
                chk.ob("%s/resets/%s" % (name, lf), ok,
                       "a field of class %s is assigned its power-on value on every path" % c,
                       b.loc(), "written: %s, value after: %r, power-on value: %r" % (w, val, pv),
                       "A4: final abstract value equals the constant assigned by RawMachine::new")
            elif c in forbid:
                chk.ob("%s/untouched/%s" % (name, lf), not w,
                       "a field of class %s is outside the mod-set" % c, b.loc(),
                       "written paths touching it: %s" % sorted(x for x in written if covers({x}, lf)))
        for f in mfields:
            if f != "raw" and ty == MACHINE:
                chk.ob("%s/untouched/Machine.%s" % (name, f), ("Machine." + f) not in written and f not in written,
                       "the step mode is outside the mod-set", b.loc(), "")
        return st, ma, written

    # CPU reset
    analyse("cpu_reset", RM + "::cpu_reset", RM, {"cpu"}, {"master", "never", "cpu-untouched"})
    analyse("Machine::cpu_reset", MACHINE + "::cpu_reset", MACHINE, {"cpu"}, {"master", "never", "cpu-untouched"})
    # master reset
    analyse("master_reset", RM + "::master_reset", RM, {"cpu", "master"}, {"never"})
    analyse("Machine::master_reset", MACHINE + "::master_reset", MACHINE, {"cpu", "master"}, {"never"})

    # the status register of the board mixes derived bits (fan, comparators) with the levels of physical inputs
    # (jumpers J1/J2, UIO pins): the latter survive every reset and a load, bit by bit
    PHYS = 0b1100_0111
    for nm, path, ty in (("cpu_reset", RM + "::cpu_reset", RM), ("master_reset", RM + "::master_reset", RM),
                         ("Machine::master_reset", MACHINE + "::master_reset", MACHINE)):
        badbits = []
        for pat in (0x00, 0xFF, 0x45, 0x82):
            ovb = step.machine_overrides(p, None, None, None, stacksize_notset=True)
            ovb["bus.board.dasr.bits"] = pat
            stb, mab, _ = step.run_method(p, I, path, ovb, ty=ty)
            after = step.field(p, I, stb, mab, ("raw." if ty == MACHINE else "") + "bus.board.dasr.bits", ty)
            if not (isinstance(after, int) and not isinstance(after, bool) and (after & PHYS) == (pat & PHYS)):
                badbits.append("%#04x -> %s" % (pat, D.short(after) if hasattr(D, "short") else after))
        chk.ob("%s/physical-input-bits" % nm, not badbits,
               "the jumper and UIO level bits of the board's status register (physical inputs) survive the reset",
               p.need_body(path).loc(), "status register before -> after: %s" % badbits,
               "constant propagation through the reset on four bit patterns")

    # a field that is classed "unspecified" because it is the constant None must really be that constant: nothing but the
    # constructor and the interrupt-fetch stage writes it, and that stage keeps None (otherwise the latch would have to be
    # cleared by the resets, which it is not)
    from .. import mirutil as _mu
    for fld, why in sorted(rm_classes.items()):
        if not (isinstance(why, str) and why.startswith("unspecified") and "constant None" in why):
            continue
        FI = "L::machine::raw::MachineAfterInstructionUpdate::<'a>::fetch_interrupts"
        writers = {w["body"] for w in _mu.field_writers(p, RM, fld)}
        allowed = {RM + "::new", FI, "<%s as core::clone::Clone>::clone" % RM}
        Ic = absint.Interp(p)
        stc = absint.State()
        ovc = step.machine_overrides(p, None, ["Running", "Stopped", "ErrorStopped"], None, stacksize_notset=True)
        ovc[fld] = En({0: ()})
        mac = step.new_machine(p, Ic, stc, ovc)
        Ic.events.clear()
        rr = Ic.run_body(p.need_body(FI), [Agg((Ref(mac, (), True),))], stc, 0)
        after = step.field(p, Ic, stc, mac, fld)
        badc = [e for e in Ic.events if e.kind in step.BAD_EVENTS and not e.in_log]
        chk.ob("constant-none/%s" % fld, writers <= allowed and after == En({0: ()}) and not badc and rr is not BOT,
               "the latch is the constant None (nothing can set it), which is why no reset needs to clear it", p.need_body(FI).loc(),
               "writers: %s; value after the interrupt-fetch stage when it was None: %r %s"
               % (sorted(w.rsplit("::", 1)[-1] for w in writers), after, badc[:1]),
               "field-writer index + A4 of the interrupt-fetch stage on an unknown machine")

    # load: master reset + RAM + limits
    prog = shapes.build(p, "L::compiler::ByteCode")
    never_but_load = {"bus.ram.0", "stacksize", "programsize"}
    ov = step.machine_overrides(p, None, None, None, stacksize_notset=False)
    st, ma, r = step.run_method(p, I, MACHINE + "::load", ov, extra_args=[prog], ty=MACHINE)
    written = {w[4:] if w.startswith("raw.") else ("Machine." + w) for w in step.written_fields(p, I, ty=MACHINE)}
    b = p.need_body(MACHINE + "::load")
    bad = [e for e in I.events if e.kind in step.BAD_EVENTS and not e.in_log]
    chk.ob("load/analysable", not bad and r is not BOT, "Machine::load is fully analysable and returns", b.loc(),
           "%s" % bad[:3])
    for lf in leaves:
        c = cls(lf)
        w = covers(written, lf)
        if c in ("cpu", "master"):
            val = step.field(p, I, st, ma, "raw." + lf, MACHINE)
            pv = poweron(lf)
            chk.ob("load/resets/%s" % lf, w and val == pv,
                   "loading a program performs a master reset: the field has its power-on value afterwards",
                   b.loc(), "written: %s, value after: %r, power-on: %r" % (w, val, pv))
        elif c == "never" and lf not in never_but_load:
            chk.ob("load/untouched/%s" % lf, not w, "load does not touch the board's physical inputs", b.loc(), "")
    chk.ob("load/untouched/Machine.step_mode", "Machine.step_mode" not in written, "load does not touch the step mode",
           b.loc(), "")
    chk.ob("load/writes-ram", covers(written, "bus.ram.0"), "load fills the RAM", b.loc(), "")
    ss = step.field(p, I, st, ma, "raw.stacksize", MACHINE)
    notset = p.variant_index(step.STACKSIZE, "NotSet")
    chk.ob("load/stacksize-never-notset", isinstance(ss, En) and notset not in ss.vs,
           "load never stores Stacksize::NotSet into the machine", b.loc(), "stacksize after load: %r" % (ss,))
    # the loaded RAM is the image followed by zeros, whatever the RAM held before (decided on the result of
    # Machine::load itself, not on how the copy is written): three image lines with 2+0+1 bytes over a RAM of
    # 240 distinct opaque cells
    names_bc = p.field_names("L::compiler::ByteCode")
    line_any = TOP
    img = [Opaque("IMG0"), Opaque("IMG1"), Opaque("IMG2")]
    lines_v = Arr([Agg((line_any, Arr(img[:2]))), Agg((line_any, Arr(()))), Agg((line_any, Arr(img[2:])))])
    ss_t = p.need_type(step.STACKSIZE)
    bc = Agg([{"lines": lines_v, "stacksize": En({p.variant_index(step.STACKSIZE, "_16"): ()}),
               "programsize": En({[v["n"] for v in p.need_type("L::parser::ast::Programsize")["variants"]].index("Auto"): ()})}[f]
              for f in names_bc])
    I3 = absint.Interp(p)
    I3.unroll = 8
    st3 = absint.State()
    ov3 = step.machine_overrides(p, None, None, None, stacksize_notset=False)
    ov3["bus.ram.0"] = Arr([Opaque("old.%d" % i) for i in range(240)])
    ma3 = step.new_machine(p, I3, st3, ov3, MACHINE)
    I3.events.clear()
    r3 = I3.run_body(p.need_body(MACHINE + "::load"), [Ref(ma3, (), True), bc], st3, 0)
    ram3 = step.field(p, I3, st3, ma3, "raw.bus.ram.0", MACHINE)
    bad3 = [e for e in I3.events if e.kind in step.BAD_EVENTS and not e.in_log]
    ok3 = (isinstance(ram3, Arr) and len(ram3.e) == 240 and list(ram3.e[:3]) == img and all(x == 0 for x in ram3.e[3:])
           and not bad3 and r3 is not BOT)
    chk.ob("load/ram-is-image-then-zeros", ok3,
           "after Machine::load the RAM holds the image bytes from address 0 in order, followed by zeros, whatever it held before",
           b.loc(), "first cells after load: %s; non-zero cells behind the image: %s; unanalysable: %s"
           % (list(ram3.e[:4]) if isinstance(ram3, Arr) else ram3,
              [i for i, x in enumerate(ram3.e[3:], 3) if x != 0][:4] if isinstance(ram3, Arr) else "?", bad3[:2]),
           "A4 on Machine::load with a three-line image over 240 distinct opaque RAM cells")
    ps3 = step.field(p, I3, st3, ma3, "raw.programsize", MACHINE)
    chk.ob("load/auto-programsize", isinstance(ps3, En) and list(ps3.vs.values()) == [(3,)],
           "*PROGRAMSIZE AUTO becomes the number of image bytes", b.loc(), "programsize after load: %r" % (ps3,))
    # "applies the program's limits": every value of both directives, on a machine that holds limits from an earlier load
    ps_names = [v["n"] for v in p.need_type("L::parser::ast::Programsize")["variants"]]
    ss_names = [v["n"] for v in ss_t["variants"]]
    old_ss = En({ss_names.index("_48"): ()})
    old_ps = En({ps_names.index("Size"): (Opaque("old-size"),)})
    for ssn in ss_names:
        for psn, psv in (("Size", En({ps_names.index("Size"): (Opaque("new-size"),)})),
                         ("Auto", En({ps_names.index("Auto"): ()})), ("NotSet", En({ps_names.index("NotSet"): ()}))):
            bc4 = Agg([{"lines": lines_v, "stacksize": En({ss_names.index(ssn): ()}), "programsize": psv}[f] for f in names_bc])
            I4 = absint.Interp(p)
            I4.unroll = 8
            st4 = absint.State()
            ov4 = step.machine_overrides(p, None, None, None, stacksize_notset=False)
            ov4["stacksize"] = old_ss
            ov4["programsize"] = old_ps
            ma4 = step.new_machine(p, I4, st4, ov4, MACHINE)
            I4.events.clear()
            r4 = I4.run_body(p.need_body(MACHINE + "::load"), [Ref(ma4, (), True), bc4], st4, 0)
            ss4 = step.field(p, I4, st4, ma4, "raw.stacksize", MACHINE)
            ps4 = step.field(p, I4, st4, ma4, "raw.programsize", MACHINE)
            want_ss = old_ss if ssn == "NotSet" else En({ss_names.index(ssn): ()})
            want_ps = {"Size": psv, "Auto": En({ps_names.index("Size"): (3,)}), "NotSet": old_ps}[psn]
            bad4 = [e for e in I4.events if e.kind in step.BAD_EVENTS and not e.in_log]
            chk.ob("load/limits/%s/%s" % (ssn, psn), ss4 == want_ss and ps4 == want_ps and not bad4 and r4 is not BOT,
                   "load applies the program's limits: a stated stack or program size is stored, AUTO becomes the image length, "
                   "NOSET keeps the limit the machine had", b.loc(),
                   "stack size %r (expected %r), program size %r (expected %r) %s" % (ss4, want_ss, ps4, want_ps, bad4[:1]),
                   "A4 of Machine::load per directive value on a machine holding earlier limits")
    # "as on a newly created machine": a program without *STACKSIZE / *PROGRAMSIZE lines carries concrete limits - the
    # power-on stack limit of RawMachine::new and the automatic program size - not NOSET, which would keep whatever an
    # earlier program left behind
    TRN = "L::compiler::Translator"
    It = absint.Interp(p)
    stt = absint.State()
    tr0 = It.run_body(p.need_body(TRN + "::new"), [], stt, 0)
    rm0 = It.run_body(p.need_body(RM + "::new"), [], stt, 0)
    trf = dict(zip(p.field_names(TRN), tr0.f)) if isinstance(tr0, Agg) else {}
    rmf = dict(zip(p.field_names(RM), rm0.f)) if isinstance(rm0, Agg) else {}
    t_ss, t_ps, m_ss = trf.get("stacksize"), trf.get("programsize"), rmf.get("stacksize")
    notset_ss = En({ss_names.index("NotSet"): ()})
    chk.ob("load/default-limits", isinstance(t_ss, En) and len(t_ss.vs) == 1 and t_ss != notset_ss and t_ss == m_ss
           and t_ps == En({ps_names.index("Auto"): ()}),
           "a program that states no limits is translated with the power-on stack limit of a new machine and the automatic "
           "program size, so that loading it replaces the limits of an earlier program",
           p.need_body(TRN + "::new").loc(),
           "Translator::new: stacksize %r, programsize %r; RawMachine::new: stacksize %r (variants %s / %s)"
           % (t_ss, t_ps, m_ss, ss_names, ps_names),
           "constant propagation through Translator::new and RawMachine::new")
    # RAM zero fill: after master_reset + reset_ram (before the copy) the RAM is all zero
    st2 = absint.State()
    ov = step.machine_overrides(p, None, None, None, stacksize_notset=True)
    ma2 = step.new_machine(p, I, st2, ov, RM)
    I.run_body(p.need_body("L::machine::bus::Bus::reset_ram"),
               [Ref(ma2, (p.field_index(RM, "bus"),), True)], st2, 0)
    ram = step.field(p, I, st2, ma2, "bus.ram.0")
    chk.ob("load/ram-zero-fill", (isinstance(ram, ArrS) and ram.elem == 0 and ram.n == 240)
           or (isinstance(ram, Arr) and len(ram.e) == 240 and all(x == 0 for x in ram.e)),
           "Bus::reset_ram leaves 240 zero bytes", p.need_body("L::machine::bus::Bus::reset_ram").loc(), repr(ram))
    surv = [lf for lf in leaves if cls(lf) in ("never", "unspecified") and lf not in ("bus.ram.0",)]
    chk.note("fields that survive a load (history-dependent by design): %s; additionally stacksize/programsize "
             "survive when the program says NOSET" % surv)
    chk.assume("programs that read the surviving fields (board inputs, MISR/UART status, DASR) are outside the "
               "'runs as on a newly created machine' clause, as the property states (RAM and FC-FF only)")
    chk.sample({"cpu_reset mod-set must include": sorted(l for l in leaves if cls(l) == "cpu")})
