"""C07 - CPU reset, master reset and program load restore exactly the documented state.

Decided by abstract interpretation (A4) of cpu_reset / master_reset / load on a
machine whose every field is unknown: the set of written leaf fields (mod-set,
from the interpreter's write log) is compared with the reset classes of
spec/reset_classes.toml in both directions, and the value left in every
must-reset field is compared with the value RawMachine::new() gives it."""
from .. import absint, step, shapes, spec, mirutil
from .. import domain as D
from ..domain import Agg, En, Ref, TOP, BOT, Arr, ArrS
from ..facts import AnchorMissing

LEVEL = "other"
EXPLANATION = ("mod-set and reset-value analysis by abstract interpretation of the reset entry points on a fully "
               "unknown machine, against the reset-class table spec/reset_classes.toml")

RM = step.RM
MACHINE = step.MACHINE
BITFLAG_LEAF = True


def leaf_paths(p):
    """dotted leaf paths of RawMachine (recursing into local structs)"""
    return shapes.field_paths(p, RM)


def covers(written, leaf):
    """is leaf (dotted) written given the set of written dotted paths (a write to a
    prefix or to an element/sub-path counts)"""
    for w in written:
        w0 = w.replace("[*]", "").split("[")[0]
        if leaf == w0 or leaf.startswith(w0 + ".") or w0.startswith(leaf + "."):
            return True
    return False


def load_path(p, I, st, ma, dotted, ty):
    return step.field(p, I, st, ma, dotted, ty)


def run(ctx):
    p = ctx.p
    chk = ctx.chk
    classes = spec.load("reset_classes")
    rm_classes = classes["RawMachine"]
    leaves = leaf_paths(p)
    chk.floor("leaf fields of RawMachine", len(leaves), 35)
    chk.note("leaf fields: %s" % leaves)
    for lf in leaves:
        chk.ob("classified/%s" % lf, lf in rm_classes, "every field of the machine state has a reset class",
               "RawMachine.%s" % lf, "unclassified field (add it to spec/reset_classes.toml with a reason)")
    for lf in rm_classes:
        if lf not in leaves:
            chk.fail("anchor/field/%s" % lf, "fail-closed: classified field no longer exists", "", lf,
                     status="anchor-missing")
    mt = p.need_type(MACHINE)
    mfields = [f["n"] for f in mt["variants"][0]["fields"]]
    for f in mfields:
        if f != "raw":
            chk.ob("classified/Machine.%s" % f, f in classes["Machine"], "every field of Machine has a reset class",
                   "Machine.%s" % f, "")

    I = absint.Interp(p)
    # power-on values
    st0 = absint.State()
    m0 = I.run_body(p.need_body(RM + "::new"), [], st0, 0)
    a0 = I.new_alloc(st0, "machine", m0)

    def poweron(lf):
        return step.field(p, I, st0, a0, lf)

    def cls(lf):
        c = rm_classes.get(lf, "")
        if c.startswith("cpu-untouched"):
            return "cpu-untouched"
        return "unspecified" if c.startswith("unspecified") else c

    def analyse(name, path, ty, want_reset, forbid, extra_args=()):
        ov = step.machine_overrides(p, None, None, None, stacksize_notset=True)
        st, ma, r = step.run_method(p, I, path, ov, extra_args=extra_args, ty=ty)
        pref = "raw." if ty == MACHINE else ""
        written = {w[len(pref):] if w.startswith(pref) else ("Machine." + w)
                   for w in step.written_fields(p, I, ty=ty)}
        bad = [e for e in I.events if e.kind in step.BAD_EVENTS and not e.in_log]
        b = p.need_body(path)
        chk.ob("%s/analysable" % name, not bad and r is not BOT, "the reset entry point is fully analysable and returns",
               b.loc(), "%s" % bad[:3])
        for lf in leaves:
            c = cls(lf)
            w = covers(written, lf)
            if c in want_reset:
                val = step.field(p, I, st, ma, pref + lf, ty)
                pv = poweron(lf)
                ok = w and val == pv
                chk.ob("%s/resets/%s" % (name, lf), ok,
                       "a field of class %s is assigned its power-on value on every path" % c,
                       b.loc(), "written: %s, value after: %r, power-on value: %r" % (w, val, pv),
                       "A4: final abstract value equals the constant assigned by RawMachine::new")
            elif c in forbid:
                chk.ob("%s/untouched/%s" % (name, lf), not w,
                       "a field of class %s is outside the mod-set" % c, b.loc(),
                       "written paths touching it: %s" % sorted(x for x in written if covers({x}, lf)))
        for f in mfields:
            if f != "raw" and ty == MACHINE:
                chk.ob("%s/untouched/Machine.%s" % (name, f), ("Machine." + f) not in written and f not in written,
                       "the step mode is outside the mod-set", b.loc(), "")
        return st, ma, written

    # CPU reset
    analyse("cpu_reset", RM + "::cpu_reset", RM, {"cpu"}, {"master", "never", "cpu-untouched"})
    analyse("Machine::cpu_reset", MACHINE + "::cpu_reset", MACHINE, {"cpu"}, {"master", "never", "cpu-untouched"})
    # master reset
    analyse("master_reset", RM + "::master_reset", RM, {"cpu", "master"}, {"never"})
    analyse("Machine::master_reset", MACHINE + "::master_reset", MACHINE, {"cpu", "master"}, {"never"})

    # load: master reset + RAM + limits
    prog = shapes.build(p, "L::compiler::ByteCode")
    never_but_load = {"bus.ram.0", "stacksize", "programsize"}
    ov = step.machine_overrides(p, None, None, None, stacksize_notset=False)
    st, ma, r = step.run_method(p, I, MACHINE + "::load", ov, extra_args=[prog], ty=MACHINE)
    written = {w[4:] if w.startswith("raw.") else ("Machine." + w) for w in step.written_fields(p, I, ty=MACHINE)}
    b = p.need_body(MACHINE + "::load")
    bad = [e for e in I.events if e.kind in step.BAD_EVENTS and not e.in_log]
    chk.ob("load/analysable", not bad and r is not BOT, "Machine::load is fully analysable and returns", b.loc(),
           "%s" % bad[:3])
    for lf in leaves:
        c = cls(lf)
        w = covers(written, lf)
        if c in ("cpu", "master"):
            val = step.field(p, I, st, ma, "raw." + lf, MACHINE)
            pv = poweron(lf)
            chk.ob("load/resets/%s" % lf, w and val == pv,
                   "loading a program performs a master reset: the field has its power-on value afterwards",
                   b.loc(), "written: %s, value after: %r, power-on: %r" % (w, val, pv))
        elif c == "never" and lf not in never_but_load:
            chk.ob("load/untouched/%s" % lf, not w, "load does not touch the board's physical inputs", b.loc(), "")
    chk.ob("load/untouched/Machine.step_mode", "Machine.step_mode" not in written, "load does not touch the step mode",
           b.loc(), "")
    chk.ob("load/writes-ram", covers(written, "bus.ram.0"), "load fills the RAM", b.loc(), "")
    ss = step.field(p, I, st, ma, "raw.stacksize", MACHINE)
    notset = p.variant_index(step.STACKSIZE, "NotSet")
    chk.ob("load/stacksize-never-notset", isinstance(ss, En) and notset not in ss.vs,
           "load never stores Stacksize::NotSet into the machine", b.loc(), "stacksize after load: %r" % (ss,))
    # order of the load phases (A3): master_reset dominates reset_ram dominates the image copy
    calls = [(bb, mirutil.callee_name(t)) for bb, t in mirutil.calls_in(b)]
    dom = mirutil.dominators(b)

    def first(name_part):
        for bb, c in calls:
            if c and name_part in c:
                return bb
        return None
    bb_reset = first("Machine::master_reset")
    bb_ram = first("Bus::reset_ram")
    bb_copy = first("Iterator::for_each")
    ok = None not in (bb_reset, bb_ram, bb_copy) and bb_reset in dom[bb_ram] and bb_ram in dom[bb_copy]
    chk.ob("load/order", ok, "in Machine::load the master reset dominates the RAM clear, which dominates the image copy",
           b.loc(), "blocks: reset %s, reset_ram %s, copy %s" % (bb_reset, bb_ram, bb_copy))
    # RAM zero fill: after master_reset + reset_ram (before the copy) the RAM is all zero
    st2 = absint.State()
    ov = step.machine_overrides(p, None, None, None, stacksize_notset=True)
    ma2 = step.new_machine(p, I, st2, ov, RM)
    I.run_body(p.need_body("L::machine::bus::Bus::reset_ram"),
               [Ref(ma2, (p.field_index(RM, "bus"),), True)], st2, 0)
    ram = step.field(p, I, st2, ma2, "bus.ram.0")
    chk.ob("load/ram-zero-fill", isinstance(ram, ArrS) and ram.elem == 0 and ram.n == 240,
           "Bus::reset_ram leaves 240 zero bytes", p.need_body("L::machine::bus::Bus::reset_ram").loc(), repr(ram))
    # image copy: closure writes memory[index of enumerate] = the iterated byte
    clos = [k for k in p.bodies if k.startswith(MACHINE + "::load::{closure#0}")]
    ok = False
    det = ""
    if clos:
        cb = p.bodies[clos[0]]
        # find the indexed assignment
        for blk in cb.blocks:
            for s in blk["s"]:
                if s["k"] == "assign" and s["p"]["p"] and isinstance(s["p"]["p"][-1], dict) and "i" in s["p"]["p"][-1]:
                    idx_local = s["p"]["p"][-1]["i"]
                    src = s["r"]["o"] if s["r"]["k"] == "use" else None
                    # index local must be (a copy of) field 0 of the closure argument, value the deref of field 1
                    def origin(l, seen=()):
                        for (dbb, i, item) in mirutil.local_def_sites(cb, l):
                            if item.get("k") == "assign" and item["r"]["k"] == "use":
                                pl = mirutil.place_of(item["r"]["o"])
                                if pl is not None:
                                    if pl["p"]:
                                        return pl
                                    if pl["l"] not in seen:
                                        return origin(pl["l"], seen + (l,))
                        return {"l": l, "p": []}
                    io = origin(idx_local)
                    vo = None
                    if src is not None:
                        pl = mirutil.place_of(src)
                        if pl is not None:
                            vo = pl if pl["p"] else origin(pl["l"])
                    det = "index from %s, value from %s" % (io, vo)
                    idx_ok = io["l"] == 2 and io["p"] and io["p"][0].get("f") == 0
                    val_ok = False
                    if vo is not None:
                        if vo["p"] and vo["p"][0] == "*":
                            base = origin(vo["l"])
                            val_ok = base["l"] == 2 and base["p"] and base["p"][0].get("f") == 1
                    ok = bool(idx_ok and val_ok)
    chk.ob("load/copy-shape", ok,
           "the image copy stores the iterated byte at the index given by enumerate (address = position in the image)",
           b.loc(), det)
    surv = [lf for lf in leaves if cls(lf) in ("never", "unspecified") and lf not in ("bus.ram.0",)]
    chk.note("fields that survive a load (history-dependent by design): %s; additionally stacksize/programsize "
             "survive when the program says NOSET" % surv)
    chk.assume("programs that read the surviving fields (board inputs, MISR/UART status, DASR) are outside the "
               "'runs as on a newly created machine' clause, as the property states (RAM and FC-FF only)")
    chk.sample({"cpu_reset mod-set must include": sorted(l for l in leaves if cls(l) == "cpu")})
