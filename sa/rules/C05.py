"""C05 - stack/PC supervision and the halt states are exact and absorbing.

Decided by abstract interpretation (A4) of the public entry points of
RawMachine / Machine with the machine state unknown except for the field under
test, plus a complete syntactic index of the writers of `RawMachine::state`.
"""
from .. import absint, step, shapes, mirutil
from .. import domain as D
from ..domain import Opaque, Agg, En, Ref, TOP, BOT, Rng
from ..facts import AnchorMissing

LEVEL = "proof"
EXPLANATION = ("abstract interpretation of every public &mut entry point per initial machine state, "
               "interval cells for the supervision predicates, complete writer index of RawMachine::state")

RM = step.RM
STATE = step.STATE
STACKSIZE = step.STACKSIZE
PROGSIZE = "L::parser::ast::Programsize"
REGNUM = "L::machine::register::RegisterNumber"
BAD = step.BAD_EVENTS


def state_names(p, v):
    names = [x["n"] for x in p.need_type(STATE)["variants"]]
    if isinstance(v, En):
        return sorted(names[vi] for vi in v.vs)
    return None


def bad_events(I):
    return [e for e in I.events if e.kind in BAD and not e.in_log]


MACHINE_LOAD = "L::machine::Machine::load"


def run(ctx):
    from .. import wrappers
    # the limits that are supervised are the limits the program states: Machine::load stores the stated stack size (never
    # NOSET), the stated program size, or for AUTO the number of image bytes - the load clauses of C07's rule, shared.  A
    # limit that load derives differently (bytes actually written, a size that skips trailing zeros) makes the machine
    # error-stop at an address the program is entitled to reach.
    from . import C07 as _C07
    chk = ctx.chk
    chk.prefix = "limits/"
    chk.keep_only = lambda k: k.startswith(("load/limits/", "load/auto-programsize", "load/stacksize-never-notset",
                                            "load/default-limits", "load/analysable"))
    try:
        _C07.run(ctx)
    finally:
        chk.prefix = ""
        chk.keep_only = None
    wrappers.check(ctx, ["trigger_key_continue"])     # the outer Machine methods the callers use are the routines analysed below
    # the byte whose value decides a stop is the byte read from the bus by the fetch word (pipeline agreement, shared with C01)
    from .. import pipeline
    pipeline.check(ctx, prefix="cpu-pipeline")
    p = ctx.p
    chk = ctx.chk
    I = absint.Interp(p)
    names = [x["n"] for x in p.need_type(STATE)["variants"]]
    if sorted(names) != ["ErrorStopped", "Running", "Stopped"]:
        raise AnchorMissing("State variants changed: %s" % names)

    # ---- clause 1: absorbing -------------------------------------------
    for halted in ("Stopped", "ErrorStopped"):
        ov = step.machine_overrides(p, None, halted, None)
        st, ma, r = step.run_method(p, I, step.EDGE, ov)
        w = step.written_fields(p, I)
        b = bad_events(I)
        chk.ob("absorbing/clock-edge/%s" % halted, not w and not b,
               "a clock edge on a halted machine assigns no field of the machine (any wait flag, any control word)",
               p.need_body(step.EDGE).loc(), "written: %s; unanalysable: %s" % (sorted(w), b[:3]),
               "A4: no store through &mut self on any path with state=%s" % halted)
        for mode in ("Real", "Assembly"):
            mv = p.variant_index("L::machine::StepMode", mode)
            st, ma, r = step.run_method(p, I, "L::machine::Machine::trigger_key_clock", ov, ty=step.MACHINE,
                                        extra_ov={"step_mode": En({mv: ()})})
            w = step.written_fields(p, I, ty=step.MACHINE)
            b = bad_events(I)
            chk.ob("absorbing/key-clock/%s/%s" % (halted, mode), not w and not b and r is not BOT,
                   "Machine::trigger_key_clock on a halted machine changes nothing and returns (both step modes)",
                   p.need_body("L::machine::Machine::trigger_key_clock").loc(),
                   "written: %s; unanalysable: %s; returns: %s" % (sorted(w), b[:3], r is not BOT))

    # ---- clause 2: who changes `state` -----------------------------------
    writers = mirutil.field_writers(p, RM, "state")
    whole = mirutil.whole_writers(p, RM)
    wfuncs = sorted({w["body"] for w in writers})
    chk.note("syntactic writers of RawMachine::state: %s" % wfuncs)
    chk.note("whole-struct constructions/assignments of RawMachine: %s" % sorted({w["body"] for w in whole}))
    chk.floor("writer sites of RawMachine::state", len(writers), 5)
    # all writers must live in the raw-machine module (field privacy) and be reachable only
    # through the entry points analysed below
    g = mirutil.call_graph(p)
    pub_entry = []
    for path, b in sorted(p.bodies.items()):
        if b.crate == "L" and b.kind == "AssocFn" and b.self_ty in (RM, step.MACHINE) and b.vis == "Public" \
                and not path.startswith("<") and b.argc >= 1 and b.locals[1]["ty"].startswith("&mut "):
            pub_entry.append(path)
    chk.floor("public &mut entry points of RawMachine/Machine", len(pub_entry), 25)
    reach_from_pub = mirutil.reachable_fns(p, pub_entry, g)
    ctor_ok = {"L::machine::raw::RawMachine::new", "<L::machine::raw::RawMachine as core::clone::Clone>::clone"}
    for wsite in writers + whole:
        f = wsite["body"]
        ok = f in reach_from_pub or f in ctor_ok
        chk.ob("state-writer-covered/%s/%s" % (f, wsite["kind"]), ok,
               "every writer of RawMachine::state is a constructor or reachable only below an analysed public entry point",
               "%s:%s" % (p.bodies[f].file, wsite["ln"]), "writer in %s" % f)

    # semantic effect of every public &mut entry point on `state`
    expect = {
        "trigger_clock_edge": {"Running": {"Running", "Stopped", "ErrorStopped"},
                               "Stopped": {"Stopped"}, "ErrorStopped": {"ErrorStopped"}},
        "trigger_key_clock": {"Running": {"Running", "Stopped", "ErrorStopped"},
                              "Stopped": {"Stopped"}, "ErrorStopped": {"ErrorStopped"}},
        "trigger_key_continue": {"Running": {"Running"}, "Stopped": {"Running"}, "ErrorStopped": {"ErrorStopped"}},
        "cpu_reset": {k: {"Running"} for k in names},
        "master_reset": {k: {"Running"} for k in names},
    }
    skip = {"load", "load_raw"}   # take a program: reset semantics are C07's; state result checked there
    for path in pub_entry:
        b = p.bodies[path]
        short = path.split("::")[-1]
        if short in skip:
            continue
        ty = b.self_ty
        exp = expect.get(short)
        for init in names:
            ov = step.machine_overrides(p, None, init, None)
            extra = []
            for l in b.locals[2:1 + b.argc]:
                extra.append(shapes.build(p, l["ty"]))
            try:
                st, ma, r = step.run_method(p, I, path, ov, extra_args=extra, ty=ty)
            except absint.AnalysisLimit as e:
                chk.fail("state-effect/%s/%s" % (short, init), "fail-closed: analysis limit", b.loc(), str(e),
                         status="undischarged")
                continue
            fin = step.field(p, I, st, ma, "raw.state" if ty == step.MACHINE else "state", ty)
            fin_names = set(state_names(p, fin) or ["?"])
            want = exp[init] if exp else {init}
            badev = bad_events(I)
            chk.ob("state-effect/%s::%s/%s" % (ty.split("::")[-1], short, init),
                   fin_names <= want and not badev,
                   "effect of a public entry point on the machine state, per initial state",
                   b.loc(), "from %s: final state in %s, allowed %s; unanalysable: %s"
                   % (init, sorted(fin_names), sorted(want), badev[:2]))
    # continue writes only `state`
    ov = step.machine_overrides(p, None, None, None)
    st, ma, r = step.run_method(p, I, RM + "::trigger_key_continue", ov)
    w = step.written_fields(p, I)
    chk.ob("continue-writes-only-state", w <= {"state"}, "the continue key changes nothing but the state",
           p.need_body(RM + "::trigger_key_continue").loc(), "written: %s" % sorted(w))

    # ---- clause 3/4: supervision predicates, checked at the committing edge ----
    APPLY = RM + "::apply_pending_register_writes"
    p.need_body(APPLY)
    regidx = {v["n"]: i for i, v in enumerate(p.need_type(REGNUM)["variants"])}
    ss_t = p.need_type(STACKSIZE)
    ss_variants = {v["n"]: i for i, v in enumerate(ss_t["variants"])}
    ps_t = p.need_type(PROGSIZE)
    ps_variants = {v["n"]: i for i, v in enumerate(ps_t["variants"])}
    sizes = {"_0": 0, "_16": 16, "_32": 32, "_48": 48, "_64": 64}
    if set(ss_variants) != set(sizes) | {"NotSet"}:
        raise AnchorMissing("Stacksize variants changed: %s" % sorted(ss_variants))

    def commit(reg, value, stack_v, prog_v, sp=None, pc=None, flagw=False):
        content = {}
        ov = step.machine_overrides(p, None, "Running", False)
        ov["pending_register_write"] = En({1: (En({regidx[reg]: ()}),)}) if reg else En({0: ()})
        ov["pending_flag_write"] = En({1: (Agg(()),)}) if flagw else En({0: ()})
        ov["alu_output.output"] = value
        ov["stacksize"] = En({ss_variants[stack_v]: ()})
        ov["programsize"] = prog_v
        if sp is not None:
            ov["register.content.5"] = sp
        if pc is not None:
            ov["register.content.3"] = pc
        st, ma, r = step.run_method(p, I, APPLY, ov)
        fin = step.field(p, I, st, ma, "state")
        return set(state_names(p, fin) or ["?"]), step.written_fields(p, I), bad_events(I)

    auto = En({ps_variants["Auto"]: ()})
    size_any_ok = En({ps_variants["Size"]: (255,)})     # pc <= 255 always holds
    nchk = 0
    for sv, n in sizes.items():
        if n == 0:
            cells = [((0x00, 0xEF), True), ((0xF0, 0xFF), False)]
        else:
            lo_band = 0xE0 - n
            hi_band = 0xEF - n
            cells = [((0x00, lo_band), True), ((lo_band + 1, hi_band - 1), False),
                     ((hi_band, 0xEF), True), ((0xF0, 0xFF), False)]
        for (lo, hi), valid in cells:
            fin, w, b = commit("R5", D.norm_rng(lo, hi), sv, size_any_ok, pc=0)
            want = {"Running"} if valid else {"ErrorStopped"}
            nchk += 1
            chk.ob("sp-band/%s/%#04x-%#04x" % (sv, lo, hi), fin == want and not b,
                   "committing a stack-pointer value error-stops exactly for the forbidden band of the stack size "
                   "(and at or above 0xF0)", p.need_body(RM + "::is_stackpointer_valid").loc(),
                   "stack size %s, SP in [%#x,%#x]: final state %s, expected %s" % (sv, lo, hi, sorted(fin), sorted(want)),
                   "A4 with the ALU latch restricted to the interval; the whole cell yields one outcome")
    chk.floor("stack-pointer cells checked", nchk, 18)
    # program counter
    for k in (0, 1, 127, 254):
        fin, w, b = commit("R3", D.norm_rng(0, k), "_0", En({ps_variants["Size"]: (D.norm_rng(k, 255),)}), sp=0)
        chk.ob("pc-limit/le/%d" % k, fin == {"Running"} and not b,
               "a program counter not above the program size limit keeps the machine running",
               p.need_body(RM + "::is_program_counter_valid").loc(), "pc in [0,%d], limit in [%d,255]: %s" % (k, k, sorted(fin)))
        fin, w, b = commit("R3", D.norm_rng(k + 1, 255), "_0", En({ps_variants["Size"]: (D.norm_rng(0, k),)}), sp=0)
        chk.ob("pc-limit/gt/%d" % k, fin == {"ErrorStopped"} and not b,
               "a program counter above the program size limit error-stops at the committing edge",
               p.need_body(RM + "::is_program_counter_valid").loc(), "pc in [%d,255], limit in [0,%d]: %s" % (k + 1, k, sorted(fin)))
    for psn in ("Auto", "NotSet"):
        pv = En({ps_variants[psn]: ()})
        fin, w, b = commit("R3", 0, "_0", pv, sp=0)
        chk.ob("pc-limit/%s/zero" % psn, fin == {"Running"} and not b, "without a program size only PC=0 is valid",
               p.need_body(RM + "::is_program_counter_valid").loc(), "%s" % sorted(fin))
        fin, w, b = commit("R3", D.norm_rng(1, 255), "_0", pv, sp=0)
        chk.ob("pc-limit/%s/nonzero" % psn, fin == {"ErrorStopped"} and not b,
               "without a program size a non-zero PC error-stops", p.need_body(RM + "::is_program_counter_valid").loc(),
               "%s" % sorted(fin))
    # other registers never error-stop a machine whose SP/PC are valid; flag commit touches R4 only
    for reg in ("R0", "R1", "R2", "R4", "R6", "R7"):
        fin, w, b = commit(reg, D.top_of_int("u8"), "_16", size_any_ok, sp=D.norm_rng(0, 0xD0), pc=D.top_of_int("u8"))
        chk.ob("other-register-no-stop/%s" % reg, fin == {"Running"} and not b,
               "committing a register other than SP/PC never error-stops a machine whose SP and PC are valid",
               p.need_body(APPLY).loc(), "%s written: %s" % (sorted(fin), sorted(w)))
    fin, w, b = commit(None, 0, "_16", size_any_ok, flagw=True)
    chk.ob("flag-commit-writes-r4-only", w <= {"register.content[4]", "pending_flag_write", "pending_register_write"}
           and fin == {"Running"} and not b,
           "the flag commit writes register 4 only and never halts", p.need_body(APPLY).loc(),
           "written: %s state %s" % (sorted(w), sorted(fin)))
    # no commit, no halt
    fin, w, b = commit(None, D.top_of_int("u8"), "_16", auto)
    chk.ob("no-commit-no-stop", fin == {"Running"} and not b,
           "without a pending register write the commit stage cannot halt", p.need_body(APPLY).loc(), "%s" % sorted(fin))

    # ---- 0x00 / 0x01 at the IR load ----------------------------------------
    g2 = ctx.graph
    nload = 0
    for a in sorted(g2.prog):
        if not g2.is_load(a):
            continue
        nload += 1
        h = g2.front[a].get("halts", {})
        ok = (h.get("0x00", {}).get("state") == ["ErrorStopped"] and h.get("0x01", {}).get("state") == ["Stopped"]
              and h.get("other", {}).get("state") == ["Running"] and h.get("0x01", {}).get("ir") == 1)
        chk.ob("ir-load-halts/%#05x" % a, ok,
               "loading opcode 0x00 error-stops, 0x01 stops (and is still loaded into IR for the continue key), "
               "any other byte does not halt", "control word %#05x" % a, repr(h))
    from .. import fetchlatch
    fetchlatch.obligations(ctx, prefix="fetch/")      # the byte that can halt is a byte read from the bus by the loading word
    fetchlatch.stop_edge_advances(ctx)
    chk.floor("IR-loading control words", nload, 15)
    # words that do not load the IR cannot halt in the IR stage (no pending commit)
    nk = 0
    for a in sorted(g2.prog):
        if g2.is_load(a):
            continue
        nk += 1
    # per non-loading word: without a pending commit the state stays Running
    running_vi = p.variant_index(STATE, "Running")
    badw = [a for a in sorted(g2.prog) if not g2.is_load(a)
            and g2.front[a].get("state_nocommit") != [running_vi]]
    chk.ob("non-loading-words-never-halt", not badw and nk > 0,
           "a clock edge on a control word that does not load the IR, without a pending register commit, never halts "
           "(so the only causes of a halt are the commit checks and the opcode bytes 0x00/0x01)",
           p.need_body(step.EDGE).loc(), "%d words analysed one by one; words that may halt: %s"
           % (nk, [hex(a) for a in badw[:8]]))

    # ---- an error stop of the commit stage survives the rest of the same clock edge ---------
    # (commit and IR load run in one edge on the fetch words: a PC above the limit committed at the
    #  edge that also loads STOP must not end as a regular stop, from which the continue key would
    #  resume a Running machine with an invalid PC)
    nsurv = 0
    for a in sorted(g2.prog):
        if not g2.is_load(a):
            continue
        for label, lbr, want in (("stop-byte", 1, {"ErrorStopped"}), ("zero-byte", 0, {"ErrorStopped"}),
                                 ("other-byte", frozenset(range(2, 256)), {"ErrorStopped"})):
            ov = step.machine_overrides(p, a, "Running", False, Opaque("IR"), lbr,
                                        extra={"pending_register_write": En({1: (En({regidx["R3"]: ()}),)}),
                                               "alu_output.output": D.norm_rng(2, 255),
                                               "programsize": En({ps_variants["Size"]: (D.norm_rng(0, 1),)}),
                                               "stacksize": En({ss_variants["_0"]: ()}),
                                               "register.content.5": 0})
            st_, ma_, _ = step.run_edge(p, I, ov)
            fin = set(state_names(p, step.field(p, I, st_, ma_, "state")) or ["?"])
            nsurv += 1
            chk.ob("commit-error-survives-edge/%#05x/%s" % (a, label), fin == want,
                   "an error stop raised by the register commit of a clock edge is the state at the end of that edge, "
                   "whatever opcode byte the same edge loads", "control word %#05x, raw/mod.rs update_instruction_from_bus" % a,
                   "PC above the limit committed, loaded byte %s: final state %s" % (label, sorted(fin)),
                   "A4 on RawMachine::trigger_clock_edge with commit and IR load in one edge")
    chk.floor("commit+load edges checked", nsurv, 45)

    # ---- NotSet never reaches the raw machine -------------------------------
    SETSS = RM + "::set_stacksize"
    sites = []
    for path, b in p.bodies.items():
        for bb, t in mirutil.calls_in(b):
            if mirutil.callee_name(t) == SETSS:
                sites.append((path, bb, t))
    chk.floor("call sites of RawMachine::set_stacksize", len(sites), 1)
    for path, bb, t in sites:
        b = p.bodies[path]
        conds = mirutil.edge_conditions(b, bb)
        guarded = False
        for d, taken, sw in conds:
            # the dominating switch must test (stacksize != NotSet) by a call to PartialEq::ne / eq
            src = mirutil.place_of(sw["d"])
            if src is None:
                continue
            for (dbb, idx, item) in mirutil.local_def_sites(b, src["l"]):
                if item.get("k") == "call":
                    nm = item["f"].get("def", "")
                    if nm in ("core::cmp::PartialEq::ne", "core::cmp::PartialEq::eq"):
                        args = item["args"]
                        txt = repr(args)
                        want_taken = "else" if nm.endswith("ne") else 0
                        if taken == want_taken or (nm.endswith("ne") and taken != 0) or (nm.endswith("eq") and taken == 0):
                            guarded = True
        by_value = False
        if not guarded and path == MACHINE_LOAD:
            # the guard may be written as a match on the variant instead of a comparison; for Machine::load the fact itself is
            # decided by value above (limits/load/stacksize-never-notset and limits/load/limits/NotSet/*: for every directive
            # value the stored limit is never NotSet), which is what this clause stands for
            rel = [o for o in chk.obligations if o["key"].startswith(("C05/limits/load/stacksize-never-notset",
                                                                      "C05/limits/load/limits/NotSet/"))]
            by_value = len(rel) >= 4 and all(o["status"] == "discharged" for o in rel)
        chk.ob("set-stacksize-guarded/%s" % path, guarded or by_value,
               "every call of RawMachine::set_stacksize is dominated by a test that the value is not NotSet (a comparison; for "
               "Machine::load also any other guard, decided by the value stored for every directive value)",
               "%s:%s" % (b.file, t["ln"]), "dominating conditions: %d; decided by value: %s" % (len(conds), by_value))
    chk.assume("external callers of the public RawMachine::set_stacksize never pass Stacksize::NotSet "
               "(the property quantifies over the five stack sizes)")
    chk.sample({"stack size _16": "SP in [0x00,0xD0] valid, [0xD1,0xDE] error stop, [0xDF,0xEF] valid, [0xF0,0xFF] error stop"})
