"""C03 - the parser accepts exactly mrasm, builds the right AST, never panics.

  1. consumer <= producer: every consumer function of the parse tree
     (parser/implementation/mod.rs) is abstractly interpreted (A4) on every
     child-sequence alternative the grammar can produce for every rule it is
     called with (abstract pest API, sa/pestmodel.py); no expect/unwrap/
     unreachable!/slice site may be able to fail.  Sub-parsers are replaced by
     tagged stand-ins, which also yields, per rule, the AST constructor built and
     the order in which operand children reach its fields (clause 4).
  2. numeric unwraps: lexical class of every numeral rule bounds the value below
     the target type's maximum; two ASCII prefix bytes for `[2..]`.
  3. language shape: header, case-insensitive mnemonics, exact numeric ranges in
     all three bases with leading zeros, label limit, undefined-label scan covers
     every label-bearing instruction, same normalisation on both sides.
"""
import os
from .. import absint, shapes, mirutil, spec, grammar, pestmodel
from .. import domain as D
from ..domain import Agg, En, Ref, Arr, It, Str, Opaque, TOP, BOT
from ..facts import AnchorMissing
from ..pestmodel import PairV

LEVEL = "other"
EXPLANATION = ("abstract interpretation of the parse-tree consumers against the grammar's child language (abstract pest "
               "API), grammar analysis with a PEG matcher over the grammar file, lexical enumeration of numeral classes")

PI = "L::parser::implementation::"
ENTRY = PI + "AsmParser::parse"
INSTR = "L::parser::ast::Instruction"
HELPERS = {PI + "id", PI + "ignore"}


def case_variants(s):
    """spellings of s that a case-insensitive literal may have matched: as written, all lower, all upper,
    and two mixed ones (a consumer that compares against the upper and the lower spelling only is not exhaustive)"""
    mixed1 = "".join(c.upper() if i % 2 == 0 else c.lower() for i, c in enumerate(s))
    mixed2 = "".join(c.lower() if i % 2 == 0 else c.upper() for i, c in enumerate(s))
    return {s, s.lower(), s.upper(), mixed1, mixed2}


def expand_reps(seq, counts=(0, 1, 2)):
    """replace every repetition marker by 0, 1 and 2 copies of each of its alternatives"""
    outs = [()]
    for it in seq:
        if isinstance(it, tuple):
            choices = [()]
            for k in counts:
                if k == 0:
                    continue
                for alt in it[1]:
                    choices.append(tuple(alt) * k)
            outs = [o + c for o in outs for c in choices]
        else:
            outs = [o + (it,) for o in outs]
    uniq = []
    for o in outs:
        if o not in uniq:
            uniq.append(o)
    return uniq


def build_items(seq, g):
    """child sequence (rule names) -> PairV items"""
    return tuple(PairV(r, idx=i) for i, r in enumerate(seq))


def alternatives_for(g, rule):
    """[(description, children items or None, text)] the ways a pair of `rule` can look"""
    out = []
    if rule is None:
        return [("no-argument", (), None)]
    if rule == "file":
        for seq0 in g.child_alts("file"):
            for seq in expand_reps(seq0):
                out.append(("file children %s" % _fmt_seq(seq), build_items(seq, g), None))
        return out
    r = g.need(rule)
    alts = g.top_alternatives(rule)
    for ai, e in enumerate(alts):
        concrete = None
        try:
            strs = g.strings(e, max_rep=1, cap=64)
            if len(strs) <= 64:
                concrete = strs
        except AnchorMissing:
            concrete = None
        if concrete is not None:
            texts = set()
            for s in concrete:
                for v in case_variants(s):
                    if g.full_match(rule, v):
                        texts.add(v)
            for t in sorted(texts):
                m = g.match_rule(rule, t)
                if m is None or m[0] != len(t) or not m[1]:
                    continue
                pair = m[1][0]
                kids = tuple(PairV(c.rule, idx=i, children=None, text=Str(t[c.start:c.end]))
                             for i, c in enumerate(pair.children))
                out.append(("alt%d text %r" % (ai, t), kids, Str(t)))
        else:
            for seq0 in g._calts(e, set([rule])) if r["ty"] != "atomic" else [()]:
                for seq in expand_reps(seq0):
                    out.append(("alt%d children %s" % (ai, _fmt_seq(seq)), build_items(seq, g), None))
    return out


def _fmt_seq(seq):
    return "[" + " ".join(x if isinstance(x, str) else "(%s)*" % "|".join(" ".join(a) for a in x[1]) for x in seq) + "]"


def run(ctx, only_entry=False):
    p = ctx.p
    chk = ctx.chk
    g = grammar.Grammar(p.grammar)
    tab = spec.load("grammar_ast")
    pm = pestmodel.PestModel(p, g)
    chk.floor("grammar rules", len(g.rules), 91)

    consumers = [k for k, b in p.bodies.items() if k.startswith(PI + "parse_") and b.kind == "Fn"]
    chk.floor("consumer functions parse_*", len(consumers), 70)
    all_parse = set(consumers)

    work = [(ENTRY, "file")]
    done = set()
    runs = 0
    results = {}        # (fn, rule) -> list of (desc, return value)
    entry_items = []
    entry_err = []
    site_fail = {}
    unanalysable = []
    reached_fns = set()
    while work:
        fn, rule = work.pop()
        if (fn, rule) in done:
            continue
        done.add((fn, rule))
        body = p.bodies.get(fn)
        if body is None:
            chk.fail("anchor/%s" % fn, "fail-closed: consumer function missing", "", fn, status="anchor-missing")
            continue
        reached_fns.add(fn)
        pending_alts = list(alternatives_for(g, rule))
        expanded_rules = set()
        while pending_alts:
            desc, items, text = pending_alts.pop(0)
            pm.need_expand = set()
            I = absint.Interp(p)
            I.unroll = 12
            pm.install(I)
            calls = []

            def mk_stub(name):
                def stub(I_, st, depth, callee, args, b_, ln, name=name):
                    pr = None
                    for a in args:
                        v = a
                        if isinstance(v, Ref):
                            v = I_.load(st, v.alloc, v.path)
                        if isinstance(v, PairV):
                            pr = v
                    if pr is None:
                        calls.append((name, None))
                    else:
                        for r_ in sorted(pr.rules()):
                            calls.append((name, r_))
                    return Opaque(("ast", name.split("::")[-1], pr.idx if pr else None))
                return stub
            for c in all_parse:
                if c != fn:
                    I.fn_overrides[c] = mk_stub(c)
            if fn == ENTRY:
                def pest_parse(I_, st, depth, callee, args, b_, ln, items=items):
                    return En({0: (pm.items_iter(items),)})
                I.fn_overrides["<L::parser::implementation::AsmParser as pest::parser::Parser<L::parser::implementation::Rule>>::parse"] = pest_parse
                I.fn_overrides["pest::parser::Parser::parse"] = pest_parse
                I.fn_overrides[PI + "validate_lines"] = lambda I_, st, depth, callee, args, b_, ln: En({0: (Agg(()),), 1: (TOP,)})
                arg = [Ref(I.new_alloc(absint.State(), "x", Str("")))]
            st = absint.State()
            if fn == ENTRY:
                a = I.new_alloc(st, "input", Opaque("INPUT"))
                args = [Ref(a)]
            elif body.argc == 0:
                args = []
            else:
                args = [PairV(rule, idx=None, children=items, text=text)]
            try:
                rv = I.run_body(body, args, st, 0)
            except absint.AnalysisLimit as e:
                unanalysable.append((fn, rule, desc, str(e)))
                continue
            runs += 1
            # the function looked inside a child whose own children were left open: analyse it again
            # with every child alternative of that child rule spelled out
            todo = [cr for cr in pm.need_expand if cr not in expanded_rules and cr in g.rules
                    and any(isinstance(x, PairV) and x.rule == cr and x.children is None for x in items)]
            if todo:
                cr = sorted(todo)[0]
                expanded_rules.add(cr)
                new_alts = []
                for d2, it2, t2 in [(desc, items, text)] + pending_alts:
                    if not any(isinstance(x, PairV) and x.rule == cr and x.children is None for x in it2):
                        new_alts.append((d2, it2, t2))
                        continue
                    for seq0 in g.child_alts(cr):
                        for seq in expand_reps(seq0):
                            kids = build_items(seq, g)
                            it3 = tuple(PairV(x.rule, x.idx, kids, x.text) if (isinstance(x, PairV) and x.rule == cr
                                                                                and x.children is None) else x for x in it2)
                            new_alts.append((d2 + " / %s=%s" % (cr, _fmt_seq(seq)), it3, t2))
                pending_alts = new_alts
                continue
            results.setdefault((fn, rule), []).append((desc, rv, tuple(x.rule for x in items if isinstance(x, PairV))))
            if fn == ENTRY:
                entry_items.append((desc, items, rv))
                # the same tree once more with a label check that fails: the failure must come out of parse, whatever it is
                I_e = absint.Interp(p)
                I_e.unroll = 12
                pm.install(I_e)
                for c in all_parse:
                    if c != fn:
                        I_e.fn_overrides[c] = mk_stub(c)
                I_e.fn_overrides["<L::parser::implementation::AsmParser as pest::parser::Parser<L::parser::implementation::Rule>>::parse"] = pest_parse
                I_e.fn_overrides["pest::parser::Parser::parse"] = pest_parse
                err_t = p.need_type("L::parser::implementation::error::ParserError") if \
                    "L::parser::implementation::error::ParserError" in p.types else None
                evs = {vi: tuple(TOP for _ in v["fields"]) for vi, v in enumerate(err_t["variants"])} if err_t else None
                I_e.fn_overrides[PI + "validate_lines"] = \
                    lambda I_, st, depth, callee, args, b_, ln, evs=evs: En({1: (En(evs) if evs else TOP,)})
                st_e = absint.State()
                a_e = I_e.new_alloc(st_e, "input", Opaque("INPUT"))
                try:
                    rv_e = I_e.run_body(body, [Ref(a_e)], st_e, 0)
                except absint.AnalysisLimit as e:
                    rv_e = None
                entry_err.append((desc, rv_e))
            for e in I.events:
                if e.in_log:
                    continue
                if e.kind == "panic" or (e.kind == "assert" and e.info["may_fail"]):
                    key = (e.body, e.bb if e.kind == "panic" else e.info["bb"])
                    site_fail.setdefault(key, []).append((fn, rule, desc, e))
                elif e.kind in ("wild_write", "unknown_call_value", "recursion_or_depth", "unknown_terminator"):
                    unanalysable.append((fn, rule, desc, repr(e)))
                elif e.kind == "unknown_extern" and not str(e.info).startswith(("core::fmt", "alloc::fmt")):
                    unanalysable.append((fn, rule, desc, repr(e)))
            for (callee, r) in ([] if only_entry else calls):
                if r is not None and callee not in HELPERS:
                    work.append((callee, r))
                elif r is None and p.bodies.get(callee) is not None and p.bodies[callee].argc == 0:
                    work.append((callee, None))
    chk.note("consumer runs: %d over %d (function, rule) pairs" % (runs, len(done)))
    chk.note("grammar alternatives pruned as dead (shadowed under ordered choice): %s" % sorted(set(g.pruned)))
    if not only_entry:
        chk.floor("(consumer, rule) pairs analysed", len(done), 74)
    chk.ob("consumers-analysable", not unanalysable, "every consumer run is interpreted without an unmodelled construct",
           "", "%s" % unanalysable[:5])
    never = [] if only_entry else sorted(c for c in consumers if c not in reached_fns)
    chk.ob("consumers-all-reached", not never, "every parse_* function is reached from AsmParser::parse through the grammar",
           "", "never called: %s" % never[:8])

    # ---- clause 4a: the program is one Line per `line` pair, in order ---------------------
    asm_t = p.need_type("L::parser::ast::Asm")
    afields = [f["n"] for f in asm_t["variants"][0]["fields"]]
    chk.floor("file-level parse tree alternatives", len(entry_items), 16)
    for desc, items, rv in entry_items:
        want_lines = tuple(("ast", "parse_line", x.idx) for x in items if isinstance(x, PairV) and x.rule == "line")
        hdr = [x for x in items if isinstance(x, PairV) and x.rule == "header"]
        hkids = hdr[0].children if hdr and hdr[0].children is not None else ()
        want_c = [("ast", "parse_comment", x.idx) for x in hkids if isinstance(x, PairV) and x.rule == "comment"]
        ok_payload = rv.vs.get(0) if isinstance(rv, En) else None
        asm = ok_payload[0] if ok_payload else None
        got_lines = got_c = None
        if isinstance(asm, Agg) and len(asm.f) == len(afields):
            got_lines = asm.f[afields.index("lines")]
            got_c = asm.f[afields.index("comment_after_shebang")]
        lines_ok = isinstance(got_lines, Arr) and tuple(getattr(e, "tag", None) for e in got_lines.e) == want_lines
        if want_c:
            c_ok = isinstance(got_c, En) and set(got_c.vs) == {1} and getattr(got_c.vs[1][0], "tag", None) == want_c[-1]
        else:
            c_ok = isinstance(got_c, En) and set(got_c.vs) == {0}
        chk.ob("program/%s" % desc.replace("file children ", "").replace(" ", "_"), lines_ok and c_ok,
               "the parsed program holds exactly one Line per `line` pair of the parse tree, in source order (also empty "
               "trailing lines), and the header comment iff the header has one",
               p.bodies[ENTRY].loc(), "lines %r (expected %s); header comment %r" % (got_lines, list(want_lines), got_c),
               "A4 of AsmParser::parse over every file-level child sequence, parse_line/parse_comment as tagged stand-ins")

    for desc, rv_e in entry_err:
        ok_e = isinstance(rv_e, En) and set(rv_e.vs) == {1}
        chk.ob("label-check-propagates/%s" % desc.replace("file children ", "").replace(" ", "_"), ok_e,
               "when the label check (validate_lines) fails - for whichever reason - AsmParser::parse returns an error: no "
               "program with an undefined label or too many labels is accepted", p.bodies[ENTRY].loc(),
               "result of parse when validate_lines returns Err: %r" % (rv_e,),
               "A4 of AsmParser::parse with validate_lines replaced by a stand-in that returns every error variant")
    if only_entry:
        return
    # ---- the text that is judged is the text that was written ------------------------------
    # `2a-emulator verify`, the interactive `load` and the runner reach the parser through glue (read_asm_file,
    # RunnerConfig::run).  "Accepts exactly the language" holds for what the user wrote only if that glue hands the file's
    # content (the configured program text) to AsmParser::parse as it is: a stripped byte-order mark, a trimmed or
    # normalised text between the file and the parser makes the tool accept texts the parser rejects (or the reverse).
    from .. import provenance
    cg_ = mirutil.call_graph(p)
    parse_callers = sorted(k for k, v in cg_.items() if ENTRY in v and p.bodies[k].crate in ("L", "B"))
    want_origin = {"B::helpers::read_asm_file": ("file(arg1)",), "L::runner::RunnerConfig::<'a>::run": ("arg1.program",)}
    for fn_ in parse_callers:
        b_ = p.bodies[fn_]
        got_ = [provenance.origin(b_, mirutil.place_of(t_["args"][0])) for bb_, t_ in mirutil.calls_in(b_)
                if mirutil.callee_name(t_) == ENTRY]
        exp_ = want_origin.get(fn_)
        ok_ = bool(got_) and all(g_ is not None for g_ in got_) and (exp_ is None or all(g_ in exp_ for g_ in got_))
        chk.ob("entry/text-as-written/%s" % fn_.split("::")[-1], ok_,
               "the caller hands the text it was given (the content of the file, the configured program) to AsmParser::parse "
               "unchanged - through borrows, copies and the `?` on the file read only", b_.loc(),
               "provenance of the parsed text: %s (expected %s)" % (got_, exp_ or "an argument or a file"),
               "backward provenance over the MIR of the caller (sa/provenance.py)")
    chk.ob("entry/text-as-written/callers-known", set(want_origin) <= set(parse_callers),
           "the file reader of the binary and the runner of the library are the callers of the parser", p.bodies[ENTRY].loc(),
           "callers: %s" % parse_callers)
    # ---- clause 1/2: panic sites -----------------------------------------------------
    from .. import panics
    sites = panics.enumerate_sites(p, sorted(reached_fns))
    chk.floor("panic-capable sites in the consumers", len(sites), 100)
    for s in sites:
        if s["in_log"]:
            continue
        fl = site_fail.get((s["fn"], s["bb"]))
        b = p.bodies[s["fn"]]
        if fl:
            f_, r_, d_, ev = fl[0]
            chk.ob("site/%s" % s["key"], False,
                   "the grammar guarantees what the consumer expects (no expect/unwrap/unreachable!/slice can fail)",
                   "%s:%s" % (b.file, s["ln"]),
                   "can fail for rule %s, %s: %s" % (r_, d_, _short(ev.info)))
        else:
            chk.ob("site/%s" % s["key"], True,
                   "the grammar guarantees what the consumer expects (no expect/unwrap/unreachable!/slice can fail)",
                   "%s:%s" % (b.file, s["ln"]), "%s %s" % (s["kind"], s["detail"]),
                   "A4 over every child alternative of every rule the function is called with")
    # ---- clause 1b: the rejection path.  A syntax error reported by pest is converted into the crate's error type by code
    # that indexes the list of expected rules; it is interpreted for every length class of that list (the code compares the
    # length with small constants only, so lengths 0..5 cover every ordering) and for a custom error ---------------------------
    EF = "<L::parser::implementation::error::ParserError as core::convert::From<pest::error::Error<L::parser::implementation::Rule>>>::from"
    efb = p.need_body(EF)
    efns = sorted(k for k in p.bodies if k == EF or k.startswith(EF + "::"))
    pe = p.need_type("pest::error::Error")
    pev = p.need_type("pest::error::ErrorVariant")
    rule_t = p.need_type("L::parser::implementation::Rule")
    any_rule = En({i: () for i in range(len(rule_t["variants"]))})
    vi_parse = [i for i, v in enumerate(pev["variants"]) if v["n"] == "ParsingError"][0]
    vi_custom = [i for i, v in enumerate(pev["variants"]) if v["n"] == "CustomError"][0]
    pfields = [f["n"] for f in pev["variants"][vi_parse]["fields"]]
    err_fail = {}
    err_unk = []
    cases = [("expected-%d" % k, En({vi_parse: tuple(Arr([any_rule] * k) if f == "positives" else Arr([any_rule] * (k % 2))
                                                  for f in pfields)})) for k in range(6)]
    cases.append(("custom", En({vi_custom: (Opaque("MESSAGE"),)})))
    for cname, variant in cases:
        Ie = absint.Interp(p)
        Ie.unroll = 12
        # (writing into a String cannot fail: <String as fmt::Write> always returns Ok)
        Ie.fn_overrides["core::fmt::Write::write_fmt"] = lambda I_, st, depth, callee, args, b_, ln: En({0: (Agg(()),)})
        Ie.fn_overrides["alloc::fmt::format"] = lambda I_, st, depth, callee, args, b_, ln: Opaque("formatted")
        Ie.fn_overrides["alloc::fmt::format::format_inner"] = lambda I_, st, depth, callee, args, b_, ln: Opaque("formatted")
        ev_ = Agg([variant if f["n"] == "variant" else TOP for f in pe["variants"][0]["fields"]])
        ste = absint.State()
        try:
            Ie.run_body(efb, [ev_], ste, 0)
        except absint.AnalysisLimit as e:
            err_unk.append((cname, str(e)))
            continue
        for e in Ie.events:
            if e.in_log or e.body not in efns:
                continue
            if e.kind == "panic" or (e.kind == "assert" and e.info["may_fail"]):
                err_fail.setdefault((e.body, e.bb if e.kind == "panic" else e.info["bb"]), []).append((cname, e))
            elif e.kind in ("wild_write", "unknown_call_value", "recursion_or_depth", "unknown_terminator"):
                err_unk.append((cname, repr(e)))
            elif e.kind == "unknown_extern" and not str(e.info).startswith(("core::fmt", "alloc::fmt", "<")):
                err_unk.append((cname, repr(e)))
    chk.ob("error-path/analysable", not err_unk, "the conversion of a pest error is interpreted without an unmodelled construct",
           efb.loc(), "%s" % err_unk[:3])
    esites = panics.enumerate_sites(p, efns)
    chk.floor("panic-capable sites on the rejection path", len(esites), 3)
    for s_ in esites:
        if s_["in_log"]:
            continue
        fl = err_fail.get((s_["fn"], s_["bb"]))
        chk.ob("error-path/site/%s" % s_["key"], not fl,
               "rejecting a text never panics: building the error message is safe for every number of expected rules",
               "%s:%s" % (p.bodies[s_["fn"]].file, s_["ln"]),
               ("can fail for %s: %s" % (fl[0][0], _short(fl[0][1].info))) if fl else "%s %s" % (s_["kind"], s_["detail"]),
               "A4 of the From<pest::error::Error> conversion for 0..5 expected rules and a custom message")
    for kind, rule, detail, ok in pm.lex_obligations:
        pass
    seen_lex = {}
    for kind, rule, detail, ok in pm.lex_obligations:
        seen_lex[(kind, rule, detail)] = ok
    for (kind, rule, detail), ok in sorted(seen_lex.items(), key=str):
        chk.ob("lexical/%s/%s/%s" % (kind, rule, detail.split(":")[0]), ok,
               "the lexical class of the rule makes the numeric conversion / slice infallible", "grammar rule %s" % rule, detail)

    # ---- clause 4: rule -> AST ---------------------------------------------------------
    dropped = []
    nop_total = [0]
    it = p.need_type(INSTR)
    vnames = [v["n"] for v in it["variants"]]
    for rule, (variant, mnemonic) in tab["instruction"].items():
        if variant not in vnames:
            chk.fail("anchor/variant/%s" % variant, "fail-closed: AST variant missing", "", variant, status="anchor-missing")
            continue
        # which function handles the rule?
        handlers = [fn for (fn, r) in done if r == rule and fn != PI + "parse_instruction"]
        if not handlers:
            # rules without operands are handled by zero-argument functions called from parse_instruction
            rs = results.get((PI + "parse_instruction", "instruction"), [])
            ok = False
            for desc, rv, kids_ in rs:
                if kids_ == (rule,) and isinstance(rv, Opaque):
                    hname = rv.tag[1]
                    res0 = results.get((PI + hname, None), [])
                    for d2, rv2, _k2 in res0:
                        if isinstance(rv2, En) and set(rv2.vs) == {vnames.index(variant)}:
                            ok = True
            chk.ob("ast/%s" % rule, ok, "the rule is turned into the AST variant of the same instruction",
                   "grammar rule %s" % rule, "expected Instruction::%s" % variant)
            continue
        for fn in handlers:
            for desc, rv, _kids in results.get((fn, rule), []):
                vi = vnames.index(variant)
                ok = isinstance(rv, En) and set(rv.vs) == {vi}
                order_ok = True
                det = repr(rv)[:200]
                if ok:
                    idxs = []
                    for f in rv.vs[vi]:
                        if isinstance(f, Opaque) and isinstance(f.tag, tuple) and f.tag[0] == "ast":
                            if isinstance(f.tag[2], int):
                                idxs.append(f.tag[2])
                    order_ok = idxs == sorted(idxs)
                chk.ob("ast/%s/%s" % (rule, desc.split(" ")[0]), ok and order_ok,
                       "the rule is turned into the AST variant of the same instruction, operands in written order",
                       p.bodies[fn].loc(), "built %s (expected Instruction::%s), operand child order ok: %s" % (det, variant, order_ok))
                # every operand the grammar admits reaches the AST: none is skipped (a consumer that selects its children by
                # rule name silently drops an operand of a kind the grammar was widened to accept)
                n_ops = sum(1 for k_ in _kids if not str(k_).startswith("sep_"))
                used = set()

                def _tags(v_):
                    if isinstance(v_, Opaque) and isinstance(v_.tag, tuple) and v_.tag and v_.tag[0] == "ast":
                        used.add(v_.tag[2])
                    elif isinstance(v_, En):
                        for fs_ in v_.vs.values():
                            for x_ in fs_:
                                _tags(x_)
                    elif isinstance(v_, (Agg,)):
                        for x_ in v_.f:
                            _tags(x_)
                    elif isinstance(v_, Arr):
                        for x_ in v_.e:
                            _tags(x_)
                _tags(rv)
                if ok and all(isinstance(u_, int) for u_ in used) and used:
                    nop_total[0] += 1
                    if len(used) != n_ops:
                        dropped.append("%s %s: %d operand children, %d reach Instruction::%s" % (rule, desc, n_ops, len(used), variant))
    # ---- clause 4b: numerals denote their value.  Every consumer that receives a numeral child directly is interpreted on
    # concrete numeral texts (digit strings chosen to look like another radix's prefix, leading zeros, both letter cases,
    # the range ends); the value it builds must be the number written -------------------------------------------------------
    digit_fam = {2: ["0", "1", "10", "0101", "11111111", "00000001", "1111111111111111", "1000000000000000"],
                 16: ["0", "b", "B", "0b", "0B", "0b1", "0b12", "00b1", "b1", "0b0", "0b01", "7f", "fF", "ff", "0x1"[2:], "ffff", "0b00", "abcd", "0100"],
                 10: ["0", "7", "42", "255", "007", "256", "65535", "010", "100"]}
    bad_num = []
    bad_num_by = {2: [], 16: [], 10: []}
    nnum = 0
    for (fn_, rule_) in sorted(x for x in done if x[1] is not None):
        body_ = p.bodies.get(fn_)
        if body_ is None or body_.argc == 0 or fn_ == ENTRY:
            continue
        for desc_, items_, _text in alternatives_for(g, rule_):
            if not items_:
                continue
            for k_, it_ in enumerate(items_):
                if not (isinstance(it_, PairV) and it_.rule in tab["numeric"]):
                    continue
                radix, skip, maxv = tab["numeric"][it_.rule]
                pref = {2: "0b", 16: "0x", 10: ""}[radix]
                for digs in digit_fam[radix]:
                    for pre_ in ({pref, pref.upper()} if pref else {""}):
                        txt = pre_ + digs
                        if not g.full_match(it_.rule, txt):
                            continue
                        want_v = int(digs, radix)
                        items2 = tuple(PairV(it_.rule, it_.idx, None, Str(txt)) if j_ == k_ else y_ for j_, y_ in enumerate(items_))
                        In = absint.Interp(p)
                        In.unroll = 12
                        pm.install(In)
                        for c_ in all_parse:
                            if c_ != fn_ and not c_.endswith(("parse_constant_dec", "parse_word_dec")):
                                In.fn_overrides[c_] = lambda I_, st, depth, callee, args, b_, ln: Opaque("sub")
                        stn = absint.State()
                        try:
                            rvn = In.run_body(body_, [PairV(rule_, None, items2, None)], stn, 0)
                        except absint.AnalysisLimit:
                            rvn = None
                        nnum += 1
                        leaves = []

                        def _ints(v_):
                            if isinstance(v_, bool):
                                return
                            if isinstance(v_, int):
                                leaves.append(v_)
                            elif isinstance(v_, En):
                                for fs_ in v_.vs.values():
                                    for x_ in fs_:
                                        _ints(x_)
                            elif isinstance(v_, Agg):
                                for x_ in v_.f:
                                    _ints(x_)
                            elif isinstance(v_, Arr):
                                for x_ in v_.e:
                                    _ints(x_)
                        _ints(rvn)
                        if leaves != [want_v]:
                            bad_num.append("%s reads %r as %s (written value %d)" % (fn_.rsplit("::", 1)[-1], txt, leaves if leaves else D.short(rvn), want_v))
                            bad_num_by[radix].append(bad_num[-1])
    chk.ob("numeric/value", not bad_num, "a numeral in any base is read as the number written (prefix stripped once, digits in the "
           "numeral's own radix)", "parser/implementation/mod.rs", "; ".join(sorted(set(bad_num))[:4]) or "%d (consumer, numeral) cases" % nnum,
           "A4 of the numeral consumers on concrete numeral texts")
    for radix_, nm_ in ((2, "bin"), (16, "hex"), (10, "dec")):
        chk.ob("numeric/value/%s" % nm_, not bad_num_by[radix_], "a %s numeral is read as the number written" % nm_,
               "parser/implementation/mod.rs", "; ".join(sorted(set(bad_num_by[radix_]))[:4]) or "see numeric/value",
               "A4 of the numeral consumers on concrete numeral texts")
    chk.floor("numeral cases", nnum, 150)
    chk.ob("ast/no-operand-dropped", not dropped,
           "every operand child of an instruction rule is handed to a sub-parser and stored in the AST", "parser/implementation/mod.rs",
           "; ".join(dropped[:3]) or "%d (rule, alternative) cases with sub-parsed operands" % nop_total[0],
           "A4 of the consumers: the tagged stand-ins of the sub-parsers found in the built value")
    # ---- clause 4c: the operand forms.  The real operand parsers (sub-parsers included, nothing replaced) are interpreted on
    # the PEG parse tree of concrete operand texts - every register in each of the four forms, numerals and names bare and
    # in parentheses - and must build the documented operand: Rn, (Rn) = memory at Rn, (Rn+) = post-increment,
    # ((Rn+)) = double dereference with post-increment, n / (n), name / (name) --------------------------------------------
    AST = "L::parser::ast::"

    def vix(ty, name):
        vs = [v["n"] for v in p.need_type(AST + ty)["variants"]]
        if name not in vs:
            raise AnchorMissing("%s::%s" % (ty, name))
        return vs.index(name)

    def ref_operand(kind, text):
        """the documented reading of an operand text, as a value of the AST type `kind`"""
        def reg(t):
            return En({vix("Register", tab["registers"][t.lower()]): ()})

        def const(t):
            tl = t.lower()
            if tl.startswith("0x"):
                return En({vix("Constant", "Constant"): (int(tl[2:], 16),)})
            if tl.startswith("0b"):
                return En({vix("Constant", "Constant"): (int(tl[2:], 2),)})
            if tl.isdigit():
                return En({vix("Constant", "Constant"): (int(tl, 10),)})
            return En({vix("Constant", "Label"): (Str(t),)})
        if text.startswith("((") and text.endswith("+))"):
            return En({vix(kind, "RegisterDdi"): (Agg((reg(text[2:-3]),)),)})
        if text.startswith("(") and text.endswith("+)"):
            return En({vix(kind, "RegisterDi"): (Agg((reg(text[1:-2]),)),)})
        if text.startswith("(") and text.endswith(")"):
            inner = text[1:-1]
            if inner.lower() in tab["registers"]:
                m_ = En({vix("MemAddress", "Register"): (reg(inner),)})
            else:
                m_ = En({vix("MemAddress", "Constant"): (const(inner),)})
            return m_ if kind == "MemAddress" else En({vix(kind, "MemAddress"): (m_,)})
        if text.lower() in tab["registers"]:
            return En({vix(kind, "Register"): (reg(text),)})
        return En({vix(kind, "Constant"): (const(text),)})

    def to_pairs(node, text, idx=None):
        return PairV(node.rule, idx, tuple(to_pairs(c, text, i) for i, c in enumerate(node.children)), Str(text[node.start:node.end]))

    reg_texts = sorted({t_ for t_ in list(tab["registers"]) + [x.upper() for x in tab["registers"]] if g.full_match("register", t_)})
    atoms = ["0", "7", "255", "0x2A", "0XfF"[0:1] + "xfF", "0b101", "0b00000011", "loop", "Foo_1", "_x", "table"]
    op_texts = []
    for r_ in reg_texts:
        op_texts += [r_, "(%s)" % r_, "(%s+)" % r_, "((%s+))" % r_]
    for a_ in atoms:
        op_texts += [a_, "(%s)" % a_]
    bad_ops = []
    nops = 0
    for kind, rule_, fn_ in (("Source", "source", "parse_source"), ("Destination", "destination", "parse_destination"),
                             ("MemAddress", "memory", "parse_memory")):
        body_ = p.need_body(PI + fn_)
        for t_ in op_texts:
            m_ = g.match_rule(rule_, t_)
            if m_ is None or m_[0] != len(t_) or not m_[1]:
                continue
            Io = absint.Interp(p)
            Io.unroll = 12
            pm.install(Io)
            try:
                got = Io.run_body(body_, [to_pairs(m_[1][0], t_)], absint.State(), 0)
            except absint.AnalysisLimit as e_:
                got = "not analysable: %s" % e_
            evs_ = [e_ for e_ in Io.events if e_.kind in ("unknown_extern", "havoc", "wild_write", "unknown_call_value") and not e_.in_log]
            want = ref_operand(kind, t_)
            nops += 1
            if got != want or evs_:
                bad_ops.append("%s %r is read as %s, documented %s %s" % (rule_, t_, D.short(got) if not isinstance(got, str) else got,
                                                                        D.short(want), [repr(e_)[:80] for e_ in evs_[:1]]))
    chk.ob("ast/operand-forms", not bad_ops,
           "every operand text is stored as the operand form that was written: Rn, (Rn), (Rn+), ((Rn+)), a numeral or name, "
           "bare or in parentheses, with the register and value written", "parser/implementation/mod.rs parse_source / "
           "parse_destination / parse_memory", "; ".join(bad_ops[:3]) or "%d (operand rule, text) cases" % nops,
           "A4 of the real operand parsers on the PEG parse trees of concrete operand texts")
    chk.floor("operand form cases", nops, 120)
    # the dispatcher maps each instruction alternative to its own handler
    rs = results.get((PI + "parse_instruction", "instruction"), [])
    chk.floor("instruction alternatives dispatched", len(rs), 55)
    # registers / stack sizes
    reg_t = p.need_type("L::parser::ast::Register")
    rn = [v["n"] for v in reg_t["variants"]]
    for desc, rv, _kids in results.get((PI + "parse_register", "register"), []):
        txt = desc.split("text ")[1].strip("'\"").lower() if "text " in desc else None
        want = tab["registers"].get(txt)
        ok = want is not None and isinstance(rv, En) and set(rv.vs) == {rn.index(want)}
        chk.ob("register/%s" % desc.split("text ")[-1], ok, "register names map to their registers (PC is R3)",
               p.bodies[PI + "parse_register"].loc(), "%r expected %s" % (rv, want))
    ss_t = p.need_type("L::parser::ast::Stacksize")
    sn = [v["n"] for v in ss_t["variants"]]
    for desc, rv, _kids in results.get((PI + "parse_raw_stacksize", "raw_stacksize"), []):
        txt = desc.split("text ")[1].strip("'\"").lower() if "text " in desc else None
        want = tab["stacksize"].get(txt)
        ok = want is not None and isinstance(rv, En) and set(rv.vs) == {sn.index(want)}
        chk.ob("stacksize/%s" % desc.split("text ")[-1], ok, "stack size words map to their sizes",
               p.bodies[PI + "parse_raw_stacksize"].loc(), "%r expected %s" % (rv, want))

    # ---- clause 3: language shape ----------------------------------------------------------
    lim = tab["limits"]
    hdr = g.need("header")["e"]
    first_lit = hdr["a"] if hdr["k"] == "seq" else hdr
    chk.ob("grammar/header-literal", first_lit == {"k": "str", "s": lim["header"]},
           "the first line must start with the literal '#! mrasm'", "grammar rule header", repr(first_lit))
    fe = g.need("file")["e"]
    fa = g.child_alts("file")
    chk.ob("grammar/header-first", all(s and s[0] == "header" for s in fa), "the header is mandatory and first",
           "grammar rule file", repr(fa)[:200])
    # mnemonics case-insensitive and equal to the reference mnemonic
    for rule, (variant, mnemonic) in tab["instruction"].items():
        lits = g.literal_case(g.need(rule)["e"])
        first = lits[0] if lits else (None, None)
        chk.ob("grammar/mnemonic/%s" % rule, first[0] == mnemonic and first[1] is True,
               "the mnemonic is the documented one and case-insensitive", "grammar rule %s" % rule, repr(first))
    # every instruction rule is an alternative of `instruction`
    inst_alts = [a["s"] for a in g.top_alternatives("instruction") if a["k"] == "ident"]
    chk.ob("grammar/instruction-alternatives", sorted(inst_alts) == sorted(tab["instruction"].keys()),
           "the instruction rule offers exactly the documented instructions", "grammar rule instruction",
           "difference: %s" % sorted(set(inst_alts) ^ set(tab["instruction"].keys())))
    # ordered choice: an alternative whose mnemonic is a proper prefix of a later one must not shadow it
    for i, a in enumerate(inst_alts):
        for b in inst_alts[i + 1:]:
            ma, mb = tab["instruction"].get(a, [None, ""])[1], tab["instruction"].get(b, [None, ""])[1]
            if ma and mb and mb.upper().startswith(ma.upper()) and ma.upper() != mb.upper():
                # a is tried first; it must fail on text of b: a needs a separator or ends the line
                ok = g.match_rule("line", " " + mb) is not None and \
                    [c.children[0].rule for c in g.match_rule("line", " " + mb)[1][0].children if c.rule == "instruction"] == [b] \
                    if not g.child_alts(b)[0] else True
                chk.ob("grammar/prefix-order/%s-%s" % (a, b), ok,
                       "an instruction whose mnemonic is a prefix of a later one does not capture it", "grammar rule instruction", "")
    # the header is a line of its own: after '#! mrasm' (one optional blank, an optional comment) the line ends
    bad_hdr = []
    for text, want in (("#! mrasm", True), ("#! mrasm\n", True), ("#! mrasm\nNOP", True), ("#! mrasm ; c\nNOP", True),
                       ("#! mrasm;c\n", True), ("#! mrasm \nNOP\n", True),
                       ("#! mrasm STOP\n", False), ("#! mrasmSTOP\n", False), ("#! mrasm MAIN:\n JR MAIN", False),
                       ("#! mrasm  \nNOP", False), ("#! mrasmINC R0\n", False), ("#! mrasm NOP", False),
                       ("#! mrasm x\n", False), ("#!mrasm\n", False), (" #! mrasm\n", False), ("NOP\n", False)):
        m_ = g.match_rule("file", text)
        got = m_ is not None and m_[0] == len(text)
        if got != want:
            bad_hdr.append("%r is %s" % (text, "accepted" if got else "rejected"))
    chk.ob("grammar/header-line", not bad_hdr,
           "the first line is the header and nothing else: an instruction, a label or a second blank after '#! mrasm' is rejected",
           "grammar rules file/header", "; ".join(bad_hdr[:4]) or "16 texts", "PEG matching of header variants against the grammar file")
    # a label line is a label line whatever the name looks like: every name the rule raw_label accepts - in particular names
    # that begin with a mnemonic, a register or a directive word - is accepted as `name:` and read as a label (under ordered
    # choice an alternative tried earlier must not commit to a keyword prefix of the name)
    words = sorted({m for _r, (_v, m) in tab["instruction"].items() if m} | {"R0", "R1", "R2", "R3", "PC", "SP", "ORG", "EQU", "DB"})
    bad_lbl = []
    nlbl = 0
    for wd in words:
        base = wd.lstrip(".*")
        for name in (base + "X", base + "_1", base.lower() + "loop", base + "S", "X" + base):
            if not name or not g.full_match("raw_label", name):
                continue
            nlbl += 1
            for text in (name + ":", name + ": ; note", name + ":  "):
                m = g.match_rule("line", text)
                kinds = [c.rule for c in m[1][0].children if c.rule not in ("space",)] if m is not None and m[0] == len(text) and m[1] else None
                if not kinds or kinds[0] != "label":
                    bad_lbl.append("%r %s" % (text, "is rejected" if kinds is None else "reads as %s" % kinds))
    chk.ob("grammar/label-lines", not bad_lbl and nlbl >= 100,
           "every name raw_label accepts can head a label line, also when it begins with a mnemonic, register or directive word",
           "grammar rule line", "; ".join(bad_lbl[:4]) or "%d names x 3 line forms" % nlbl,
           "PEG matching of generated label lines against the grammar file")
    # numeric classes: exact ranges in three bases
    digits = "0123456789abcdefghijklmnopqrstuvwxyz"
    for rule, (radix, skip, maxv) in tab["numeric"].items():
        ok, mx, n = pm.numeric_bound(rule, skip, radix)
        chk.ob("grammar/numeric-max/%s" % rule, ok and mx == maxv, "the numeral class has exactly the documented maximum",
               "grammar rule %s" % rule, "max %s over %d numerals (expected %d)" % (mx, n, maxv))
        # no gap: every value has a canonical numeral that the PEG accepts; the successor of the maximum is rejected
        pref = {2: "0b", 16: "0x", 10: ""}[radix]
        step = 1 if (maxv <= 255 or ctx.tier == "thorough") else 257
        vals = list(range(0, maxv + 1, step)) + [maxv, maxv - 1, 256, 255, 1, 0]
        bad = []
        for v in sorted(set(x for x in vals if 0 <= x <= maxv)):
            s = pref + _to_base(v, radix)
            for lead in ("", "0", "000"):
                t = pref + lead + _to_base(v, radix)
                if not g.full_match(rule, t):
                    bad.append(t)
            if radix == 16 and not g.full_match(rule, pref + _to_base(v, radix).upper()):
                bad.append(pref + _to_base(v, radix).upper())
        chk.ob("grammar/numeric-dense/%s" % rule, not bad,
               "every value of the range is accepted, with and without leading zeros", "grammar rule %s" % rule,
               "rejected: %s (values checked: %s)" % (bad[:5], "all" if step == 1 else "every 257th plus boundaries"))
        over = pref + _to_base(maxv + 1, radix)
        longer = pref + "1" + "0" * len(_to_base(maxv, radix))
        chk.ob("grammar/numeric-reject/%s" % rule, not g.full_match(rule, over) and not g.full_match(rule, longer),
               "the successor of the maximum and one more digit are rejected", "grammar rule %s" % rule, "%s %s" % (over, longer))
    # line structure
    la = g.child_alts("line")
    ok = all(sum(1 for x in s if x in ("label", "instruction")) <= 1 and sum(1 for x in s if x == "comment") <= 1
             and (not s or s[-1] == "comment" or "comment" not in s) for s in la)
    chk.ob("grammar/line-shape", ok, "a line has at most one label or instruction and at most one trailing comment",
           "grammar rule line", "")
    # validate_lines: limit, coverage, normalisation
    vb = p.need_body(PI + "validate_lines")
    from .. import labelscan
    ncount, bad_count = labelscan.count_cases(p, lim["max_labels"], ctx.tier == "thorough")
    chk.ob("labels/limit", not bad_count,
           "up to %d label definitions (labels and .EQU names together) are accepted and every larger number is rejected as "
           "too many - including numbers a byte-sized counter would wrap" % lim["max_labels"], vb.loc(),
           "; ".join(bad_count[:3]) or "%d (count, kind) cases" % ncount,
           "abstract interpretation of validate_lines on concrete numbers of definitions with opaque names")
    chk.floor("label count cases", ncount, 24)
    # label-bearing variants must have an explicit arm in the reference scan
    label_types = {"alloc::string::String", "L::parser::ast::Constant", "L::parser::ast::MemAddress",
                   "L::parser::ast::Source", "L::parser::ast::Destination"}
    bearing = {i for i, v in enumerate(it["variants"]) if any(f["ty"] in label_types for f in v["fields"])}
    explicit = set()
    for blk in vb.blocks:
        t = blk["t"]
        if t["k"] == "switch" and len(t["vals"]) >= 8:
            explicit |= {v for v, _ in t["vals"]}
    defs_variant = vnames.index("AsmEquals")
    missing = sorted(vnames[i] for i in bearing if i not in explicit and i != defs_variant)
    chk.ob("labels/scan-covers-all", not missing and len(bearing) >= 20,
           "the undefined-label scan has an explicit arm for every instruction that can carry a label",
           vb.loc(), "label-bearing variants without an arm: %s" % missing)
    # semantic version: the scan, interpreted abstractly on every instruction shape (labels opaque)
    from .. import labelscan
    nshapes, bad_scan = labelscan.scan(p)
    chk.ob("labels/scan-semantic", not bad_scan,
           "for every instruction shape: a reference to an undefined label is reported (all labels of the line, in any operand "
           "position), and the same line is accepted once the labels are defined - compared case-insensitively",
           vb.loc(), "; ".join(bad_scan[:4]) or "%d (shape, definition mode) cases" % nshapes,
           "abstract interpretation of validate_lines per AST shape with opaque label names")
    chk.floor("validate_lines shape cases", nshapes, 2300)
    lower_calls = 0
    for path in [vb.path] + [k for k in p.bodies if k.startswith(vb.path + "::{closure")]:
        for bb, t in mirutil.calls_in(p.bodies[path]):
            if (mirutil.callee_def(t) or "").endswith("to_lowercase"):
                lower_calls += 1
    chk.ob("labels/normalisation", lower_calls >= 3,
           "definitions (labels and .EQU) and references are compared after the same lower-casing", vb.loc(),
           "to_lowercase call sites: %d" % lower_calls)
    # comment trimming: the real parse_comment on every text over {blank, tab, ';', letter} up to four characters
    from .. import commentmodel
    cpar = commentmodel.CommentParser(p, g)
    trimset = lim["comment_trim"]
    bad_c = []
    fam = commentmodel.family(4)
    for rest in fam:
        got, badc = cpar.parse(rest)
        want = (";" + rest).strip(trimset)
        if badc or not isinstance(got, Str) or got.s != want:
            bad_c.append("%r is stored as %r, expected %r %s" % (";" + rest, got.s if isinstance(got, Str) else got, want, badc[:1] or ""))
    chk.ob("comment/trimmed", not bad_c, "a comment is stored without the blanks, tabs and semicolons at either end, its inside unchanged",
           cpar.body.loc(), "; ".join(bad_c[:3]) or "%d comment texts" % len(fam),
           "A4 of parse_comment on concrete comment texts")
    chk.floor("comment texts", len(fam), 341)
    # the accepted language is the grammar's: nothing in the workspace arms pest's process-wide call limit (with a limit a long
    # but legal text is rejected in whatever process set it - the library's parser has no say in that)
    cgp = mirutil.call_graph(p)
    limiters = sorted(f_ for f_, cs_ in cgp.items() if any(str(c_).startswith("pest::") and "set_call_limit" in str(c_) for c_ in cs_))
    chk.ob("grammar/no-call-limit", not limiters,
           "no function of the two crates sets pest's global call limit, so acceptance does not depend on the length of the text",
           "workspace call graph", "callers of pest::set_call_limit: %s" % limiters, "who-may-call over the resolved call graph")
    chk.assume("pest 2.5.7 implements the PEG semantics modelled by sa/grammar.py and never panics itself")
    chk.sample({"consumer": "parse_instruction_add", "rule": "add", "children": ["sep_ip", "register", "sep_pp", "register"]})


def _to_base(v, radix):
    if v == 0:
        return "0"
    d = "0123456789abcdef"
    s = ""
    while v:
        s = d[v % radix] + s
        v //= radix
    return s


def _short(info):
    if isinstance(info, dict):
        return {k: repr(v)[:70] for k, v in info.items() if k != "bb"}
    return repr(info)[:160]
