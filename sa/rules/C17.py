"""C17 - the interactive session survives key input; commands have the documented effect.

Decided:
 A. line editor (InputState::handle / next_completion / previous_completion / complete):
    every panic-capable site is safe under the struct invariant (cursor <= text length,
    history index < history length, completion index < number of completions), the
    invariant is re-established at every return - relational (zone) abstract interpretation
    of the MIR, all paths;  the editor's `unreachable!` arm cannot be reached from the
    event dispatch;
 B. command grammar: the nom combinator expression of parse_cmd, reconstructed from MIR, denotes
    exactly the documented command table (token sequences and the command value built from the
    captures, keywords case-insensitive, numbers through checked u8/usize conversions), no
    alternative is shadowed by an earlier one under ordered choice, and the whole line must be
    consumed;
 C. dispatch: every command value reaches exactly the machine call of the table with its
    payload as the argument; the control keys reach the machine calls of the same name; a
    pending notification swallows the key; an unparsable line only raises a notification.
Not decided (and not claimed): that drawing never fails at every terminal size (widget
arithmetic depends on layout values computed inside the tui crate), the file-name completer
of rustyline, the event loop's timing."""
from .. import absint, shapes, mirutil, spec, panics, nomtree, editor
from .. import domain as D
from ..domain import Agg, En, Ref, Arr, Opaque, Str, TOP, BOT
from ..facts import AnchorMissing

LEVEL = "other"
EXPLANATION = ("zone-domain abstract interpretation of the line editor under a struct invariant; reconstruction of the nom "
               "combinator tree from MIR compared with the documented command table; abstract interpretation of the "
               "dispatch functions with recording stand-ins for the machine calls; drawing code is not decided")

TUI = "B::tui::Tui"
IS = "B::tui::input::InputState"
CMD = "B::tui::input::Command"
PARSE = "B::tui::input::parser::parse_cmd"


# ---------------------------------------------------------------------------------------------
# documented command table -> alternatives

def spec_alternatives(cmds):
    U8 = [(["0x", "HEX"], "u8::from_str_radix(16)[$HEX]"), (["0b", "BIN"], "u8::from_str_radix(2)[$BIN]"),
          (["DEC"], "parse::<u8>[$DEC]")]
    out = set()
    for c in cmds:
        toks = c["pattern"].replace("(", " ( ").replace(")?", " )? ").split()
        # parse into items: ('tok', t) | ('opt', [items])
        items = []
        stack = [items]
        for t in toks:
            if t == "(":
                g = []
                stack[-1].append(("opt", g))
                stack.append(g)
            elif t == ")?":
                stack.pop()
            elif t.endswith("?") and len(t) > 1:
                stack[-1].append(("opt", [("tok", t[:-1])]))
            else:
                stack[-1].append(("tok", t))
        items = [("opt", [("tok", "WS")])] + items + [("opt", [("tok", "WS")])]

        def expand(its):
            acc = [([], {})]
            for kind, x in its:
                if kind == "opt":
                    inner = expand(x)
                    acc = [(a + b, dict(m, **m2)) for a, m in acc for b, m2 in inner] + [(a, dict(m, **{"opt_absent": True}) if any(k2 == "tok" and v2 == "USIZE" for k2, v2 in x) else m) for a, m in acc]
                    # order: present first (greedy), then absent
                    n = len(acc) // 2
                    continue
                t = x
                if t == "U8":
                    acc = [(a + u, dict(m, U8=val)) for a, m in acc for u, val in U8]
                elif t == "USIZE":
                    acc = [(a + ["DEC"], dict(m, USIZE="parse::<usize>[$DEC]")) for a, m in acc]
                elif t == "=":
                    acc = [(a + ["=="], m) for a, m in acc]
                else:
                    acc = [(a + [t], m) for a, m in acc]
            return acc
        for seq, m in expand(items):
            res = c["result"]
            if "U8" in res:
                res = res.replace("U8", m.get("U8", "?"))
            if "USIZE|1" in res:
                res = res.replace("USIZE|1", "unwrap_or(Some(%s), 1)" % m["USIZE"] if "USIZE" in m else "unwrap_or(None, 1)")
            out.add((" ".join(seq), res))
    return out


def run(ctx):
    p, chk = ctx.p, ctx.chk
    sp = spec.load("commands")

    # ---- A. line editor --------------------------------------------------------------------
    fns = ["%s::%s" % (IS, m) for m in editor.METHODS]
    sites = panics.enumerate_sites(p, fns)
    zs, exits, npaths = editor.analyse(p)
    chk.note("line editor: %d methods, every path under 4 entry cases of the option tags: %d paths" % (len(fns), npaths))
    unreachable_sites = []
    for s in sites:
        m = s["fn"].rsplit("::", 1)[-1]
        b = p.bodies[s["fn"]]
        where = "%s:%s (%s)" % (b.file, s["ln"], m)
        if s["kind"] == "unreachable":
            unreachable_sites.append(s)
            continue
        v = zs[m].get(s["bb"])
        if v is None:
            chk.ob("editor/site/%s" % s["key"], False, "every panic-capable site of the editor is decided", where,
                   "site not reached or not understood by the zone analysis (%s)" % s["detail"])
            continue
        bad = [d for ok, d in v if not ok]
        chk.ob("editor/site/%s" % s["key"], not bad,
               "the site cannot fail when the editor invariant holds at entry (cursor <= text length, history index < "
               "history length, completion index < number of completions)", where,
               bad[0] if bad else "%s (on %d paths)" % (v[0][1], len(v)), "zone analysis, all paths")
    chk.floor("editor panic sites", len(sites), 12)
    for m in editor.METHODS:
        # sibling-call obligations are recorded as sites too
        b = p.bodies["%s::%s" % (IS, m)]
        for bb, lst in zs[m].items():
            t = b.blocks[bb]["t"]
            if t["k"] == "call" and str(t["f"].get("res", "")).startswith(IS + "::"):
                bad = [d for ok, d in lst if not ok]
                chk.ob("editor/invariant-before-call/%s/%s" % (m, t["f"]["res"].rsplit("::", 1)[-1]), not bad,
                       "the invariant holds where a sibling method (which relies on it) is called", "%s:%s" % (b.file, t.get("ln")),
                       bad[0] if bad else lst[0][1])
        site_bbs = {s_["bb"] for s_ in sites if s_["fn"].endswith("::" + m)}
        seen_c = {}
        for bb, lst in zs[m].items():
            t = b.blocks[bb]["t"]
            if t["k"] == "call" and not str(t["f"].get("res", "")).startswith(IS + "::") and bb not in site_bbs:
                callee = str(t["f"].get("res") or t["f"].get("def")).rsplit("::", 1)[-1]
                seen_c[callee] = seen_c.get(callee, 0) + 1
                bad = [d for ok, d in lst if not ok]
                chk.ob("editor/callee-contract/%s/%s#%d" % (m, callee, seen_c[callee] - 1), not bad,
                       "a library routine that slices its argument is called within its contract on every path",
                       "%s:%s" % (b.file, t.get("ln")), bad[0] if bad else "%s (on %d paths)" % (lst[0][1], len(lst)),
                       "zone analysis with character counts and character-boundary byte offsets, all paths")
        chk.ob("editor/invariant-at-exit/%s" % m, not exits[m],
               "the method re-establishes the editor invariant on every path", b.loc(), "; ".join(exits[m][:2]))
    # the constructor establishes it
    nb = p.need_body(IS + "::new")
    I = absint.Interp(p)
    st = absint.State()
    r = I.run_body(nb, [], st, 0)
    names = p.field_names(IS)
    okn = isinstance(r, Agg)
    if okn:
        f = dict(zip(names, r.f))
        okn = (f.get("input_index") == 0 and isinstance(f.get("history_index"), En) and set(f["history_index"].vs) == {0}
               and isinstance(f.get("curr_completions"), En) and set(f["curr_completions"].vs) == {0})
    chk.ob("editor/invariant-at-new", okn, "a new editor starts with cursor 0, no history position and no completion list",
           nb.loc(), "new() = %r" % (r,))
    # only the analysed methods write the fields the invariant speaks about
    for fld in ("input", "input_index", "history", "history_index", "curr_completions"):
        ws = mirutil.field_writers(p, IS, fld)
        stray = sorted({w["body"] for w in ws if not any(w["body"] == x or w["body"].startswith(x + "::{closure") for x in fns + [IS + "::new"])})
        chk.ob("editor/writers/%s" % fld, not stray, "the field is written only by the analysed editor methods", IS,
               "other writers: %s" % stray)

    # ---- A'. the unreachable!() arm of handle ------------------------------------------------
    hb = p.need_body(IS + "::handle")
    kc = p.need_type("crossterm::event::KeyCode")
    kvars = [v["n"] for v in kc["variants"]]
    handled = None
    for blk in hb.blocks:
        t = blk["t"]
        if t["k"] == "switch" and len(t["vals"]) >= 8:
            handled = {v for v, x in t["vals"] if x != t["else"]}
            break
    if handled is None:
        raise AnchorMissing("dispatch on KeyCode in InputState::handle")
    handled_names = {kvars[v] for v in handled}

    # ---- C. dispatch -----------------------------------------------------------------------
    calls = []

    cur_marker = [None]

    def recorder(name):
        def m(I_, st_, depth, callee, args, body, ln):
            calls.append((name, list(args[1:])))
            if cur_marker[0] is not None:
                # must-call marker: a path around the call leaves the join of both marker values
                I_.store_to(st_, cur_marker[0], (), Opaque("CALLED"), False, body, ln)
            return TOP
        return m

    def install(I_):
        for path in p.bodies:
            if path.startswith("L::machine::Machine::") or path.startswith("B::tui::supervisor_wrapper::MachineState::"):
                nm = path.rsplit("::", 1)[-1]
                if "{closure" in path or nm in ("deref", "deref_mut"):
                    continue
                I_.fn_overrides[path] = recorder(nm)
        I_.fn_overrides[TUI + "::load_program"] = recorder("load_program")
        I_.fn_overrides[TUI + "::warn_about_failed_load"] = lambda I2, s2, d2, c2, a2, b2, l2: Agg(())
        I_.fn_overrides[IS + "::handle"] = lambda I2, s2, d2, c2, a2, b2, l2: (calls.append(("editor.handle", [a2[1]])), Agg(()))[1]
        I_.fn_overrides[IS + "::last"] = lambda I2, s2, d2, c2, a2, b2, l2: En({1: (Opaque("LASTLINE"),)})
        for k_ in ("int_pressed", "reset_pressed", "continue_pressed", "clk_pressed"):
            I_.fn_overrides["B::tui::program_help_sidebar::keybinding_help::KeybindingHelpState::" + k_] = \
                lambda I2, s2, d2, c2, a2, b2, l2: Agg(())

    def new_tui(I_, st_):
        t = shapes.build(p, TUI, shapes.top_leaf, (), {})
        I_.heap_counter = 0
        return I_.new_alloc(st_, "tui", t)

    cmd_t = p.need_type(CMD)
    ireg = p.need_type("B::tui::input::InputRegister")
    part = p.need_type("B::tui::Part") if "B::tui::Part" in p.types else None
    hi = p.need_body(TUI + "::handle_input")
    disp = sp["dispatch"]
    ncmd = 0
    for vi, v in enumerate(cmd_t["variants"]):
        name = v["n"]
        ftys = [f["ty"] for f in v["fields"]]
        cases = []
        if name == "SetInputReg":
            for ri, rv in enumerate(ireg["variants"]):
                cases.append(("%s(%s)" % (name, rv["n"]), (En({ri: ()}), Opaque("PAYLOAD")), [Opaque("PAYLOAD")]))
        elif name == "Show":
            pt = p.need_type(ftys[0])
            for pi, pv in enumerate(pt["variants"]):
                cases.append((name, (En({pi: ()}),), [En({pi: ()})]))
        elif name == "Next":
            cases.append((name, (3,), None))
            cases.append((name + "/0", (0,), None))
        elif name == "Quit":
            cases.append((name, (), None))
        else:
            cases.append((name, tuple(Opaque("PAYLOAD") for _ in ftys), [Opaque("PAYLOAD") for _ in ftys]))
        for label, payload, want_args in cases:
            ncmd += 1
            I = absint.Interp(p)
            I.unroll = 6
            install(I)
            cmdv = En({vi: payload})
            I.fn_overrides[IS + "::last_cmd"] = lambda I2, s2, d2, c2, a2, b2, l2, cv=cmdv: En({1: (cv,)})
            st = absint.State()
            ta = new_tui(I, st)
            del calls[:]
            I.events.clear()
            cur_marker[0] = I.new_alloc(st, "marker", Opaque("NOT-CALLED"))
            r = I.run_body(hi, [Ref(ta, (), True)], st, 0)
            mark_ = I.load(st, cur_marker[0], ())
            cur_marker[0] = None
            got = [(n_, a_) for n_, a_ in calls if n_ != "editor.handle"]
            unk = [repr(e)[:120] for e in I.events if e.kind in ("unknown_call_value",)][:2]
            if got and name != "Quit" and not (name == "Next" and payload[0] == 0) and mark_ != Opaque("CALLED"):
                unk = unk + ["the machine call is skipped on some path (it is made under a condition)"]
            where = "%s (Command::%s)" % (hi.loc(), label)
            if name == "Quit":
                ok = not got and r in (1, True)
                det = "calls %s, returns %r" % ([g[0] for g in got], r)
            elif name == "Next":
                n_expected = payload[0]
                ok = [g[0] for g in got] == [disp["Next"]] * n_expected and r in (0, False)
                det = "calls %s, returns %r" % ([g[0] for g in got], r)
            else:
                key = label if label in disp else name
                wantfn = disp.get(key)
                ok = (len(got) == 1 and got[0][0] == wantfn and r in (0, False)
                      and (name == "LoadProgram" or [D.short(a) if not isinstance(a, Opaque) else a for a in got[0][1]] ==
                           [D.short(a) if not isinstance(a, Opaque) else a for a in want_args]))
                det = "calls %s, returns %r; documented: %s(payload)" % ([(g[0], g[1]) for g in got], r, wantfn)
            chk.ob("dispatch/command/%s" % label, ok and not unk,
                   "the command is executed as exactly the documented machine call with its payload, and only `quit` ends the session",
                   where, det + (" %s" % unk if unk else ""), "abstract interpretation of Tui::handle_input with recording stand-ins")
    chk.floor("command dispatch cases", ncmd, 19)
    # unparsable line: no machine call, a notification
    I = absint.Interp(p)
    install(I)
    I.fn_overrides[IS + "::last_cmd"] = lambda I2, s2, d2, c2, a2, b2, l2: En({0: ()})
    st = absint.State()
    ta = new_tui(I, st)
    del calls[:]
    I.events.clear()
    r = I.run_body(hi, [Ref(ta, (), True)], st, 0)
    got = [c_[0] for c_ in calls if c_[0] != "editor.handle"]
    wr = {shapes.name_path(p, TUI, e.info[1]) for e in I.events if e.kind == "write" and e.info[0] == ta}
    chk.ob("dispatch/invalid-line", not got and r in (0, False) and any(w.startswith("notification_state") for w in wr),
           "a line that is not a command changes nothing but the notification", hi.loc(),
           "machine calls %s; written: %s" % (got, sorted(wr)))

    # the command that is executed is the parse of the newest history entry (which the editor clause shows
    # to be the submitted line)
    parsed = []

    def parse_stub(I_, st_, depth, callee, args, body, ln):
        a0 = args[0]
        v0 = I_.load(st_, a0.alloc, a0.path) if isinstance(a0, Ref) else a0
        parsed.append(v0)
        return En({0: (Opaque("CMD"),)})
    for label, hist, want_arg, want_res in (("two-entries", Arr([Opaque("OLDER"), Opaque("NEWEST")]), [Opaque("NEWEST")], En({1: (Opaque("CMD"),)})),
                                            ("empty", Arr(()), [], En({0: ()}))):
        I = absint.Interp(p)
        I.fn_overrides[CMD + "::<'a>::parse"] = parse_stub
        st = absint.State()
        isv = shapes.build(p, IS, shapes.top_leaf, (), {"history": hist})
        ia = I.new_alloc(st, "editor", isv)
        del parsed[:]
        r = I.run_body(p.need_body(IS + "::last_cmd"), [Ref(ia, (), False)], st, 0)
        chk.ob("dispatch/last-cmd/%s" % label, parsed == want_arg and r == want_res,
               "the command handed to the dispatch is the parse of the newest history entry (none for an empty history)",
               p.need_body(IS + "::last_cmd").loc(), "parsed %s, result %r" % (parsed, r),
               "abstract interpretation of InputState::last_cmd with a recording stand-in for Command::parse")
    hib = p.need_body(TUI + "::handle_input")
    order = [mirutil.callee_name(t) for _, t in mirutil.calls_in(hib)]
    first_handle = order.index(IS + "::handle") if IS + "::handle" in order else None
    first_last = order.index(IS + "::last_cmd") if IS + "::last_cmd" in order else None
    dom = mirutil.dominators(hib)
    bbs = {mirutil.callee_name(t): bb for bb, t in mirutil.calls_in(hib)}
    chk.ob("dispatch/enter-before-last-cmd", first_handle is not None and first_last is not None
           and bbs[IS + "::handle"] in dom[bbs[IS + "::last_cmd"]],
           "Tui::handle_input hands Enter to the editor before it asks for the newest history entry",
           hib.loc(), "call order: %s" % [o.rsplit("::", 1)[-1] for o in order if o and o.startswith(IS)])

    # the wrapper methods the dispatch relies on by name do what their names say
    MS = "B::tui::supervisor_wrapper::MachineState"
    msn = p.field_names(MS)
    sm_t = p.need_type("L::machine::StepMode")
    smv = {v["n"]: i for i, v in enumerate(sm_t["variants"])}

    def run_ms(fn, overrides, extra_args=()):
        I = absint.Interp(p)
        st = absint.State()
        v = shapes.build(p, MS, shapes.top_leaf, (), overrides)
        a = I.new_alloc(st, "ms", v)
        I.events.clear()
        I.run_body(p.need_body(MS + "::" + fn), [Ref(a, (), True)] + list(extra_args), st, 0)
        wr = {shapes.name_path(p, MS, e.info[1]) for e in I.events if e.kind == "write" and e.info[0] == a}
        return I, st, a, wr
    for frm, to in (("Real", "Assembly"), ("Assembly", "Real")):
        I, st, a, wr = run_ms("toggle_step_mode", {"machine.step_mode": En({smv[frm]: ()})})
        after = I.load(st, a, (msn.index("machine"), p.field_index("L::machine::Machine", "step_mode")))
        chk.ob("dispatch/wrapper/toggle_step_mode/%s" % frm, after == En({smv[to]: ()}) and wr <= {"machine.step_mode"},
               "CTRL+W switches between the two step modes and touches nothing else", p.need_body(MS + "::toggle_step_mode").loc(),
               "from %s: now %r, written %s" % (frm, after, sorted(wr)))
    for frm in (0, 1):
        I, st, a, wr = run_ms("toggle_auto_run_mode", {"auto_run_mode": frm})
        after = I.load(st, a, (msn.index("auto_run_mode"),))
        chk.ob("dispatch/wrapper/toggle_auto_run_mode/%d" % frm, after in (1 - frm, bool(1 - frm)) and wr <= {"auto_run_mode"},
               "CTRL+A flips the auto-run mode and touches nothing else", p.need_body(MS + "::toggle_auto_run_mode").loc(),
               "from %d: now %r, written %s" % (frm, after, sorted(wr)))
    pt = p.need_type("B::tui::supervisor_wrapper::Part") if "B::tui::supervisor_wrapper::Part" in p.types else None
    if pt is not None:
        for pi, pv in enumerate(pt["variants"]):
            I, st, a, wr = run_ms("show", {}, [En({pi: ()})])
            after = I.load(st, a, (msn.index("part"),))
            chk.ob("dispatch/wrapper/show/%s" % pv["n"], after == En({pi: ()}) and wr <= {"part"},
                   "`show` selects exactly the named part", p.need_body(MS + "::show").loc(), "now %r, written %s" % (after, sorted(wr)))
    lpb = p.need_body(MS + "::load_program")
    lcalls = [mirutil.callee_name(t) for _, t in mirutil.calls_in(lpb)]
    chk.ob("dispatch/wrapper/load_program", "L::machine::Machine::load" in lcalls,
           "loading through the session loads the byte code into the machine", lpb.loc(), "calls: %s" % [c for c in lcalls if c][:6])
    tlb = p.need_body(TUI + "::load_program")
    tcalls = [mirutil.callee_name(t) for _, t in mirutil.calls_in(tlb)]
    need = ["B::helpers::read_asm_file", "L::compiler::Translator::compile", MS + "::load_program"]
    chk.ob("dispatch/load-pipeline", all(n_ in tcalls for n_ in need) and [c for c in tcalls if c in need] == need,
           "`load PATH` reads and parses the file, compiles it and loads the result (in this order)", tlb.loc(),
           "calls: %s" % [c.rsplit("::", 2)[-2:] for c in tcalls if c in need])

    # `load PATH` hands the file's text to the assembler's parser: whatever the text is, the parser answers with a program or
    # an error value (which becomes the notification) and does not take the session down - the no-panic clauses of the parser
    # rule C03 (consumer sites, numeric conversions, the construction of the error message), reported here as load/*.
    # (What translating and loading an *accepted* file can do is C06's subject; its known findings are reachable through
    # `load` as well and are listed there, not repeated here.)
    from . import C03
    orig_ob, orig_assume, orig_sample, orig_note, orig_floor = chk.ob, chk.assume, chk.sample, chk.note, chk.floor
    keep_ = ("site/", "lexical/", "error-path/", "consumers-analysable")
    chk.ob = lambda key, *a, **k: orig_ob(key, *a, **k) if str(key).startswith(keep_) else None
    chk.assume = chk.sample = chk.note = lambda *a, **k: None
    outer_prefix = getattr(chk, "prefix", "")
    chk.prefix = outer_prefix + "load/"
    try:
        C03.run(ctx)
    finally:
        chk.prefix = outer_prefix
        chk.ob, chk.assume, chk.sample, chk.note = orig_ob, orig_assume, orig_sample, orig_note

    # ---- keys ---------------------------------------------------------------------------
    he = p.need_body(TUI + "::handle_event")
    kt = p.need_type("crossterm::event::KeyEvent")
    code_i = [f["n"] for f in kt["variants"][0]["fields"]].index("code")
    ctrl = None
    for cpath, c in p.consts.items():
        if cpath.endswith("KeyModifiers::CONTROL"):
            ctrl = c
    CONTROL_BITS = 0b0000_0010
    keymap = sp["keys"]

    last_marker = [None]

    def run_event(code, modbits, note_empty, input_empty):
        I = absint.Interp(p)
        install(I)
        ev = [None, None]
        ev[code_i] = code
        ev[1 - code_i] = Agg((modbits,))
        I.fn_overrides["B::tui::events::Events::next_key"] = lambda I2, s2, d2, c2, a2, b2, l2: En({1: (Agg(tuple(ev)),)})
        I.fn_overrides["B::tui::notification::NotificationState::is_empty"] = lambda I2, s2, d2, c2, a2, b2, l2: int(note_empty)
        I.fn_overrides["B::tui::notification::NotificationState::clear"] = lambda I2, s2, d2, c2, a2, b2, l2: (calls.append(("notification.clear", [])), Agg(()))[1]
        I.fn_overrides[IS + "::is_empty"] = lambda I2, s2, d2, c2, a2, b2, l2: int(input_empty)
        I.fn_overrides[TUI + "::handle_input"] = lambda I2, s2, d2, c2, a2, b2, l2: (calls.append(("handle_input", [])), 0)[1]
        I.fn_overrides["<crossterm::event::KeyModifiers as core::cmp::PartialEq>::eq"] = \
            lambda I2, s2, d2, c2, a2, b2, l2: _mods_eq(I2, s2, a2)
        st_ = absint.State()
        ta_ = new_tui(I, st_)
        del calls[:]
        I.events.clear()
        cur_marker[0] = I.new_alloc(st_, "marker", Opaque("NOT-CALLED"))
        r_ = I.run_body(he, [Ref(ta_, (), True)], st_, 0)
        last_marker[0] = I.load(st_, cur_marker[0], ())
        cur_marker[0] = None
        unk_ = [repr(e)[:100] for e in I.events if e.kind in ("unknown_call_value", "unknown_extern") and not e.in_log][:2]
        return r_, list(calls), unk_

    def _mods_eq(I2, s2, a2):
        def bits(v):
            v = I2.load(s2, v.alloc, v.path) if isinstance(v, Ref) else v
            while isinstance(v, Agg) and len(v.f) == 1:
                v = v.f[0]
            return v
        x, y = bits(a2[0]), bits(a2[1])
        if isinstance(x, int) and isinstance(y, int):
            return int(x == y)
        return D.BOOL if hasattr(D, "BOOL") else frozenset((0, 1))

    ci = {n: i for i, n in enumerate(kvars)}
    nkeys = 0
    # control keys
    for ch in "awerlcxq":
        r, cs, unk = run_event(En({ci["Char"]: (ord(ch),)}), CONTROL_BITS, True, True)
        nkeys += 1
        names_ = [c_[0] for c_ in cs]
        if ch == "c":
            ok = not names_ and r in (1, True)
        elif ch in keymap:
            # the call is made whatever the machine's state is (a guard in the TUI would drop side effects the library call
            # has also when it looks ineffective, e.g. the request bit a masked key press leaves in the status register)
            ok = names_ == [keymap[ch]] and r in (0, False) and last_marker[0] == Opaque("CALLED")
        else:
            ok = not names_ and r in (0, False)
        chk.ob("dispatch/key/ctrl-%s" % ch, ok and not unk,
               "CTRL+%s %s" % (ch.upper(), "ends the session" if ch == "c" else ("calls %s" % keymap[ch] if ch in keymap else "does nothing")),
               he.loc(), "calls %s, returns %r %s" % (names_, r, unk))
    # the Enter key clocks the machine on an empty input line and submits anything else (the dispatch above takes the
    # answer of InputState::is_empty as given): the real is_empty says "empty" for the line without characters only - a
    # line of blanks is submitted (and rejected with a notification), it is not a clock key
    ieb = p.need_body(IS + "::is_empty")
    in_names = p.field_names(IS)
    bad_ie = []
    for chars in ((), (" ",), ("\t",), (" ", " ", " "), ("x",), (" ", "x"), ("\u3000",), ("q", "u", "i", "t")):
        Ii = absint.Interp(p)
        Ii.unroll = 8
        sti = absint.State()
        ed = shapes.build(p, IS, shapes.top_leaf, (), {"input": Arr([ord(c_) for c_ in chars])})
        ea_ = Ii.new_alloc(sti, "editor", ed)
        ri = Ii.run_body(ieb, [Ref(ea_, (), False)], sti, 0)
        want_i = 1 if not chars else 0
        if ri not in (want_i, bool(want_i)) or isinstance(ri, frozenset):
            bad_ie.append("input %r: is_empty() = %r" % ("".join(chars), ri))
    chk.ob("dispatch/enter/is-empty", not bad_ie,
           "the Enter key is the clock key exactly when the input line has no characters; a line of blanks is submitted like "
           "any other text", ieb.loc(), "; ".join(bad_ie[:3]) or "8 input lines",
           "A4 of InputState::is_empty on concrete input lines")
    # likewise the notification's own accessors (taken as given by the dispatch analysis): "empty" means no text is held,
    # clearing drops the text
    NS = "B::tui::notification::NotificationState"
    bad_ns = []
    for label_, cur_, want_ in (("without text", En({0: ()}), 1), ("with text", En({1: (Str("Invalid input"),)}), 0)):
        In_ = absint.Interp(p)
        stn_ = absint.State()
        na_ = In_.new_alloc(stn_, "note", shapes.build(p, NS, shapes.top_leaf, (), {"current": cur_}))
        rn_ = In_.run_body(p.need_body(NS + "::is_empty"), [Ref(na_, (), False)], stn_, 0)
        if rn_ not in (want_, bool(want_)) or isinstance(rn_, frozenset):
            bad_ns.append("is_empty() %s = %r" % (label_, rn_))
        In_.run_body(p.need_body(NS + "::clear"), [Ref(na_, (), True)], stn_, 0)
        after_ = In_.load(stn_, na_, (p.field_index(NS, "current"),))
        if after_ != En({0: ()}):
            bad_ns.append("after clear() %s: %r" % (label_, after_))
    chk.ob("dispatch/notification-accessors", not bad_ns,
           "a notification counts as shown exactly while it holds a text, and dismissing it drops the text",
           p.need_body(NS + "::is_empty").loc(), "; ".join(bad_ns[:3]) or "2 states", "A4 of NotificationState::is_empty / clear")
    # a pending notification swallows any key
    for label, code, mods in (("ctrl-r", En({ci["Char"]: (ord("r"),)}), CONTROL_BITS), ("enter", En({ci["Enter"]: ()}), 0),
                              ("char", En({ci["Char"]: (ord("x"),)}), 0)):
        r, cs, unk = run_event(code, mods, False, True)
        nkeys += 1
        chk.ob("dispatch/notification-swallows/%s" % label, [c_[0] for c_ in cs] == ["notification.clear"] and r in (0, False),
               "while a notification is shown a key press only dismisses it", he.loc(), "calls %s" % [c_[0] for c_ in cs])
    # what the editor does with a key event (code, modifiers) the dispatch hands it: can its unreachable!() arm be reached?
    unreachable_bbs = {s_["bb"] for s_ in unreachable_sites}
    editor_cache = {}

    def _mods_contains(I2, s2, d2, c2, a2, b2, l2):
        def bits(v):
            v = I2.load(s2, v.alloc, v.path) if isinstance(v, Ref) else v
            while isinstance(v, Agg) and len(v.f) == 1:
                v = v.f[0]
            return v
        x, y = bits(a2[0]), bits(a2[1])
        if isinstance(x, int) and isinstance(y, int):
            return int((x & y) == y)
        return frozenset((0, 1))

    def editor_arm(kname, code, modbits):
        key_ = (kname, modbits)
        if key_ in editor_cache:
            return editor_cache[key_]
        Ie = absint.Interp(p)
        for nm_ in ("contains", "intersects"):
            Ie.fn_overrides["crossterm::event::KeyModifiers::" + nm_] = _mods_contains
        Ie.fn_overrides["<crossterm::event::KeyModifiers as core::cmp::PartialEq>::eq"] = \
            lambda I2, s2, d2, c2, a2, b2, l2: _mods_eq(I2, s2, a2)
        for m_ in editor.METHODS:
            if m_ != "handle":
                Ie.fn_overrides["%s::%s" % (IS, m_)] = lambda I2, s2, d2, c2, a2, b2, l2: Agg(())
        ste = absint.State()
        ea = Ie.new_alloc(ste, "editor", shapes.build(p, IS, shapes.top_leaf, (), {}))
        ev = [None, None]
        ev[code_i] = code
        ev[1 - code_i] = Agg((modbits,))
        res = None
        try:
            Ie.run_body(hb, [Ref(ea, (), True), Agg(tuple(ev))], ste, 0)
            hit = [e for e in Ie.events if e.kind == "panic" and e.body == hb.path and e.bb in unreachable_bbs]
            res = "reaches unreachable!()" if hit else None
        except absint.AnalysisLimit as e_:
            res = "not analysable: %s" % e_
        editor_cache[key_] = res
        return res

    # plain keys
    passed_to_editor = set()
    editor_problems = []
    for kname, idx in ci.items():
        payload = {"Char": (frozenset(range(32, 127)),), "F": (frozenset(range(1, 13)),)}.get(kname, ())
        for mods in ((0, 1, 4) if kname != "Char" else (0, 1, 3, 4, 5, 6, 7)):
            for input_empty in (True, False):
                r, cs, unk = run_event(En({idx: payload}), mods, True, input_empty)
                nkeys += 1
                names_ = [c_[0] for c_ in cs]
                if kname == "Enter":
                    want = [keymap_clock(sp)] if input_empty else ["handle_input"]
                    ok = names_ == want
                elif names_ == ["editor.handle"]:
                    passed_to_editor.add(kname)
                    ok = kname in handled_names
                    pr_ = editor_arm(kname, En({idx: payload}), mods)
                    if pr_:
                        ok = False
                        editor_problems.append("%s with modifier bits %d: %s" % (kname, mods, pr_))
                else:
                    ok = not names_ and kname not in ("Char", "Backspace", "Delete", "Left", "Right", "Up", "Down", "Home", "End", "Tab", "BackTab")
                chk.ob("dispatch/key/%s/mods%d/%s" % (kname, mods, "empty" if input_empty else "text"), ok and not unk and r in (0, False),
                       "Enter clocks the machine on an empty line and submits the line otherwise; editing keys go to the editor "
                       "(which handles them); other keys do nothing", he.loc(), "calls %s, returns %r %s" % (names_, r, unk))
    chk.floor("key dispatch cases", nkeys, 100)
    for s in unreachable_sites:
        enter_pr = editor_arm("Enter", En({ci["Enter"]: ()}), 0)
        chk.ob("editor/site/%s" % s["key"], passed_to_editor <= handled_names and bool(passed_to_editor) and not editor_problems
               and not enter_pr,
               "the editor is only handed key events (code and modifiers) it has an arm for (its unreachable!() arm stays "
               "unreachable); Tui::handle_input hands it Enter", "%s:%s" % (p.bodies[s["fn"]].file, s["ln"]),
               "codes passed by the dispatch: %s; arms: %s; %s" % (sorted(passed_to_editor), sorted(handled_names),
                                                                   "; ".join(sorted(set(editor_problems))[:3] + ([enter_pr] if enter_pr else []))
                                                                   or "%d (code, modifiers) events interpreted in the editor" % len(editor_cache)),
               "A4 of InputState::handle per key event on an unknown editor state")
    # ---- the dispatch code itself holds no operation that can panic.  Its operands are what the user typed (text with
    # arbitrary multi-byte characters, numbers of any size): a byte-offset string operation, an index or a checked arithmetic
    # operation there is a way to crash the session from the keyboard.  Today the count is zero; any site that appears is
    # reported (a site that is safe needs a clause of its own that says why).
    dfns = sorted(k for k in p.bodies if k.startswith("B::tui::Tui::") and not k.startswith("B::tui::Tui::run")
                  and "::tests::" not in k)
    chk.floor("dispatch functions of the TUI", len(dfns), 6)
    dsites = [s_ for s_ in panics.enumerate_sites(p, dfns) if not s_["in_log"]]
    chk.ob("dispatch/no-panic-sites", not dsites,
           "the key and command dispatch (Tui::handle_event, Tui::handle_input and their helpers) contains no operation that can "
           "panic on user-typed text or numbers", "emulator-2a/src/tui/mod.rs",
           "; ".join("%s:%s %s %s" % (p.bodies[s_["fn"]].file, s_["ln"], s_["kind"], s_["detail"][:60]) for s_ in dsites[:4])
           or "%d functions, no panic-capable site" % len(dfns), "panic-site enumeration over the MIR of the dispatch functions")
    # ---- the event loop's wall-clock arithmetic ------------------------------------------------------------------------
    # `Duration - Duration` (and the other operator forms on Duration / Instant) panic on under- or overflow.  Their operands in
    # the TUI are wall-clock readings, for which no static bound exists - in particular `elapsed()` grows between a comparison
    # and a later subtraction - so the panicking forms may not be used there at all (checked or saturating forms only).
    import re as _re
    timeops = []
    for path_, b_ in sorted(p.bodies.items()):
        if not path_.startswith("B::tui::"):
            continue
        for bb_, t_ in mirutil.calls_in(b_):
            d_ = str(t_["f"].get("res") or t_["f"].get("def") or "")
            da_ = str(t_["f"].get("defargs") or "")
            if _re.search(r"<(core::time::Duration|std::time::Instant|std::time::SystemTime) as core::ops::arith::(Sub|Add|Mul|Div|SubAssign|AddAssign|MulAssign|DivAssign)", d_ + " " + da_):
                timeops.append("%s:%s %s" % (b_.file, t_.get("ln"), (da_ or d_).split(" as core::ops::arith::")[-1][:40]))
    chk.ob("event-loop/no-panicking-time-arithmetic", not timeops,
           "the interactive session computes with wall-clock durations only through checked or saturating operations",
           "emulator-2a/src/tui", "; ".join(timeops[:4]) or "no operator arithmetic on Duration/Instant in the TUI module",
           "who-may-call rule over the resolved callees of every function of the TUI module")
    callers = {b_ for b_, c_ in mirutil.call_graph(p).items() if IS + "::handle" in c_}
    okc = callers <= {TUI + "::handle_event", TUI + "::handle_input"} | {x for x in callers if "::tests::" in x}
    chk.ob("editor/handle-callers", okc, "InputState::handle is called only from the event dispatch and the line submission",
           IS + "::handle", "callers: %s" % sorted(callers))

    # ---- B. command grammar ----------------------------------------------------------------
    Bd = nomtree.Builder(p)
    root = Bd.build(PARSE)
    chk.ob("grammar/whole-line", root.kind == "all_consuming" or _ends_with_eof(root),
           "a command line must be consumed completely (trailing input is an error, not ignored)",
           p.need_body(PARSE).loc(), "top-level combinator: %s" % root.kind,
           "combinator tree reconstructed from the MIR of parse_cmd")
    # keywords must be matched exactly up to ASCII case.  nom 5.1.2's tag_no_case on &str (traits.rs, compare_no_case) pairs the
    # characters of input and keyword, compares only the first character of each lower-casing, and then accepts when the
    # input has at least as many BYTES as the keyword: at the end of a line a multi-byte character whose lower-casing starts
    # with the right letter ('İ' for i, the Kelvin sign for k) stands in for two or three keyword characters.  Decided per
    # keyword by enumerating the candidate inputs against that algorithm.
    by_word = {}
    for word, where_ in Bd.nocase_tags:
        by_word.setdefault(word, where_)
    for word, where_ in sorted(by_word.items()):
        fool = _tag_no_case_fooling(word)
        chk.ob("grammar/keyword-exact/%s" % word.lower(), not fool,
               "a keyword is recognised only in its documented spelling, letter case aside (no other line is executed as the command)",
               "%s (%s)" % (p.need_body(PARSE).file, where_),
               "tag_no_case(%r) also accepts %s" % (word, ", ".join(repr(x) for x in fool[:3])) if fool else "tag_no_case(%r): no other spelling passes" % word,
               "enumeration of the inputs nom's compare_no_case accepts for this keyword")
    chk.note("keywords matched by verify(take(n), eq_ignore_ascii_case): %d; by tag_no_case: %d"
             % (len(set(Bd.exact_keywords)), len(set(Bd.nocase_tags))))
    chk.floor("keyword matchers", len(set(Bd.exact_keywords)) + len(set(Bd.nocase_tags)), 20)
    alts = nomtree.expand(p, root)
    code_alts = []
    seen = set()
    for ts, v in alts:
        key = (nomtree.show_tokens(ts), nomtree.show_value(v))
        if key not in seen:
            seen.add(key)
            code_alts.append((ts, v, key))
    code_set = {k for _, _, k in code_alts}
    doc_set = spec_alternatives(sp["command"])
    extra = sorted(code_set - doc_set)
    missing = sorted(doc_set - code_set)
    chk.ob("grammar/language", not extra and not missing,
           "the command parser accepts exactly the documented command forms and builds the documented command value "
           "(keywords case-insensitive, bytes through checked u8 conversions in base 16, 2 and 10, counts as usize)",
           p.need_body(PARSE).loc(),
           "accepted but not documented: %s; documented but not accepted: %s" % (extra[:3], missing[:3]) if (extra or missing)
           else "%d token-sequence alternatives" % len(code_set),
           "nom combinator tree reconstructed from MIR and expanded into ordered token-sequence alternatives")
    chk.floor("command alternatives", len(code_set), 400)
    flagged = [k for _, v, k in code_alts if "FLAGGED" in k[1] or "cast(" in k[1] or "unknown" in k[1]]
    chk.ob("grammar/conversions", not flagged, "values are built from the captures without casts or unknown conversions",
           p.need_body(PARSE).loc(), "%s" % flagged[:3])
    al = nomtree.alphabet_of([ts for ts, _, _ in code_alts])
    shadow = []
    for i in range(len(code_alts)):
        A = code_alts[i]
        for j in range(i + 1, len(code_alts)):
            Bq = code_alts[j]
            if A[2][1] == Bq[2][1] or nomtree.quick_disjoint(A[0], Bq[0]):
                continue
            if nomtree.shadows(A[0], Bq[0], al):
                shadow.append((A[2][0], Bq[2][0]))
    chk.ob("grammar/no-shadowing", not shadow,
           "no documented form is made unreachable by an earlier alternative that matches a prefix of it (ordered choice)",
           p.need_body(PARSE).loc(), "%s" % shadow[:3], "product of token-sequence automata over a representative alphabet")
    pb = p.need_body(CMD + "::<'a>::parse")
    chk.ob("grammar/parse-uses-parse_cmd", PARSE in {mirutil.callee_name(t) for _, t in mirutil.calls_in(pb)},
           "Command::parse is the command grammar", pb.loc(), "")
    chk.assume("crossterm delivers key events as (code, modifiers); the tui/rustyline crates do not panic")
    chk.assume("drawing (Interface::render and the widgets) is not decided: see module documentation")
    chk.sample({"command": "set WS irg WS? == WS? 0x HEX", "value": "SetIrg(u8::from_str_radix(16)[$HEX])", "machine call": "set_digital_input1"})


_FOLD_PARTNERS = None


def _tag_no_case_fooling(word):
    """inputs (at the end of a line) that nom 5.1.2's tag_no_case(word) accepts although they are not a case variant of word;
    a split inside a character is reported as well"""
    global _FOLD_PARTNERS
    import itertools
    if _FOLD_PARTNERS is None:
        _FOLD_PARTNERS = {}
        for cp in range(0x80, 0x110000):
            c = chr(cp)
            low = c.lower()
            if low and low[0].isascii():
                _FOLD_PARTNERS.setdefault(low[0], []).append(c)
    n = len(word)
    nbytes = len(word.encode("utf-8"))
    out = []
    alphabets = []
    for ch in word:
        alphabets.append(sorted({ch.lower(), ch.upper()} | set(_FOLD_PARTNERS.get(ch.lower(), []))))
    for m in range(1, n + 1):
        for combo in itertools.product(*alphabets[:m]):
            inp = "".join(combo)
            # compare_no_case
            mismatch = any(any(x != y for x, y in zip(a.lower(), b.lower())) for a, b in zip(inp, word))
            if mismatch or len(inp.encode("utf-8")) < nbytes:
                continue
            raw = inp.encode("utf-8")
            try:
                raw[:nbytes].decode("utf-8")
            except UnicodeDecodeError:
                out.append(inp + " (splits inside a character: panic)")
                continue
            if not (inp.isascii() and inp.lower() == word.lower()):
                out.append(inp)
    return out


def keymap_clock(sp):
    return "trigger_key_clock"


def _ends_with_eof(n):
    while n.kind in ("rule", "complete", "cut") and n.kids:
        n = n.kids[0]
    if n.kind in ("tuple", "terminated", "delimited") and n.kids:
        last = n.kids[-1]
        while last.kind == "rule":
            last = last.kids[0]
        return last.kind == "eof"
    return n.kind == "all_consuming"
