"""C02 - assembler output equals the reference encoding, layout and label resolution.

The translator is abstractly interpreted (A4) on every Instruction variant with
every operand shape (numeric payloads unknown) and the emitted slot sequence is
compared with the reference encoding of spec/isa.toml; the address counter,
the label table, the zero fill of .ORG/.BYTE, the byte order of .DW, the
relative-jump closure and the late label substitution are decided on cells."""
from .. import absint, shapes, mirutil, asmmodel, spec
from .. import domain as D
from ..domain import Agg, En, Ref, Arr, ArrS, Str, Opaque, TOP, BOT, BoxV
from ..facts import AnchorMissing

LEVEL = "other"
EXPLANATION = ("abstract interpretation of the translator on exhaustively enumerated abstract AST shapes, compared "
               "slot by slot with the reference encoding table")

TR = asmmodel.TR
U8 = asmmodel.U8
MODE = {"reg": 0b00, "mem_reg": 0b01, "di": 0b10, "ddi": 0b11, "const": 0b10, "mem_const": 0b11}


def op_kind(s):
    a = s.attr
    if "kind" in a:
        return a["kind"]
    if "reg" in a:
        return "reg"
    if "const" in a:
        return "const"
    return None


def op_reg(s):
    k = op_kind(s)
    if k in ("const", "mem_const"):
        return 0b11
    return s.attr.get("reg")


def expected_slots(template, shapes_):
    """-> list of expected slots: int | ('label', name) | ('rel', name) | 'any-byte'"""
    dst = shapes_[0] if shapes_ else None
    src = shapes_[1] if len(shapes_) > 1 else (shapes_[0] if shapes_ else None)
    out = []
    for t in template:
        if t == "[S]" or t == "[D]":
            s = src if t == "[S]" else dst
            k = op_kind(s)
            if k in ("const", "mem_const"):
                if s.attr.get("const") == "label":
                    out.append(("label", s.attr["label"]))
                else:
                    out.append("any-byte")
            continue
        if t == "L":
            out.append(("label", shapes_[0].attr["label"]))
            continue
        if t == "REL":
            out.append(("rel", shapes_[0].attr["label"]))
            continue
        v = 0
        bits = t
        # substitute fields
        fields = {"d": op_reg(dst) if dst is not None else None,
                  "s": op_reg(shapes_[1]) if len(shapes_) > 1 else None,
                  "M": MODE.get(op_kind(src)) if src is not None else None,
                  "R": op_reg(src) if src is not None else None,
                  "m": MODE.get(op_kind(dst)) if dst is not None else None,
                  "r": op_reg(dst) if dst is not None else None}
        i = 0
        val = 0
        while i < 8:
            c = bits[i]
            if c in "01":
                val = (val << 1) | int(c)
                i += 1
            else:
                f = fields[c]
                if f is None:
                    raise AnchorMissing("template field %s without operand" % c)
                val = (val << 2) | (f & 3)
                i += 2
        out.append(val)
    return out


def actual_slots(p, bols, bvi):
    out = []
    if not isinstance(bols, Arr):
        return None
    for b in bols.e:
        if not isinstance(b, En) or len(b.vs) != 1:
            return None
        vi, fs = next(iter(b.vs.items()))
        if vi == bvi["Byte"]:
            v = fs[0]
            out.append("any-byte" if v == U8 else v)
        elif vi == bvi["Label"]:
            out.append(("label", fs[0].tag if isinstance(fs[0], Opaque) else repr(fs[0])))
        elif vi == bvi["LabelFn"]:
            out.append(("rel", fs[0].tag if isinstance(fs[0], Opaque) else repr(fs[0])))
    return out


def run(ctx):
    p = ctx.p
    chk = ctx.chk
    am = asmmodel.AsmModel(p)
    isa = spec.load("isa")
    enc = isa["encoding"]
    I = absint.Interp(p)
    bol = p.need_type("L::compiler::ByteOrLabel")
    bvi = {v["n"]: i for i, v in enumerate(bol["variants"])}
    names = p.field_names(TR)
    ivariants = [v["n"] for v in am.variants("Instruction")]
    directives = {"AsmOrigin", "AsmByte", "AsmDefineBytes", "AsmDefineWords", "AsmEquals", "AsmStacksize", "AsmProgramsize"}
    for v in ivariants:
        if v not in enc and v not in directives:
            chk.fail("anchor/encoding/%s" % v, "fail-closed: instruction without a reference encoding", "", v,
                     status="anchor-missing")
    pb = p.need_body(TR + "::push_instruction")

    # ---- clause 1 + 2 + 5: every instruction shape -----------------------------------
    n = 0
    N0 = 10
    for vname, combo, value in am.instructions():
        if vname in directives:
            continue
        res = am.push_instruction(I, value, next_addr=N0)
        tr = res["tr"]
        n += 1
        desc = "%s %s" % (vname, ", ".join(c.desc for c in combo))
        entries = tr["bytes"] if tr else None
        ok_entry = isinstance(entries, Arr) and len(entries.e) == 1
        bols = entries.e[0].f[1] if ok_entry else None
        act = actual_slots(p, bols, bvi) if bols is not None else None
        want = expected_slots(enc[vname], combo)
        chk.ob("encoding/%s" % desc, act == want,
               "the emitted slots are the documented encoding (opcode, mode and register bits, operand bytes in place)",
               pb.loc(), "emitted %s, reference %s" % (D.short(act), D.short(want)),
               "A4 on Translator::push_instruction with this operand shape")
        if act is not None:
            na = tr["next_addr"]
            chk.ob("address-counter/%s" % desc, na == N0 + len(act),
                   "the address counter advances by exactly the number of bytes the line produced", pb.loc(),
                   "from %d: now %s, %d slots" % (N0, D.short(na), len(act)))
            line = entries.e[0].f[0]
            lvi = am.vi["Line"]
            good_line = isinstance(line, En) and set(line.vs) == {lvi["Instruction"]} and line.vs[lvi["Instruction"]][0] == value
            chk.ob("line-record/%s" % desc, good_line,
                   "each source line is reported with exactly the bytes it produced (one entry, the same instruction)",
                   pb.loc(), "")
    chk.floor("instruction shapes checked against the reference encoding", n, 2000)
    # the step before: a source line becomes the AST value of the same instruction with every operand in place (the clauses
    # ast/* and numeric/value of the parser rule C03; nothing else of that rule is reported here)
    from . import C03
    orig_ob, orig_assume, orig_sample, orig_note = chk.ob, chk.assume, chk.sample, chk.note
    chk.ob = lambda key, *a, **k: orig_ob(key, *a, **k) if str(key).startswith(("ast/", "numeric/value")) else None
    chk.assume = chk.sample = chk.note = lambda *a, **k: None
    chk.prefix = "parse/"
    try:
        C03.run(ctx)
    finally:
        chk.prefix = ""
        chk.ob, chk.assume, chk.sample, chk.note = orig_ob, orig_assume, orig_sample, orig_note

    # ---- the symbol table changes only where a name is defined ---------------------------------
    # (every instruction shape and every directive except .EQU, at a position equal to / different from
    #  the value of an existing entry: the table must come out exactly as it went in, and no write to
    #  it may occur at all)
    ki = names.index("known_labels")
    ntab = 0
    bad_tab = []
    bad_enc = []
    for vname, combo, value in am.instructions():
        if vname == "AsmEquals":
            continue
        for n0, entry in ((10, 10), (10, 200)):
            st_ = absint.State()
            I.heap_counter = 0
            trl = list(am.new_translator(next_addr=n0).f)
            table = Agg((Str("<hashmap>"), Opaque("KEYS"), entry))
            trl[ki] = table
            ta_ = I.new_alloc(st_, "tr", Agg(trl))
            ia_ = I.new_alloc(st_, "inst", value)
            ca_ = I.new_alloc(st_, "comment", En({0: ()}))
            I.events.clear()
            I.run_body(pb, [Ref(ta_, (), True), Ref(ia_), Ref(ca_)], st_, 0)
            after = st_.store[ta_]
            wrote = [e for e in I.events if e.kind in ("write", "havoc") and e.info[0] == ta_ and len(e.info) > 1
                     and e.info[1][:1] == (ki,)]
            ntab += 1
            # ... and the line is encoded exactly as with an empty table: what is already defined must not change the
            # bytes a line produces (no "relaxation" of a reference whose target happens to be known)
            if vname not in directives and isinstance(after, Agg):
                ent_ = after.f[names.index("bytes")]
                bols_ = ent_.e[0].f[1] if isinstance(ent_, Arr) and len(ent_.e) == 1 else None
                act_ = actual_slots(p, bols_, bvi) if bols_ is not None else None
                want_ = expected_slots(enc[vname], combo)
                if act_ != want_:
                    bad_enc.append("%s %s at %d with every name defined as %d: emitted %s, reference %s" %
                                   (vname, ", ".join(getattr(c, "desc", str(c)) for c in combo), n0, entry,
                                    D.short(act_), D.short(want_)))
            if not (isinstance(after, Agg) and after.f[ki] == table) or wrote:
                bad_tab.append("%s %s at %d with an entry of value %d: table now %s" %
                               (vname, ", ".join(getattr(c, "desc", str(c)) for c in combo) if isinstance(combo, (list, tuple)) else "",
                                n0, entry, D.short(after.f[ki]) if isinstance(after, Agg) else after))
    chk.ob("symbol-table/only-definitions-write", not bad_tab,
           "no instruction or directive other than a definition (.EQU, label) changes the value of a defined name",
           pb.loc(), "; ".join(bad_tab[:3]) or "%d (shape, position) cases" % ntab,
           "A4 on Translator::push_instruction with a non-empty symbol table; any write or unmodelled access to the table counts")
    chk.ob("encoding/independent-of-defined-names", not bad_enc,
           "a line produces the documented encoding whatever names are already defined (a reference is resolved late, never "
           "re-encoded because its target is known)", pb.loc(), "; ".join(bad_enc[:3]) or "%d (shape, position) cases" % ntab,
           "A4 on Translator::push_instruction with a symbol table in which every name is defined")
    chk.floor("symbol-table cases", ntab, 4000)

    # ---- directives ---------------------------------------------------------------------------
    ivi = am.vi["Instruction"]

    def push(inst, n0):
        res = am.push_instruction(I, inst, next_addr=n0)
        tr = res["tr"]
        entries = tr["bytes"] if tr else None
        bols = entries.e[0].f[1] if isinstance(entries, Arr) and len(entries.e) == 1 else None
        return tr, bols, res

    def zero_fill(bols, cnt):
        if isinstance(bols, Arr):
            return len(bols.e) == cnt and all(b == En({bvi["Byte"]: (0,)}) for b in bols.e)
        if isinstance(bols, ArrS):
            return bols.n == cnt and (cnt == 0 or bols.elem == En({bvi["Byte"]: (0,)}))
        return False
    I.unroll = 128
    for n0, addr in ((0, 0), (0, 1), (10, 10), (10, 11), (10, 50), (3, 60)):
        tr, bols, res = push(En({ivi["AsmOrigin"]: (addr,)}), n0)
        chk.ob("org/%d-to-%d" % (n0, addr), tr is not None and zero_fill(bols, addr - n0) and tr["next_addr"] == addr,
               ".ORG forward fills addr - position zero bytes and continues at addr", pb.loc(),
               "from %d to %d: %s bytes, counter %s" % (n0, addr, D.short(bols), D.short(tr["next_addr"]) if tr else None))
    for n0, nr in ((0, 0), (0, 1), (10, 7), (100, 60)):
        tr, bols, res = push(En({ivi["AsmByte"]: (nr,)}), n0)
        chk.ob("byte/%d-plus-%d" % (n0, nr), tr is not None and zero_fill(bols, nr) and tr["next_addr"] == n0 + nr,
               ".BYTE n reserves n zero bytes and advances the position by n", pb.loc(),
               "at %d, .BYTE %d: %s, counter now %s (expected %d)" % (n0, nr, D.short(bols), D.short(tr["next_addr"]) if tr else None, n0 + nr))
    for cnt in (1, 2, 5):
        vals = [Opaque("B%d" % k) for k in range(cnt)]
        tr, bols, res = push(En({ivi["AsmDefineBytes"]: (Arr(vals),)}), 10)
        want = [En({bvi["Byte"]: (v,)}) for v in vals]
        chk.ob("db/%d" % cnt, isinstance(bols, Arr) and list(bols.e) == want and tr["next_addr"] == 10 + cnt,
               ".DB emits the bytes in written order", pb.loc(), "%s" % (D.short(bols),))
    W1 = frozenset((0x1234, 0xABCD))
    W2 = frozenset((0x00FF, 0x5601))
    tr, bols, res = push(En({ivi["AsmDefineWords"]: (Arr([W1, W2]),)}), 10)
    want = [frozenset((0x12, 0xAB)), frozenset((0x34, 0xCD)), frozenset((0x00, 0x56)), frozenset((0xFF, 0x01))]
    got = [b.vs[bvi["Byte"]][0] if isinstance(b, En) and bvi["Byte"] in b.vs else None for b in bols.e] if isinstance(bols, Arr) else None
    chk.ob("dw/big-endian", got == want and tr["next_addr"] == 14,
           ".DW emits each word high byte first", pb.loc(), "emitted %s, expected %s" % (D.short(got), D.short(want)),
           "A4 with word cells whose high and low byte sets are disjoint")
    # .EQU and label definitions
    tr, bols, res = push(En({ivi["AsmEquals"]: (Opaque("NAME"), 77)}), 10)
    kl = tr["known_labels"] if tr else None
    chk.ob("equ", isinstance(bols, Arr) and len(bols.e) == 0 and tr["next_addr"] == 10 and isinstance(kl, Agg) and kl.f[2] == 77,
           ".EQU defines the name as the constant and produces no bytes", pb.loc(), "%s %s" % (D.short(bols), kl))
    st = absint.State()
    I.heap_counter = 0
    ta = I.new_alloc(st, "tr", am.new_translator(next_addr=42))
    lvi = am.vi["Line"]
    la = I.new_alloc(st, "line", En({lvi["Label"]: (Opaque("LBL"), En({0: ()}))}))
    I.events.clear()
    I.run_body(p.need_body(TR + "::push"), [Ref(ta, (), True), Ref(la)], st, 0)
    trv = st.store[ta]
    kl = trv.f[names.index("known_labels")]
    chk.ob("label-definition", isinstance(kl, Agg) and kl.f[2] == 42 and trv.f[names.index("next_addr")] == 42,
           "a label is defined as the address of the byte that follows it and produces no bytes",
           p.need_body(TR + "::push").loc(), "%s" % (kl,))
    settings = [("AsmStacksize", "stacksize", vn, En({vi_: ()})) for vn, vi_ in sorted(am.vi["Stacksize"].items())]
    for vn, vi_ in sorted(am.vi["Programsize"].items()):
        nf = len(am.variants("Programsize")[vi_]["fields"])
        for pay in ([()] if nf == 0 else [(0,), (33,), (255,)]):
            settings.append(("AsmProgramsize", "programsize", "%s%s" % (vn, list(pay) if pay else ""), En({vi_: pay})))
    for vname_, fld, label_, val in settings:
        # whatever the setting was before (the translator's field starts unknown), the directive's value is reported
        tr, bols, res = push(En({ivi[vname_]: (val,)}), 10)
        chk.ob("setting/%s/%s" % (vname_, label_), tr is not None and tr[fld] == val and isinstance(bols, Arr) and not bols.e,
               "*STACKSIZE / *PROGRAMSIZE are reported with exactly the value written (every value incl. NOSET/AUTO) and produce no bytes",
               pb.loc(), "reported %s, written %s" % (D.short(tr[fld]) if tr else None, D.short(val)))

    # ---- clause 3: relative jump closure and late substitution ----------------------------------
    rj = p.need_body("L::compiler::relative_jump")
    for cur, target in ((0, 0), (10, 20), (250, 2), (255, 0), (0, 255), (128, 127), (100, 102)):
        st = absint.State()
        I.heap_counter = 0
        I.events.clear()
        v = I.run_body(rj, [0, Opaque("L"), cur], st, 0)
        got = None
        nslots = len(v.e) if isinstance(v, Arr) else None
        if isinstance(v, Arr) and len(v.e) == 2 and isinstance(v.e[1], En) and bvi["LabelFn"] in v.e[1].vs:
            f = v.e[1].vs[bvi["LabelFn"]][1]
            got = I.call_value(st, 0, f if not isinstance(f, BoxV) else f.ref, [target], rj, 0)
        want = (target - (cur + nslots)) % 256 if nslots else None
        chk.ob("relative-jump/%d-%d" % (cur, target), got == want,
               "a relative jump carries target - (address of the next instruction) modulo 256", rj.loc(),
               "at %d to %d: %s, expected %s" % (cur, target, D.short(got), want))
    # finish: substitution
    st = absint.State()
    I.heap_counter = 0
    ta = I.new_alloc(st, "tr", am.new_translator(next_addr=5))
    ca = I.new_alloc(st, "comment", En({0: ()}))
    for k, inst in enumerate((En({ivi["Jmp"]: (Opaque("L2"),)}), En({ivi["Jr"]: (Opaque("L1"),)}))):
        ia = I.new_alloc(st, "inst%d" % k, inst)
        I.run_body(p.need_body(TR + "::push_instruction"), [Ref(ta, (), True), Ref(ia), Ref(ca)], st, 0)
    trl = list(st.store[ta].f)
    trl[names.index("known_labels")] = Agg((Str("<hashmap>"), Opaque("KEYS"), 77))
    trl[names.index("stacksize")] = En({am.vi["Stacksize"]["_32"]: ()})
    I.events.clear()
    bc = I.run_body(p.need_body(TR + "::finish"), [Agg(trl)], st, 0)
    from .. import symkeys
    symkeys.obligations(ctx)
    bcf = p.field_names("L::compiler::ByteCode")
    ok = False
    det = repr(bc)[:300]
    if isinstance(bc, Agg):
        lines = bc.f[bcf.index("lines")]
        if isinstance(lines, Arr) and len(lines.e) == 2:
            b0 = lines.e[0].f[1]
            b1 = lines.e[1].f[1]
            # JMP at 5..7, JR at 8: next instruction at 10
            ok = b0 == Arr([0xFB, 77, 0x13]) and b1 == Arr([0x20, (77 - 10) % 256]) and \
                bc.f[bcf.index("stacksize")] == En({am.vi["Stacksize"]["_32"]: ()})
            det = "JMP -> %s, JR -> %s" % (D.short(b0), D.short(b1))
    chk.ob("late-substitution", ok,
           "label references are replaced by the label's address (relative jumps by their offset) and the settings are copied",
           p.need_body(TR + "::finish").loc(), det)
    chk.assume("label-table semantics (HashMap insert/get by key) are modelled, key normalisation is decided in C06")
    chk.sample({"shape": "Cmp (R1+), label", "reference": D.short(expected_slots(enc["Cmp"], [am.destinations()[14], am.sources()[11]]))})
