"""C11 - assembly-step mode equals clock-stepping to the next instruction boundary.

  1. Control skeleton of Machine::trigger_key_clock: abstract interpretation of the
     function with RawMachine::trigger_clock_edge replaced by an abstract edge
     that moves the micro-sequencer along a scripted sequence of DONE / non-DONE
     control words (and optionally halts).  For every scenario the number of
     edges issued and the final position must equal the reference "leave the
     boundary, then run to the next boundary or halt" - this pins down both loop
     conditions, their order, one edge per iteration and the absence of any
     other effect, independent of how the loops are written.
  2. On the micro-CFG: a DONE word never has a DONE successor, so the first loop
     leaves the boundary after the dispatch edge.
  3. A step returns: every first byte (and second byte) whose routine always
     reaches a DONE word makes the second loop terminate; opcodes with an
     exit-less non-DONE cycle make the step spin forever.
"""
from .. import absint, step, shapes, mirutil, spec, mgraph
from .. import domain as D
from ..domain import Agg, En, Ref, TOP, BOT
from ..facts import AnchorMissing

LEVEL = "other"
EXPLANATION = ("abstract interpretation of the step function against scripted abstract clock edges + "
               "reachability analysis of the micro-CFG")

RM = step.RM
MACHINE = step.MACHINE
KEYCLK = MACHINE + "::trigger_key_clock"


def reference_edges(done, running, limit=50):
    """the property's definition: from position 0 issue edges while at a boundary and
    running, then until the next boundary or a halt"""
    k = 0
    while done[k] and running[k] and k < limit:
        k += 1
    while (not done[k]) and running[k] and k < limit:
        k += 1
    return k


def ranges(vals):
    vals = sorted(vals)
    out = []
    i = 0
    while i < len(vals):
        j = i
        while j + 1 < len(vals) and vals[j + 1] == vals[j] + 1:
            j += 1
        out.append("%#04x" % vals[i] if i == j else "%#04x-%#04x" % (vals[i], vals[j]))
        i = j + 1
    return ",".join(out)


def run(ctx):
    p = ctx.p
    chk = ctx.chk
    g = ctx.graph
    mt = ctx.micro
    isa = spec.load("isa")
    # "switching step mode at any point does not alter the computation": the switch writes the mode field and nothing else
    from .. import absint as _ai, step as _st
    for newmode in range(len(p.need_type("L::machine::StepMode")["variants"])):
        Is = _ai.Interp(p)
        ovs = _st.machine_overrides(p, None, ["Running", "Stopped", "ErrorStopped"], None, stacksize_notset=True)
        sts, mas, _r = _st.run_method(p, Is, _st.MACHINE + "::set_step_mode", ovs, extra_args=[En({newmode: ()})], ty=_st.MACHINE)
        wr = sorted(_st.written_fields(p, Is, ty=_st.MACHINE))
        calls_ = sorted({c for (_b, c) in Is.call_edges if c and c.startswith("L::machine::")})
        chk.ob("mode-switch/%s" % p.need_type("L::machine::StepMode")["variants"][newmode]["n"],
               wr == ["step_mode"] and not calls_,
               "switching the step mode only records the mode: no clock edge is issued, nothing else of the machine changes",
               p.need_body(_st.MACHINE + "::set_step_mode").loc(), "fields written: %s; machine routines called: %s" % (wr, calls_),
               "A4 write log of Machine::set_step_mode on an unknown machine")
    # "a step always returns": every defined opcode reaches the next fetch, the MUL/DIV loops included (the rule of C09,
    # shared; it brings the ALU rule of C08 with it)
    from . import C09
    chk.prefix = "sequencer/"
    try:
        C09.run(ctx)
    finally:
        chk.prefix = ""
    kb = p.need_body(KEYCLK)
    from .. import fetchlatch
    fetchlatch.boundary_predicate(ctx)

    done_words = sorted(g.done)
    nondone = sorted(a for a in g.prog if a not in g.done)
    D0 = done_words[0]
    N1, N2 = nondone[0], nondone[1]
    state_t = p.need_type(step.STATE)
    RUN = p.variant_index(step.STATE, "Running")
    STOP = p.variant_index(step.STATE, "Stopped")
    ERR = p.variant_index(step.STATE, "ErrorStopped")
    cnt_path = (p.field_index(MACHINE, "raw"), p.field_index(RM, "last_bus_read"))
    idx_path = (p.field_index(MACHINE, "raw"), p.field_index(RM, "microprogram_ram"),
                p.field_index("L::machine::microprogram_ram::MicroprogramRam", "current_index"))
    st_path = (p.field_index(MACHINE, "raw"), p.field_index(RM, "state"))

    scenarios = {
        # name: (sequence of control words, sequence of states)
        "boundary": ([D0, N1, N2, D0, N1], [RUN] * 5),
        "boundary-with-wait": ([D0, D0, N1, N2, D0, N1], [RUN] * 6),
        "mid-instruction": ([N1, N2, D0, N1, N2], [RUN] * 5),
        "mid-instruction-last-word": ([N2, D0, N1, N2], [RUN] * 4),
        "halt-during-instruction": ([D0, N1, N1, N1], [RUN, RUN, STOP, STOP]),
        "error-halt-at-dispatch": ([D0, N1, N1], [RUN, ERR, ERR]),
        # an instruction may take hundreds of edges (DIV: up to 517 plus waits): no edge budget may cut it short
        "long-instruction": ([D0] + [N1, N2] * 300 + [D0, N1], [RUN] * 603),
        "long-instruction-from-the-middle": ([N1, N2] * 300 + [D0, N1], [RUN] * 602),
        "halted-at-boundary": ([D0, D0], [STOP, STOP]),
        "halted-mid-instruction": ([N1, N1], [ERR, ERR]),
    }
    modes = {"Assembly": p.variant_index("L::machine::StepMode", "Assembly"),
             "Real": p.variant_index("L::machine::StepMode", "Real")}

    for sname, (seq, states) in scenarios.items():
        for mname, mv in modes.items():
            I = absint.Interp(p)
            I.unroll = max(12, len(seq) + 8)
            problems = []

            def edge_stub(I_, st, depth, callee, args, body, ln, seq=seq, states=states, problems=problems):
                r = args[0]
                if not isinstance(r, Ref):
                    problems.append("edge called on unknown receiver")
                    return Agg(())
                base = r.path
                c = I_.load(st, r.alloc, base + cnt_path[1:])
                if not isinstance(c, int):
                    problems.append("edge counter not concrete: %r" % (c,))
                    return Agg(())
                k = min(c + 1, len(seq) - 1)
                I_.store_to(st, r.alloc, base + cnt_path[1:], c + 1)
                I_.store_to(st, r.alloc, base + idx_path[1:], seq[k])
                I_.store_to(st, r.alloc, base + st_path[1:], En({states[k]: ()}))
                return Agg(())
            I.fn_overrides[step.EDGE] = edge_stub
            ov = step.machine_overrides(p, seq[0], None, None)
            ov["state"] = En({states[0]: ()})
            ov["last_bus_read"] = 0
            st, ma, r = step.run_method(p, I, KEYCLK, ov, ty=MACHINE, extra_ov={"step_mode": En({mv: ()})})
            c = I.load(st, ma, cnt_path)
            idx = I.load(st, ma, idx_path)
            sm = I.load(st, ma, (p.field_index(MACHINE, "step_mode"),))
            done = [a in g.done for a in seq] + [True] * 60
            running = [s == RUN for s in states] + [False] * 60
            if mname == "Assembly":
                want = reference_edges(done, running, limit=len(seq) + 50)
            else:
                want = 1
            other_writes = [e for e in I.events if e.kind == "write" and e.body is not None]
            bad = [e for e in I.events if e.kind in step.BAD_EVENTS and not e.in_log]
            ok = (r is not BOT and c == want and not problems and not other_writes and not bad
                  and sm == En({mv: ()}))
            chk.ob("step-skeleton/%s/%s" % (mname, sname), ok,
                   "a key clock in %s mode issues exactly the edges of the reference definition and has no other effect"
                   % mname, kb.loc(),
                   "scenario words %s states %s: edges issued %r, expected %d; final word %r; other writes %s; problems %s %s"
                   % ([hex(a) for a in seq][:8] + (["... %d words" % len(seq)] if len(seq) > 8 else []), states[:8], c, want, idx,
                      other_writes[:2], problems[:2], bad[:2]),
                   "A4 with loop unrolling; trigger_clock_edge replaced by the scripted abstract edge")
    # the same for every programmed control word standing in the middle of an instruction (the scenarios above use two sample
    # words): whatever the word looks like, an assembly step runs on to the next fetch word and stops there
    bad_words = []
    nw = 0
    asm_v = modes["Assembly"]
    for w in nondone:
        for label, seq in (("from-boundary", [D0, w, D0, N1]), ("from-the-word", [w, D0, N1])):
            states = [RUN] * len(seq)
            I = absint.Interp(p)
            I.unroll = 12
            problems = []

            def edge_stub2(I_, st, depth, callee, args, body, ln, seq=seq, problems=problems):
                r = args[0]
                if not isinstance(r, Ref):
                    problems.append("edge called on unknown receiver")
                    return Agg(())
                c = I_.load(st, r.alloc, r.path + cnt_path[1:])
                if not isinstance(c, int):
                    problems.append("edge counter not concrete")
                    return Agg(())
                k = min(c + 1, len(seq) - 1)
                I_.store_to(st, r.alloc, r.path + cnt_path[1:], c + 1)
                I_.store_to(st, r.alloc, r.path + idx_path[1:], seq[k])
                return Agg(())
            I.fn_overrides[step.EDGE] = edge_stub2
            ov = step.machine_overrides(p, seq[0], None, None)
            ov["state"] = En({RUN: ()})
            ov["last_bus_read"] = 0
            st, ma, r = step.run_method(p, I, KEYCLK, ov, ty=MACHINE, extra_ov={"step_mode": En({asm_v: ()})})
            c = I.load(st, ma, cnt_path)
            want = reference_edges([a in g.done for a in seq] + [True] * 8, [True] * (len(seq) + 8), limit=20)
            bad = [e for e in I.events if e.kind in step.BAD_EVENTS and not e.in_log]
            nw += 1
            if r is BOT or c != want or problems or bad:
                bad_words.append("word %#05x %s: %r edges, expected %d %s" % (w, label, c, want, (problems + [repr(b_)[:60] for b_ in bad])[:1]))
    chk.ob("step-skeleton/Assembly/every-word", not bad_words,
           "with any programmed non-fetch word as the word in the middle of the instruction, an assembly step runs exactly to "
           "the next fetch word", kb.loc(), "; ".join(bad_words[:3]) or "%d (word, start) cases" % nw,
           "A4 of trigger_key_clock with the scripted abstract edge, once per programmed control word")
    chk.floor("assembly-step word cases", nw, 400)
    # step_mode writers
    ws = {w["body"] for w in mirutil.field_writers(p, MACHINE, "step_mode")}
    allowed = {MACHINE + "::set_step_mode"}
    chk.ob("step-mode-writers", ws <= allowed, "the step mode is changed only by set_step_mode",
           p.need_type(MACHINE)["file"], "writers: %s" % sorted(ws))

    # ---- micro-CFG: no DONE -> DONE edge ------------------------------------
    err = isa["halting_first_bytes"]["error_stop"]
    bad_dd = []
    for d in done_words:
        for b in range(256):
            if b == err:
                continue
            for pins, a2, i2 in g.succ(d, 0, loaded=b):
                if a2 in g.done:
                    bad_dd.append((d, b, a2))
    chk.ob("no-done-to-done", not bad_dd,
           "the successor of an instruction boundary is never a boundary: one assembly step runs one whole instruction",
           "control store", "DONE->DONE edges: %s" % [(hex(d), hex(b), hex(a)) for d, b, a in bad_dd[:5]])

    # ---- a step returns ---------------------------------------------------------
    undefined = spec.expand_ranges(isa["undefined_first_bytes"]["ranges"])
    two_lo, two_hi = isa["two_byte"]["first_range"]

    def traps_from(starts, second=None):
        if second is None:
            seen, edges, bad = g.explore(starts, stop_at_done=True)
        else:
            seen, edges, bad = g.explore(starts, stop_at_done=True, load_filter=lambda a, i2: i2 == second)
        rev = {}
        for s, es in edges.items():
            for _, t in es:
                rev.setdefault(t, []).append(s)
        good = set(s for s in seen if s[0] in g.done and s not in starts)
        stack = list(good)
        while stack:
            t = stack.pop()
            for s in rev.get(t, ()):
                if s not in good:
                    good.add(s)
                    stack.append(s)
        # a trap that matters for the step: a non-DONE state from which DONE is unreachable
        return [s for s in seen if s not in good and s[0] not in g.done]

    def dispatch_states(b):
        out = set()
        for d in g.done:
            for pins, a2, i2 in g.succ(d, 0, loaded=b):
                out.add((a2, i2))
        return out

    for b in range(1, 256):
        if two_lo <= b <= two_hi:
            continue
        tr = traps_from(dispatch_states(b))
        chk.ob("step-returns/first-byte/%#04x" % b, not tr,
               "an assembly step started on this opcode returns (its routine reaches a boundary on every path)",
               "first byte %#04x" % b,
               "control states from which no boundary is reachable: %s" % [(hex(a), hex(i)) for a, i in tr[:4]])
    for b in range(two_lo, two_hi + 1):
        starts = dispatch_states(b)
        seen, edges, bad = g.explore(starts, stop_at_done=True, load_filter=lambda a, i2: False)
        loaders = {s for s in seen if s[0] in g.prog and g.is_load(s[0]) and s[0] not in g.done}
        trapping = []
        for b2 in range(256):
            st2 = set()
            for (a, i) in loaders:
                for pins, a2, i2 in g.succ(a, i, loaded=b2):
                    st2.add((a2, i2))
            if traps_from(st2):
                trapping.append(b2)
        key = "step-returns/two-byte/%#04x/trapping-second-bytes=%s" % (b, ranges(trapping) or "none")
        chk.ob(key, not trapping,
               "an assembly step started on a two-byte form returns for every second byte",
               "first byte %#04x" % b, "second bytes whose routine never reaches a boundary: %s" % ranges(trapping))
    chk.assume("termination of the MUL/DIV loops (C09 clause 5 + ALU semantics) is needed for the step to return on 0xB_/0xC_")
    chk.sample({"scenario": "boundary", "words": [hex(a) for a in scenarios["boundary"][0]],
                "expected edges in Assembly mode": 3})
