"""C14 - MR2DA2 board status reflects inputs, DACs and configuration.

Shape clauses decided by abstract interpretation (A4) of the Board's methods on
cells (float / integer intervals and single flag configurations): clamping of
the stored voltages incl. NaN, the DAC law constant, comparator refresh after
every operation that moves one of its inputs, UIO direction gating, the
edge-interrupt pattern of the six sources (rising/falling x old/new level x
selected/not selected), and the range of the fan period."""
from .. import absint, shapes, mirutil, harness, step
from .. import domain as D
from ..domain import Agg, En, Ref, TOP, BOT, Arr, Fl, Opaque, INF
from ..facts import AnchorMissing

LEVEL = "other"
EXPLANATION = ("abstract interpretation of the board's setters on interval cells and on single flag configurations; "
               "exact float results and interleaving-dependent histories are not decided")

BOARD = "L::machine::board::Board"


def run(ctx):
    from .. import wrappers
    wrappers.check(ctx, ["set_digital_input1", "set_temp", "set_jumper1", "set_jumper2", "set_analog_input1", "set_analog_input2", "set_universal_input_output1", "set_universal_input_output2", "set_universal_input_output3"])     # the outer Machine methods the callers use are the routines analysed below
    p = ctx.p
    chk = ctx.chk
    I = absint.Interp(p)
    fields = p.field_names(BOARD)

    def const(path):
        return p.need_const("L::machine::board::" + path)["v"]
    DASR = {k: const("DASR::" + k) for k in ("J2", "J1", "FAN", "COMP_DAC2", "COMP_DAC1", "UIO_3", "UIO_2", "UIO_1")}
    DAISR = {k: const("DAISR::" + k) for k in ("INTERRUPT_PENDING", "INTERRUPT_REQUESTED", "INTERRUPT_FF", "SOURCE")}
    DAICR = {k: const("DAICR::" + k) for k in ("IE", "EDGE", "FALLING", "INT_SOURCE2", "INT_SOURCE1", "INT_SOURCE0")}
    src_t = p.need_type("L::machine::board::InterruptSource")
    SRC = {v["n"]: v.get("discr", i) for i, v in enumerate(src_t["variants"])}

    def board(**ov):
        o = {}
        for k, v in ov.items():
            o[k.replace("__", ".")] = v
        return shapes.build(p, BOARD, shapes.top_leaf, (), o)

    def call(method, bval, *args):
        st = absint.State()
        I.heap_counter = 0
        ba = I.new_alloc(st, "board", bval)
        I.events.clear()
        b = p.need_body(BOARD + "::" + method)
        r = I.run_body(b, [Ref(ba, (), True)] + list(args), st, 0)
        bad = [e for e in I.events if e.kind in ("unknown_extern", "wild_write", "havoc", "panic", "unknown_call_value")
               and not e.in_log] + [e for e in I.events if e.kind == "assert" and e.info["may_fail"] and not e.in_log]
        out = st.store[ba]
        writes = {shapes.name_path(p, BOARD, e.info[1]) for e in I.events if e.kind == "write" and e.info[0] == ba}
        return (lambda f: I.read_path(out, _path(p, f))), r, bad, writes, b

    def bits_all(v, mask, want):
        vs = D.values(v) if D.is_scalar(v) else None
        return vs is not None and all(((x & mask) != 0) == want for x in vs)

    # ---- 1. clamping ----------------------------------------------------------
    clamp = [("set_temp", "temp"), ("set_analog_input1", "analog_inputs.0"), ("set_analog_input2", "analog_inputs.1")]
    cells = [("in-range", Fl(0.0, 5.0), Fl(0.0, 5.0)), ("low-edge", Fl(0.0, 0.0), Fl(0.0, 0.0)),
             ("high-edge", Fl(5.0, 5.0), Fl(5.0, 5.0)), ("middle", Fl(1.25, 2.5), Fl(1.25, 2.5)),
             ("above", Fl(5.000001, INF), Fl(5.0, 5.0)), ("below", Fl(-INF, -0.000001), Fl(0.0, 0.0)),
             ("nan", Fl(INF, -INF, True), Fl(0.0, 0.0))]
    for m, fld in clamp:
        for cname, cin, cout in cells:
            get, r, bad, w, b = call(m, board(), cin)
            got = get(fld)
            chk.ob("clamp/%s/%s" % (m, cname), got == cout and not bad,
                   "stored voltages are the argument inside 0-5 V, 5 V above, 0 V below and for non-numbers",
                   b.loc(), "argument %r -> stored %r (expected %r) %s" % (cin, got, cout, bad[:2]))
    # ---- 2. DAC law -------------------------------------------------------------
    for m, idx, dig in (("set_digital_output1", 0, "digital_output1"), ("set_digital_output2", 1, "digital_output2")):
        for cname, cin, lo, hi in (("full", D.norm_rng(0, 255), 0.0, 2.55), ("zero", 0, 0.0, 0.0), ("max", 255, 2.55, 2.55),
                                   ("hundred", 100, 1.0, 1.0)):
            get, r, bad, w, b = call(m, board(), cin)
            a = get("analog_outputs.%d" % idx)
            ok = isinstance(a, Fl) and not a.nan and abs(a.lo - lo) < 1e-6 and abs(a.hi - hi) < 1e-6
            chk.ob("dac/%s/%s" % (m, cname), ok and get(dig) == cin and not bad,
                   "DAC output voltage = written byte / 100 and the byte is stored unchanged", b.loc(),
                   "byte %r -> analog %r, stored byte %r" % (cin, a, get(dig)))
    # ---- 3. comparators refreshed -------------------------------------------------
    comp_cases = [
        # method, args, board overrides, mask, expected bit
        ("set_analog_input1", [Fl(3.0, 4.0)], {"digital_output1": D.norm_rng(0, 200)}, "COMP_DAC1", True),
        ("set_analog_input1", [Fl(0.0, 1.0)], {"digital_output1": D.norm_rng(150, 255)}, "COMP_DAC1", False),
        ("set_digital_output1", [D.norm_rng(0, 200)], {"analog_inputs": Arr([Fl(3.0, 4.0), Fl(0.0, 5.0)])}, "COMP_DAC1", True),
        ("set_digital_output1", [D.norm_rng(150, 255)], {"analog_inputs": Arr([Fl(0.0, 1.0), Fl(0.0, 5.0)])}, "COMP_DAC1", False),
        ("set_analog_input2", [Fl(3.0, 4.0)], {"digital_output2": D.norm_rng(0, 200), "temp": Fl(0.0, 5.0)}, "COMP_DAC2", True),
        ("set_analog_input2", [Fl(0.0, 1.0)], {"digital_output2": D.norm_rng(150, 255), "temp": Fl(0.0, 1.0)}, "COMP_DAC2", False),
        ("set_analog_input2", [Fl(0.0, 1.0)], {"digital_output2": D.norm_rng(0, 200), "temp": Fl(3.0, 4.0)}, "COMP_DAC2", True),
        ("set_temp", [Fl(3.0, 4.0)], {"digital_output2": D.norm_rng(0, 200), "analog_inputs": Arr([Fl(0.0, 5.0), Fl(0.0, 5.0)])}, "COMP_DAC2", True),
        ("set_temp", [Fl(0.0, 1.0)], {"digital_output2": D.norm_rng(150, 255), "analog_inputs": Arr([Fl(0.0, 5.0), Fl(0.0, 1.0)])}, "COMP_DAC2", False),
        ("set_temp", [Fl(0.0, 1.0)], {"digital_output2": D.norm_rng(0, 200), "analog_inputs": Arr([Fl(0.0, 5.0), Fl(3.0, 4.0)])}, "COMP_DAC2", True),
        ("set_digital_output2", [D.norm_rng(0, 200)], {"analog_inputs": Arr([Fl(0.0, 5.0), Fl(3.0, 4.0)]), "temp": Fl(0.0, 5.0)}, "COMP_DAC2", True),
        ("set_digital_output2", [D.norm_rng(0, 200)], {"analog_inputs": Arr([Fl(0.0, 5.0), Fl(0.0, 1.0)]), "temp": Fl(3.0, 4.0)}, "COMP_DAC2", True),
        ("set_digital_output2", [D.norm_rng(150, 255)], {"analog_inputs": Arr([Fl(0.0, 5.0), Fl(0.0, 1.0)]), "temp": Fl(0.0, 1.0)}, "COMP_DAC2", False),
    ]
    for i, (m, args, ov, bit, want) in enumerate(comp_cases):
        get, r, bad, w, b = call(m, board(**ov), *args)
        d = get("dasr.bits")
        chk.ob("comparator/%s/%s/%d" % (m, bit, i), bits_all(d, DASR[bit], want) and not bad,
               "after an operation that moves a comparator input the comparator bit is input > DAC voltage "
               "(comparator 2: the larger of input 2 and the temperature sensor)", b.loc(),
               "expected %s=%s; DASR after: %s" % (bit, want, _short(d)))
    # ---- 3b. comparator threshold = the reported DAC voltage, to the last bit ------------------------
    # for every DAC byte b: an input equal to the reported DAC voltage f32(b/100) does not exceed it, the next
    # representable voltage above does (binary32 arithmetic reproduced exactly; 4 update paths x 256 bytes x 2)
    ties_bad = []
    nties = 0
    for bbyte in range(256):
        v = D.fbinop("Div", Fl(float(bbyte), float(bbyte)), Fl(100.0, 100.0)).lo
        for label, volt, want in (("equal", v, False), ("next-above", D.f32_next_up(v), True)):
            if volt > 5.0:
                continue
            fv = Fl(volt, volt)
            for m, args, ov, bit in (
                    ("set_analog_input1", [fv], {"digital_output1": bbyte}, "COMP_DAC1"),
                    ("set_digital_output1", [bbyte], {"analog_inputs": Arr([fv, Fl(0.0, 0.0)])}, "COMP_DAC1"),
                    ("set_analog_input2", [fv], {"digital_output2": bbyte, "temp": Fl(0.0, 0.0)}, "COMP_DAC2"),
                    ("set_digital_output2", [bbyte], {"analog_inputs": Arr([Fl(0.0, 0.0), fv]), "temp": Fl(0.0, 0.0)}, "COMP_DAC2")):
                get, r, bad, w, b = call(m, board(**ov), *args)
                d = get("dasr.bits")
                nties += 1
                if not bits_all(d, DASR[bit], want) or bad:
                    ties_bad.append("%s: DAC byte %d, input %s the DAC voltage %r: %s should be %s" %
                                    (m, bbyte, label.replace("-", " "), v, bit, int(want)))
    chk.ob("comparator/threshold-is-dac-voltage", not ties_bad,
           "the comparator threshold is exactly the reported DAC voltage byte/100 (binary32): an input equal to it does not "
           "exceed it, the next representable voltage does", p.need_body(BOARD + "::update_comp1").loc() if (BOARD + "::update_comp1") in p.bodies else "board.rs",
           "; ".join(ties_bad[:3]) or "%d tie cells" % nties, "A4 with exact binary32 arithmetic on singleton voltages")
    chk.floor("comparator tie cells", nties, 1900)
    # ---- 4. UIO direction, jumpers, digital input -----------------------------------
    for n in (1, 2, 3):
        m = "set_universal_input_output%d" % n
        bit = DASR["UIO_%d" % n]
        dirs = [0, 0, 0]
        dirs[n - 1] = 1
        get, r, bad, w, b = call(m, board(uio_dir=Arr(dirs)), frozenset((0, 1)))
        chk.ob("uio/output-ignored/%d" % n, not w and not bad,
               "an external change of a UIO pin configured as output is ignored", b.loc(), "written: %s" % sorted(w))
        for val in (0, 1):
            for start in (0x00, 0xFF):
                get, r, bad, w, b = call(m, board(uio_dir=Arr([0, 0, 0]), dasr__bits=start,
                                                  daicr__bits=0), val)
                want = (start | bit) if val else (start & ~bit & 0xFF)
                chk.ob("uio/input-visible/%d/%d/%#04x" % (n, val, start), get("dasr.bits") == want and not bad,
                       "an external change of an input-configured UIO pin is visible in the status register at once "
                       "and touches no other bit", b.loc(), "DASR %#04x -> %r, expected %#04x" % (start, get("dasr.bits"), want))
    for m, bit in (("set_jumper1", "J1"), ("set_jumper2", "J2")):
        for val in (0, 1):
            for start in (0x00, 0xFF):
                get, r, bad, w, b = call(m, board(dasr__bits=start, daicr__bits=0), val)
                want = (start | DASR[bit]) if val else (start & ~DASR[bit] & 0xFF)
                chk.ob("jumper/%s/%d/%#04x" % (bit, val, start), get("dasr.bits") == want and not bad,
                       "jumper levels are reported as last applied", b.loc(), "%r expected %#04x" % (get("dasr.bits"), want))
    get, r, bad, w, b = call("set_digital_input1", board(), Opaque("DI"))
    chk.ob("digital-input", get("digital_input1") == Opaque("DI") and w == {"digital_input1"},
           "the digital input port is stored as applied", b.loc(), "%r %s" % (get("digital_input1"), sorted(w)))
    # UOR / UDR / ICR decoding
    # every byte the bus can hand over (the two selector bits are fixed by the dispatch below), from an all-clear, an all-set
    # and a mixed status register: only the three UIO bits follow the byte, every other status bit keeps its value
    uio_mask = DASR["UIO_1"] | DASR["UIO_2"] | DASR["UIO_3"]
    for low in range(8):
        bad_udr, bad_uor = [], []
        for hi in range(8):
            byte = low | (hi << 3)
            want = [1 if byte & 1 else 0, 1 if byte & 2 else 0, 1 if byte & 4 else 0]
            get, r, bad, w, b = call("set_udr", board(), byte | 0x80)
            if get("uio_dir") != Arr(want) or bad or not w <= {"uio_dir"}:
                bad_udr.append("%#04x -> %r (writes %s)" % (byte | 0x80, get("uio_dir"), sorted(w)))
            for start in (0x00, 0xFF, 0xA8, 0x57):
                get, r, bad, w, b2 = call("set_uor", board(dasr__bits=start), byte)
                wantb = (start & ~uio_mask & 0xFF) | (DASR["UIO_1"] if byte & 1 else 0) | (DASR["UIO_2"] if byte & 2 else 0) | \
                    (DASR["UIO_3"] if byte & 4 else 0)
                if get("dasr.bits") != wantb or bad or not w <= {"dasr.bits"}:
                    bad_uor.append("byte %#04x on status %#04x -> %r, expected %#04x" % (byte, start, get("dasr.bits"), wantb))
        chk.ob("udr/%d" % low, not bad_udr, "UDR bits 0-2 set the UIO directions, the other bits of the byte are ignored", b.loc(),
               "; ".join(bad_udr[:3]) or "8 bytes")
        chk.ob("uor/%d" % low, not bad_uor, "UOR bits 0-2 drive the UIO status bits; the other bits of the byte reach no "
               "status bit (comparator, fan and jumper bits keep their value)", b2.loc(), "; ".join(bad_uor[:3]) or "8 bytes x 4 status values")
    icr_mask = 0
    for v_ in DAICR.values():
        icr_mask |= v_
    bad_icr = []
    for byte in range(256):
        get, r, bad, w, b3 = call("set_icr", board(dasr__bits=0xA5), byte)
        if get("daicr.bits") != (byte & icr_mask) or get("dasr.bits") != 0xA5 or bad:
            bad_icr.append("%#04x -> control %r, status %r" % (byte, get("daicr.bits"), get("dasr.bits")))
    chk.ob("icr/stored", not bad_icr, "a write to the interrupt control register stores the defined bits of the byte and leaves the "
           "status register alone", b3.loc(), "; ".join(bad_icr[:3]) or "256 bytes")
    # 0xF2 selector in the bus
    wb = p.need_body("L::machine::bus::Bus::write")
    for sel, callee in ((0b00, "set_uor"), (0b10, "set_udr"), (0b11, "set_icr"), (0b01, None)):
        st = absint.State()
        I.heap_counter = 0
        ba = I.new_alloc(st, "bus", shapes.build(p, "L::machine::bus::Bus"))
        I.events.clear()
        I.call_edges.clear()
        byte = frozenset((sel << 6) | x for x in range(64))
        I.run_body(wb, [Ref(ba, (), True), 0xF2, byte], st, 0)
        called = {c.split("::")[-1] for (_, c) in I.call_edges if c and c.startswith(BOARD + "::set_")}
        chk.ob("f2-selector/%d%d" % (sel >> 1, sel & 1), called == ({callee} if callee else set()),
               "the top two bits of a write to 0xF2 select UOR (00), UDR (10), ICR (11)", wb.loc(), "called: %s" % sorted(called))

    # ... and the selected register write is made for every byte and in every board state: the setter is replaced by a stand-in
    # that records its argument and overwrites a marker cell; a path around the call (a write skipped because the value
    # "has not changed", a guard on some other register) leaves the join of both markers.  ICR writes in particular are not
    # idempotent - set_icr also clears the interrupt flip-flop - so an unchanged control byte must still reach the board.
    for sel, callee in ((0b00, "set_uor"), (0b10, "set_udr"), (0b11, "set_icr")):
        skipped, wrong_arg, unanalysable = [], [], []
        for low in range(64):
            byte = (sel << 6) | low
            st = absint.State()
            I2 = absint.Interp(p)
            ba = I2.new_alloc(st, "bus", shapes.build(p, "L::machine::bus::Bus"))
            marker = I2.new_alloc(st, "marker", Opaque("NOT-CALLED"))
            seen_args = []

            def stub(I_, st_, depth, callee_, args, body, ln, marker=marker, seen_args=seen_args):
                seen_args.append(args[1] if len(args) > 1 else None)
                I_.store_to(st_, marker, (), Opaque("CALLED"), False, body, ln)
                return Agg(())
            I2.fn_overrides[BOARD + "::" + callee] = stub
            I2.run_body(wb, [Ref(ba, (), True), 0xF2, byte], st, 0)
            if [e for e in I2.events if e.kind in step.BAD_EVENTS and not e.in_log]:
                unanalysable.append(byte)
            if I2.load(st, marker, ()) != Opaque("CALLED"):
                skipped.append(byte)
            if seen_args != [byte]:
                wrong_arg.append((byte, seen_args[:2]))
        chk.ob("f2-write-reaches-board/%s" % callee, not skipped and not wrong_arg and not unanalysable,
               "every write to 0xF2 with selector %d%d calls Board::%s exactly once with the written byte, whatever the board's "
               "registers hold (no write is skipped as redundant)" % (sel >> 1, sel & 1, callee), wb.loc(),
               "skipped on some path for %s; argument differs for %s; unanalysable %s" % (
                   ["%#04x" % x for x in skipped[:4]], wrong_arg[:2], unanalysable[:3]) if (skipped or wrong_arg or unanalysable)
               else "64 bytes, board state unknown",
               "A4 on Bus::write with the setter replaced by a marking stand-in (must-call by marker join)")

    # ---- 5. edge interrupts ----------------------------------------------------------
    FIRE = DAISR["SOURCE"] | DAISR["INTERRUPT_FF"]

    def daicr(source, falling):
        v = 0
        s = SRC[source]
        if s & 4:
            v |= DAICR["INT_SOURCE2"]
        if s & 2:
            v |= DAICR["INT_SOURCE1"]
        if s & 1:
            v |= DAICR["INT_SOURCE0"]
        if falling:
            v |= DAICR["FALLING"]
        return v
    digital = [("Jumper1", "set_jumper1", "J1", {}), ("Uio1", "set_universal_input_output1", "UIO_1", {}),
               ("Uio2", "set_universal_input_output2", "UIO_2", {}), ("Uio3", "set_universal_input_output3", "UIO_3", {})]
    others = ["Disabled", "Uio1", "Uio2", "Uio3", "Comp1", "Comp2", "Jumper1", "TachoSensor"]
    nedge = 0
    for src, m, bit, _ in digital:
        for falling in (0, 1):
            for old in (0, 1):
                for new in (0, 1):
                    for sel_src in others:
                        # (every one of the eight source selections: the selected source itself and each of the seven others)
                        selected = sel_src == src
                        get, r, bad, w, b = call(m, board(uio_dir=Arr([0, 0, 0]), dasr__bits=(DASR[bit] if old else 0),
                                                          daisr__bits=0, daicr__bits=daicr(sel_src, falling)), new)
                        fire = selected and ((old == 1 and new == 0 and falling) or (old == 0 and new == 1 and not falling))
                        want = FIRE if fire else 0
                        nedge += 1
                        chk.ob("edge/%s/falling%d/old%d/new%d/%s" % (src, falling, old, new, "sel" if selected else "other-" + sel_src),
                               get("daisr.bits") == want and not bad,
                               "the interrupt flip-flop and source flag are raised exactly on the configured transition of the "
                               "selected source", b.loc(), "DAISR after: %r expected %#x (selected source %s)"
                               % (get("daisr.bits"), want, sel_src))
    # comparator sources
    comp = [("Comp1", "COMP_DAC1",
             lambda high: ("set_analog_input1", [Fl(3.0, 4.0) if high else Fl(0.0, 1.0)], {"digital_output1": 200})),
            ("Comp1", "COMP_DAC1",
             lambda high: ("set_digital_output1", [100 if high else 250], {"analog_inputs": Arr([Fl(2.0, 2.0), Fl(0.0, 0.0)])})),
            ("Comp2", "COMP_DAC2",
             lambda high: ("set_analog_input2", [Fl(3.0, 4.0) if high else Fl(0.0, 1.0)], {"digital_output2": 200, "temp": Fl(0.0, 0.0)})),
            ("Comp2", "COMP_DAC2",
             lambda high: ("set_temp", [Fl(3.0, 4.0) if high else Fl(0.0, 1.0)],
                           {"digital_output2": 200, "analog_inputs": Arr([Fl(0.0, 0.0), Fl(0.0, 0.0)])})),
            ("Comp2", "COMP_DAC2",
             lambda high: ("set_digital_output2", [100 if high else 250],
                           {"analog_inputs": Arr([Fl(0.0, 0.0), Fl(2.0, 2.0)]), "temp": Fl(0.0, 0.0)}))]
    for ci, (src, bit, mk) in enumerate(comp):
        for falling in (0, 1):
            for old in (0, 1):
                for new in (0, 1):
                    for sel_src in others:
                        selected = sel_src == src
                        m, args, ov = mk(bool(new))
                        ov = dict(ov)
                        ov.update({"dasr__bits": (DASR[bit] if old else 0), "daisr__bits": 0,
                                   "daicr__bits": daicr(sel_src, falling)})
                        get, r, bad, w, b = call(m, board(**ov), *args)
                        fire = selected and ((old == 1 and new == 0 and falling) or (old == 0 and new == 1 and not falling))
                        want = FIRE if fire else 0
                        nedge += 1
                        chk.ob("edge/%s#%d/falling%d/old%d/new%d/%s" % (src, ci, falling, old, new, "sel" if selected else "other-" + sel_src),
                               get("daisr.bits") == want and not bad and bits_all(get("dasr.bits"), DASR[bit], bool(new)),
                               "a change of a comparator output (moved by its analog input or by a DAC write) raises the interrupt "
                               "exactly on the configured transition when it is the selected source", b.loc(),
                               "via %s: DAISR %r expected %#x, DASR %s" % (m, get("daisr.bits"), want, _short(get("dasr.bits"))))
    chk.floor("edge-interrupt cells", nedge, 500)
    # jumper 2 never interrupts
    get, r, bad, w, b = call("set_jumper2", board(daisr__bits=0), frozenset((0, 1)))
    chk.ob("edge/jumper2-none", get("daisr.bits") == 0, "jumper 2 is not an interrupt source", b.loc(), "%r" % (get("daisr.bits"),))

    # ---- 6. fan ---------------------------------------------------------------------------
    fb = p.need_body(BOARD + "::get_fan_period")
    for cname, rpm, lo, hi in (("stopped", 0, 255, 255), ("full-speed", 4200, 0, 1), ("half", D.norm_rng(2000, 2200), 118, 137),
                               ("lower-half", D.norm_rng(0, 2100), 127, 255), ("upper-half", D.norm_rng(2100, 4200), 0, 128)):
        st = absint.State()
        I.heap_counter = 0
        ba = I.new_alloc(st, "board", board(fan_rpm=rpm))
        I.events.clear()
        r = I.run_body(fb, [Ref(ba)], st, 0)
        bnd = D.bounds(r) if D.is_scalar(r) else None
        chk.ob("fan-period/%s" % cname, bnd is not None and lo <= bnd[0] and bnd[1] <= hi,
               "the fan period register follows 255 - 255 x V/2.55 V (255 at standstill, 0 at full speed)", fb.loc(),
               "fan_rpm %r -> period %s, documented range [%d,%d]" % (rpm, bnd, lo, hi),
               "A4 float intervals with Rust's saturating float->int casts")
    # the law pointwise: 255 x (byte/100 V) / 2.55 V = byte exactly, so the period register must read 255 - byte for every
    # byte written to the DAC (write, then read of the period, each byte on its own; float operations in their MIR types)
    bad_fan = []
    for byte in range(256):
        st_f = absint.State()
        I.heap_counter = 0
        ba_f = I.new_alloc(st_f, "board", board())
        I.events.clear()
        I.run_body(p.need_body(BOARD + "::set_digital_output1"), [Ref(ba_f, (), True), byte], st_f, 0)
        per = I.run_body(fb, [Ref(ba_f)], st_f, 0)
        # the two registers are integers: speed = floor(4200 x V / 2.55 V) with V = byte/100 V, i.e. floor(4200 x byte / 255),
        # and period = 255 - floor(255 x speed / 4200), both in exact arithmetic
        rpm_ref = (4200 * byte) // 255
        per_ref = 255 - (255 * rpm_ref) // 4200
        rpm_got = I.load(st_f, ba_f, _path(p, "fan_rpm"))
        if per != per_ref or rpm_got != rpm_ref:
            bad_fan.append("DAC byte %d -> speed %s, period %s (law: %d, %d)" % (byte, D.short(rpm_got), D.short(per), rpm_ref, per_ref))
    chk.ob("fan-period/pointwise", not bad_fan,
           "for every DAC byte the fan speed is floor(4200 x V/2.55 V) and the period register 255 - floor(255 x speed/4200) "
           "(the documented law with the registers' integer truncation, in exact arithmetic)",
           fb.loc(), "; ".join(bad_fan[:4]) or "256 bytes", "A4 with the byte concrete: binary32/binary64 operations as in the MIR")
    get, r, bad, w, b = call("set_digital_output1", board(), D.norm_rng(0, 255))
    rpm = get("fan_rpm")
    bnd = D.bounds(rpm) if D.is_scalar(rpm) else None
    chk.ob("fan-rpm-range", bnd is not None and bnd[0] == 0 and 4190 <= bnd[1] <= 4200,
           "the fan speed is proportional to DAC 1 (0..4200 rpm over 0..2.55 V)", b.loc(), "fan_rpm after write: %s" % (bnd,))
    chk.sample({"cell": "set_temp(NaN)", "stored": "0.0"})


def _path(p, dotted):
    path = []
    ty = BOARD
    for name in dotted.split("."):
        if name.isdigit():
            path.append(("i", int(name)))
            continue
        base, _ = shapes.split_generic_args(ty)
        idx = p.field_index(base, name)
        path.append(idx)
        ty = p.need_type(base)["variants"][0]["fields"][idx]["ty"]
    return tuple(path)


def _short(v):
    if isinstance(v, frozenset) and len(v) > 8:
        return "{%d values, min %#x max %#x}" % (len(v), min(v), max(v))
    return repr(v)
