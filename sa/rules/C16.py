"""C16 - formatting a parsed program and re-parsing it yields the same program.

Static core: printer subset-of grammar, and back to the same constructor.
  1. the Display impls of the AST are evaluated abstractly (A4 with a model of
     core::fmt that decodes the compiled format templates) for every Instruction
     variant and operand shape; the symbolic text (literals + numeric / label
     tokens) is instantiated with representatives of each token class, matched
     with the PEG matcher against the grammar and read back: it must be claimed
     by the alternative of the same variant with the same operands.
  2. the numeric printers are checked against the numeric readers exhaustively
     over the lexical classes (all 256 bytes in hex and decimal, all 65 536
     words in decimal).
  3. line and file framing: label / instruction / comment lines and the whole
     program (header + lines) re-parse to the same number and kinds of lines.
"""
import itertools

from .. import absint, asmmodel, grammar, fmtmodel, spec, shapes
from .. import domain as D
from ..domain import Agg, En, Ref, Arr, ArrS, Str, Opaque, TOP, BOT
from ..fmtmodel import Txt
from ..facts import AnchorMissing

LEVEL = "other"
EXPLANATION = ("abstract evaluation of the Display impls (compiled format templates decoded) + PEG matching of the "
               "printed forms against the grammar + exhaustive check of the numeric lexical classes")

AST = asmmodel.AST
REPS = {
    ("dec", "u8"): ["0", "7", "42", "255"],
    ("dec", "u16"): ["0", "256", "65535"],
    ("hex", "u8"): [0x00, 0x0A, 0x7F, 0xFF],
    "pad": ["", " ", "      "],
}
REG_TEXT = {"r0": 0, "r1": 1, "r2": 2, "r3": 3, "pc": 3}


def sym_text(tag):
    t = str(tag)
    if "comment" in t.lower():
        return "note: keep; this"
    # a representative that matches raw_label (must not start with r / pc / sp)
    return "l_" + "".join(ch if ch.isalnum() else "_" for ch in t).lower()


def instantiate(txt):
    """all instantiations of a symbolic text: [(string, {token index: chosen text})]"""
    choices = []
    for i, part in enumerate(txt.parts):
        if isinstance(part, str):
            choices.append([part])
        elif part[0] == "dec":
            choices.append(REPS[("dec", part[1])])
        elif part[0] == "hex":
            _, ty, width, upper, zero, alt = part
            top = D.ty_range(ty)[1] if ty in D.INT_TYPES else 255
            vals = sorted({0, 0x0A, top // 2, top})
            choices.append([fmtmodel.render_hex(v, width, upper, zero, alt) for v in vals])
        elif part[0] == "sym":
            choices.append([sym_text(part[1])])
        elif part[0] == "pad":
            choices.append(REPS["pad"])
        else:
            return None
    out = []
    for combo in itertools.product(*choices):
        out.append("".join(combo))
    return out


def operand_desc(g, node, text):
    """structural description of an operand parse-tree node"""
    r = node.rule
    s = text[node.start:node.end]
    if r == "register":
        return ("reg", REG_TEXT.get(s.lower()))
    if r in ("source", "destination"):
        return operand_desc(g, node.children[0], text)
    if r == "registerdi":
        return ("di", operand_desc(g, [c for c in node.children if c.rule == "register"][0], text)[1])
    if r == "registerddi":
        return ("ddi", operand_desc(g, [c for c in node.children if c.rule == "registerdi"][0], text)[1])
    if r == "memory":
        inner = [c for c in node.children if c.rule not in ("oparen", "cparen")][0]
        d = operand_desc(g, inner, text)
        if d[0] == "reg":
            return ("mem_reg", d[1])
        if d[0] == "const":
            return ("mem_const",) + d[1:]
        if d[0] == "label":
            return ("mem_const", "label", d[1])
        return ("mem?", d)
    if r == "constant":
        inner = node.children[0]
        if inner.rule == "raw_label":
            return ("const", "label", s)
        return ("const", "byte", inner.rule, s)
    if r == "raw_label":
        return ("label", s)
    if r in ("constant_bhd", "word_bhd"):
        return ("num", node.children[0].rule, s)
    if r in ("constant_bin", "constant_hex", "constant_dec", "word_bin", "word_hex", "word_dec"):
        return ("num", r, s)
    if r == "raw_stacksize":
        return ("stacksize", s.lower())
    if r == "raw_programsize":
        return ("programsize", s.lower() if not node.children else "size")
    return (r, s)


def shape_desc(variant, combo):
    """expected structural description from the abstract shape"""
    out = []
    for s in combo:
        a = s.attr
        k = a.get("kind")
        if k is None and "reg" in a:
            k = "reg"
        if k is None and "const" in a:
            k = "const"
        if k in ("reg", "di", "ddi", "mem_reg"):
            out.append((k, a["reg"]))
        elif k in ("const", "mem_const"):
            if a.get("const") == "label":
                out.append((k, "label", sym_text(a["label"])))
            else:
                out.append((k, "byte"))
        elif "label" in a:
            out.append(("label", sym_text(a["label"])))
        elif "ss" in a:
            out.append(("stacksize", {"_0": "0", "_16": "16", "_32": "32", "_48": "48", "_64": "64", "NotSet": "noset"}[a["ss"]]))
        elif s.desc in ("Size(n)", "Auto", "NotSet"):
            out.append(("programsize", {"Size(n)": "size", "Auto": "auto", "NotSet": "noset"}[s.desc]))
        elif "n" in a:
            out.append(("list", a["n"]))
        else:
            out.append(("u8",))
    return out


def matches(expected, got):
    """compare an expected operand description with a read-back one"""
    if expected[0] == "list":
        return False
    if expected[0] in ("reg", "di", "ddi", "mem_reg"):
        return got[:2] == expected
    if expected[0] in ("const", "mem_const"):
        if expected[1] == "label":
            return got[:3] == expected
        return got[0] == expected[0] and got[1] == "byte" and got[2] == "constant_hex"
    if expected[0] == "label":
        return got == expected
    if expected[0] == "u8":
        return got[0] == "num" and got[1] == "constant_dec"
    if expected[0] in ("stacksize", "programsize"):
        return got == expected
    return False


def run(ctx):
    p = ctx.p
    chk = ctx.chk
    g = grammar.Grammar(p.grammar)
    am = asmmodel.AsmModel(p)
    tab = spec.load("grammar_ast")
    rule_of_variant = {}
    for rule, (variant, mn) in tab["instruction"].items():
        rule_of_variant.setdefault(variant, []).append(rule)
    fm = fmtmodel.FmtModel(p)
    I = absint.Interp(p)
    I.unroll = 64
    fm.install(I)

    def display(tn, value):
        b = p.find_trait_method("core::fmt::Display", AST + tn, "fmt")
        if b is None:
            raise AnchorMissing("Display for %s" % tn)
        st = absint.State()
        I.heap_counter = 0
        va = I.new_alloc(st, "v", value)
        f = fm.new_formatter(I, st)
        I.events.clear()
        fm.problems = []
        I.run_body(b, [Ref(va), f], st, 0)
        out = I.load(st, f.alloc, f.path)
        bad = [e for e in I.events if e.kind in ("panic",) or (e.kind == "assert" and e.info["may_fail"])]
        return out, list(fm.problems), bad, b

    # ---- 2. numeric printer vs reader, exhaustive over the lexical classes -------------
    bad = [v for v in range(256) if not g.full_match("constant_hex", "0x%02X" % v)]
    chk.ob("numeric/byte-hex", not bad, "every byte printed as 0x + two upper-case hex digits is a constant_hex", "grammar",
           "rejected: %s" % bad[:5], "all 256 values")
    bad = [v for v in range(256) if not g.full_match("constant_dec", str(v))]
    chk.ob("numeric/byte-dec", not bad, "every byte printed in decimal is a constant_dec", "grammar", "rejected: %s" % bad[:5],
           "all 256 values")
    bad = [v for v in range(65536) if not g.full_match("word_dec", str(v))]
    chk.ob("numeric/word-dec", not bad, "every word printed in decimal is a word_dec", "grammar", "rejected: %s" % bad[:5],
           "all 65 536 values")
    # the printer of byte constants: hex, width 2, zero padded, upper case; its reader is radix 16
    cvi = am.vi["Constant"]
    out, probs, bad_ev, b = display("Constant", En({cvi["Constant"]: (asmmodel.U8,)}))
    chk.ob("numeric/constant-printer", out == Txt(("0x", ("hex", "u8", 2, True, True, False))) and not probs,
           "byte constants are printed as 0x + two zero-padded upper-case hex digits", b.loc(), "%r %s" % (out, probs))

    # ---- 1. every instruction shape ---------------------------------------------------------
    n = 0
    for vname, combo, value in am.instructions():
        desc = "%s %s" % (vname, ", ".join(c.desc for c in combo))
        if any(c.attr.get("n", 0) and c.attr["n"] > 8 for c in combo):
            continue
        out, probs, bad_ev, b = display("Instruction", value)
        n += 1
        if not isinstance(out, Txt) or probs or bad_ev:
            chk.ob("print/%s" % desc, False, "the Display impl can be evaluated and cannot fail", b.loc(),
                   "%r %s %s" % (out, probs, bad_ev[:1]))
            continue
        insts = instantiate(out)
        if insts is None:
            chk.ob("print/%s" % desc, False, "the printed form consists of known token kinds", b.loc(), repr(out))
            continue
        exp = shape_desc(vname, combo)
        ok = True
        det = ""
        for s in insts:
            m = g.match_rule("instruction", s)
            if m is None or m[0] != len(s):
                ok = False
                det = "printed form %r is not an instruction of the grammar" % s
                break
            node = m[1][0].children[0]
            if node.rule not in rule_of_variant.get(vname, []):
                ok = False
                det = "printed form %r is claimed by grammar alternative %s, not by %s" % (s, node.rule, rule_of_variant.get(vname))
                break
            ops = [operand_desc(g, c, s) for c in node.children if c.rule not in ("sep_ip", "sep_pp")]
            if exp and exp[0][0] == "list":
                # .DB / .DW: same number of elements, all decimal numerals of the right class
                want_n = exp[0][1]
                if len(ops) != want_n or any(o[0] != "num" or not o[1].endswith("_dec") for o in ops):
                    ok = False
                    det = "%r reads back as %s" % (s, ops)
                    break
                continue
            if len(ops) != len(exp) or not all(matches(e_, o_) for e_, o_ in zip(exp, ops)):
                ok = False
                det = "%r reads back as %s, expected %s" % (s, ops, exp)
                break
        chk.ob("roundtrip/%s" % desc, ok,
               "the printed instruction is accepted by the grammar and claimed by the alternative of the same variant "
               "with the same operands", b.loc(), det or "printed %s" % (insts[0],),
               "Display evaluated abstractly; %d instantiations matched with the PEG matcher" % len(insts))
    chk.floor("instruction shapes printed and re-parsed", n, 2125)

    # ---- 3. lines and the whole program ------------------------------------------------------------
    lvi = am.vi["Line"]
    ivi = am.vi["Instruction"]
    nop = En({ivi["Nop"]: ()})
    add = En({ivi["Add"]: (En({1: ()}), En({2: ()}))})
    long_inst = En({ivi["Mov"]: (am.destinations()[4].value, am.sources()[5].value)})
    cmt = En({1: (Opaque("comment"),)})
    none = En({0: ()})
    line_cases = {
        "empty": (En({lvi["Empty"]: (none,)}), []),
        "comment-only": (En({lvi["Empty"]: (cmt,)}), ["comment"]),
        "label": (En({lvi["Label"]: (Opaque("LBL"), none)}), ["label"]),
        "label+comment": (En({lvi["Label"]: (Opaque("LBL"), cmt)}), ["label", "comment"]),
        "instruction": (En({lvi["Instruction"]: (nop, none)}), ["instruction"]),
        "instruction+comment": (En({lvi["Instruction"]: (add, cmt)}), ["instruction", "comment"]),
        "long-instruction+comment": (En({lvi["Instruction"]: (long_inst, cmt)}), ["instruction", "comment"]),
    }
    line_texts = {}
    for name, (val, want) in line_cases.items():
        out, probs, bad_ev, b = display("Line", val)
        insts = instantiate(out) if isinstance(out, Txt) and not probs else None
        ok = insts is not None
        det = "%r %s" % (out, probs)
        if ok:
            for s in insts:
                m = g.match_rule("line", s)
                if m is None or m[0] != len(s):
                    ok = False
                    det = "printed line %r is not a line of the grammar" % s
                    break
                kinds = [c.rule for c in m[1][0].children if c.rule != "space"]
                if kinds != want:
                    ok = False
                    det = "printed line %r reads back as %s, expected %s" % (s, kinds, want)
                    break
                # the comment text survives: "; " + comment re-trims to the comment
                for c in m[1][0].children:
                    if c.rule == "comment":
                        body_ = s[c.start + 1:c.end].strip(" \t;")
                        if body_ != sym_text("comment").strip(" \t;"):
                            ok = False
                            det = "comment %r reads back as %r" % (sym_text("comment"), body_)
            line_texts[name] = insts
        chk.ob("line/%s" % name, ok, "a printed line re-parses to a line with the same label / instruction / comment",
               b.loc(), det if not ok else "printed %r" % (insts[0],))
    # comments: what the parser stores is a fixed point of print + parse.  The real parse_comment is interpreted on
    # every comment text over the alphabet {blank, tab, ';', letter} up to length 4, the stored text is printed by the
    # real Display impl, the printed line is matched against the grammar and its comment handed to parse_comment again
    from .. import commentmodel
    cpar = commentmodel.CommentParser(p, g)
    pcb = cpar.body
    parse_comment_on = cpar.parse
    rests = commentmodel.family(4)
    bad_c = []
    ncom = 0
    for rest in rests:
        t1, b1 = parse_comment_on(rest)
        ncom += 1
        if not isinstance(t1, Str) or b1:
            bad_c.append("comment %r: stored text not decided (%r %s)" % (";" + rest, t1, b1[:1]))
            continue
        out, probs, bad_ev, b = display("Line", En({lvi["Empty"]: (En({1: (t1,)}),)}))
        insts = instantiate(out) if isinstance(out, Txt) and not probs else None
        if not insts:
            bad_c.append("comment %r stored as %r cannot be printed (%r %s)" % (";" + rest, t1.s, out, probs))
            continue
        for s_ in insts:
            m = g.match_rule("line", s_)
            cm = [c for c in m[1][0].children if c.rule == "comment"] if m is not None and m[0] == len(s_) else None
            if not cm:
                bad_c.append("comment %r stored as %r is printed as %r, which has no comment" % (";" + rest, t1.s, s_))
                continue
            t2, b2 = parse_comment_on(s_[cm[0].start + 1:cm[0].end])
            if t2 != t1 or b2:
                bad_c.append("comment %r is stored as %r, printed as %r and read back as %r"
                             % (";" + rest, t1.s, s_, t2.s if isinstance(t2, Str) else t2))
    chk.ob("comment/fixed-point", not bad_c,
           "the comment text the parser stores survives printing and parsing again unchanged", pcb.loc(),
           "; ".join(bad_c[:3]) or "%d comment texts" % ncom,
           "A4 of parse_comment on concrete texts composed with the abstract Display evaluation and the PEG matcher")
    chk.floor("comment texts", ncom, 341)
    # whole program
    asm_fields = p.field_names(AST + "Asm")
    for hname, hc in (("no-header-comment", none), ("header-comment", cmt)):
        # (a parsed program always has at least one line: the grammar's `file` ends with a line)
        for lname, lines in (("one-line", ["instruction"]), ("one-empty-line", ["empty"]),
                             ("three-lines", ["label", "instruction+comment", "empty"]),
                             ("four-lines", ["comment-only", "label+comment", "long-instruction+comment", "instruction"])):
            lv = Arr([line_cases[x][0] for x in lines])
            asm = Agg([{"comment_after_shebang": hc, "lines": lv}[f] for f in asm_fields])
            out, probs, bad_ev, b = display("Asm", asm)
            insts = instantiate(out) if isinstance(out, Txt) and not probs else None
            key = "program/%s/%s" % (hname, lname)
            if insts is None:
                chk.ob(key, False, "the printed program can be evaluated", b.loc(), "%r %s" % (out, probs))
                continue
            ok = True
            det = "printed %r" % (insts[0],)
            for s in insts[:40]:
                m = g.match_rule("file", s)
                if m is None or m[0] != len(s):
                    ok = False
                    det = "printed program %r is rejected by the grammar" % s
                    break
                nlines = [c for c in m[1] if c.rule == "line"]
                kinds = [[k.rule for k in c.children if k.rule != "space"] for c in nlines]
                want = [line_cases[x][1] for x in lines]
                if kinds != want:
                    ok = False
                    det = "printed program %r re-parses to lines %s, expected %s" % (s, kinds, want)
                    break
                hdr = [c for c in m[1] if c.rule == "header"][0]
                has_c = any(k.rule == "comment" for k in hdr.children)
                if has_c != (hc is cmt):
                    ok = False
                    det = "header comment not preserved in %r" % s
                    break
            chk.ob(key, ok, "the printed program is accepted by the parser and has the same lines", b.loc(), det,
                   "Display for Asm evaluated abstractly, matched against grammar rule file")
    # the step from `line` pairs to the program's lines (the clauses above assume it is one-to-one)
    # and the step from the matched text to the AST: the parser reads a printed instruction as the variant, operands and
    # numbers that were printed (the clauses ast/*, numeric/value/hex and /dec - the bases the printer uses - of the parser
    # rule C03; its other clauses are not reported here)
    from . import C03
    orig_ob, orig_assume, orig_sample, orig_note = chk.ob, chk.assume, chk.sample, chk.note
    keep = ("ast/", "numeric/value/hex", "numeric/value/dec", "program/", "label-check-propagates/")
    chk.ob = lambda key, *a, **k: orig_ob(key, *a, **k) if str(key).startswith(keep) else None
    chk.assume = chk.sample = chk.note = lambda *a, **k: None
    chk.prefix = "parse/"
    try:
        C03.run(ctx)
    finally:
        chk.prefix = ""
        chk.ob, chk.assume, chk.sample, chk.note = orig_ob, orig_assume, orig_sample, orig_note
    chk.assume("labels and comments of a parsed program only contain text their grammar rules accept; "
               "comments are stored trimmed (C03)")
    chk.sample({"shape": "Mov (LBL), ((R2+))", "printed": "MOV (l_dstlbl), ((R2+))"})
