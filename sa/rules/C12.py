"""C12 - run/verify report exactly what the stepped machine does, incl. exit status.

  1. RunnerConfig::run: abstract interpretation of the function with the parser,
     compiler and machine entry points replaced by abstract stand-ins that log
     which call happened; for every scenario (budgets 0/1/n, interrupt and reset
     lists with duplicates, cycle 0, beyond the end, halting at some cycle) the
     call log and the reported cycle count must equal the reference loop of the
     property.
  2. RunExpectations::verify: for every subset of expectations and every
     match/mismatch cell the result is Ok exactly when all set expectations hold;
     each expectation is compared with its own getter (state / FE / FF).
  3. CLI glue: exit status, print-before-fail, radix parsing, configuration
     mapping (by data-flow on MIR).
"""
from .. import absint, step, shapes, mirutil, depend, panics
from .. import domain as D
from ..domain import Agg, En, Ref, TOP, BOT, Arr, Str, Opaque
from ..facts import AnchorMissing

LEVEL = "other"
EXPLANATION = ("abstract interpretation of the runner loop against logging stand-ins for the machine (loop unrolling), "
               "cell-wise abstract interpretation of verify, and data-flow checks on the CLI glue")

RUN = "L::runner::RunnerConfig::<'a>::run"
VERIFY = "L::runner::RunExpectations::verify"
MACHINE = step.MACHINE
TRACE = ("heap", "trace", 0)
INT, RST, CLK = 1, 2, 3


def reference(n, interrupts, resets, halt_after):
    """the property's loop: returns (per-cycle list of (set(pre-actions), clock), count)"""
    log = []
    count = 0
    i = 0
    while i < n:
        pre = set()
        if i in interrupts:
            pre.add(INT)
        if i in resets:
            pre.add(RST)
        log.append(pre)
        count += 1
        i += 1
        if halt_after is not None and count >= halt_after:
            break
    return log, count


def run(ctx):
    p = ctx.p
    chk = ctx.chk
    rb = p.need_body(RUN)
    cfg_fields = p.field_names("L::runner::RunnerConfig")
    res_fields = p.field_names("L::runner::RunResults")
    STATE = step.STATE
    RUNNING = p.variant_index(STATE, "Running")
    STOPPED = p.variant_index(STATE, "Stopped")
    raw_i = p.field_index(MACHINE, "raw")
    st_i = p.field_index(step.RM, "state")

    scenarios = {
        "budget-0": (0, [0], [0], None),
        "budget-1": (1, [], [], None),
        "budget-1-both-at-0": (1, [0], [0], None),
        "budget-4-mixed": (4, [1, 3, 3], [0, 3], None),
        "budget-3-beyond-end": (3, [5, 3], [7], None),
        "halt-at-first-cycle": (5, [0, 1], [1], 1),
        "halt-at-third-cycle": (6, [2, 4], [0, 2, 5], 3),
        # the same for an error halt (the loop ends for every state other than Running, not just a regular stop)
        "error-halt-at-first-cycle": (5, [0, 1], [1], 1),
        "error-halt-at-third-cycle": (6, [2, 4], [0, 2, 5], 3),
        "error-halt-then-late-reset": (9, [], [7], 2),
    }
    ERRSTOP = p.variant_index(STATE, "ErrorStopped")

    for name, (n, ints, rsts, halt_after) in scenarios.items():
        halt_state = ERRSTOP if name.startswith("error-") else STOPPED
        I = absint.Interp(p)
        I.unroll = 16
        problems = []

        def log_call(tok):
            def stub(I_, st, depth, callee, args, body, ln, tok=tok, halt_state=halt_state):
                tr = st.store.get(TRACE)
                if not isinstance(tr, Arr):
                    problems.append("trace lost")
                    return Agg(())
                st.store[TRACE] = Arr(tr.e + (tok,))
                if tok == CLK and halt_after is not None:
                    nclk = sum(1 for x in st.store[TRACE].e if x == CLK)
                    if nclk >= halt_after and isinstance(args[0], Ref):
                        I_.store_to(st, args[0].alloc, args[0].path + (raw_i, st_i), En({halt_state: ()}))
                return Agg(())
            return stub

        def parse_stub(I_, st, depth, callee, args, body, ln):
            return En({0: (Opaque("ASM"),)})

        def compile_stub(I_, st, depth, callee, args, body, ln):
            return Opaque("BYTECODE")

        def new_stub(I_, st, depth, callee, args, body, ln):
            ok = isinstance(args[1], Opaque) and args[1].tag == "BYTECODE"
            if not ok:
                problems.append("machine not built from the compiled program")
            m = shapes.build(p, MACHINE, shapes.top_leaf, (), {"raw.state": En({RUNNING: ()})})
            return m
        I.fn_overrides["L::parser::implementation::AsmParser::parse"] = parse_stub
        I.fn_overrides["L::compiler::Translator::compile"] = compile_stub
        I.fn_overrides[MACHINE + "::new_with_program"] = new_stub
        I.fn_overrides[MACHINE + "::trigger_key_interrupt"] = log_call(INT)
        I.fn_overrides[MACHINE + "::cpu_reset"] = log_call(RST)
        I.fn_overrides[MACHINE + "::trigger_key_clock"] = log_call(CLK)
        st = absint.State()
        st.store[TRACE] = Arr(())
        vals = {"max_cycles": n, "machine_config": shapes.build(p, "L::machine::MachineConfig"),
                "program": Str("<program>"), "interrupts": Arr(ints), "resets": Arr(rsts), "_phantom": Agg(())}
        ca = I.new_alloc(st, "config", Agg([vals[f] for f in cfg_fields]))
        r = I.run_body(rb, [Ref(ca)], st, 0)
        tr = st.store.get(TRACE)
        want_log, want_count = reference(n, set(ints), set(rsts), halt_after)
        ok = False
        got_cycles = None
        detail = ""
        if isinstance(r, En) and set(r.vs) == {0} and isinstance(tr, Arr):
            results = r.vs[0][0]
            got_cycles = results.f[res_fields.index("emulated_cycles")] if isinstance(results, Agg) else None
            # split the trace at clocks
            cyc = []
            cur = set()
            good = True
            for tok in tr.e:
                if tok == CLK:
                    cyc.append(cur)
                    cur = set()
                else:
                    if tok in cur:
                        good = False
                    cur.add(tok)
            if cur:
                good = False    # a scheduled action after the last clock
            ok = good and cyc == want_log and got_cycles == want_count and not problems
            detail = "call log %s, expected %s; reported cycles %r, expected %d; %s" % (
                list(tr.e), want_log, got_cycles, want_count, problems[:2])
        else:
            detail = "run() did not return Ok on every path: %r; %s" % (r, problems[:2])
        bad = [e for e in I.events if e.kind in step.BAD_EVENTS and not e.in_log]
        chk.ob("run-loop/%s" % name, ok and not bad,
               "RunnerConfig::run applies the scheduled interrupt/reset, then one clock, counts the cycle, and stops "
               "after the budget or the first cycle that halts", rb.loc(), detail + (" unanalysable: %s" % bad[:2] if bad else ""),
               "A4 with loop unrolling; machine entry points replaced by logging stand-ins")
    # parse error -> Err
    I = absint.Interp(p)
    I.fn_overrides["L::parser::implementation::AsmParser::parse"] = \
        lambda I_, st, depth, callee, args, body, ln: En({1: (Opaque("PARSE-ERROR"),)})
    st = absint.State()
    vals = {"max_cycles": 3, "machine_config": shapes.build(p, "L::machine::MachineConfig"),
            "program": Str("<program>"), "interrupts": Arr([]), "resets": Arr([]), "_phantom": Agg(())}
    ca = I.new_alloc(st, "config", Agg([vals[f] for f in cfg_fields]))
    r = I.run_body(rb, [Ref(ca)], st, 0)
    chk.ob("run/parse-error-is-err", isinstance(r, En) and set(r.vs) == {1},
           "a parser error makes run() return the error", rb.loc(), repr(r)[:200])
    # the machine is clocked in Real step mode: new_with_program never sets Assembly
    nb = p.need_body(MACHINE + "::new_with_program")
    real = p.variant_index("L::machine::StepMode", "Real")
    found = []
    for blk in nb.blocks:
        for s in blk["s"]:
            if s["k"] == "assign" and s["r"]["k"] == "agg" and s["r"].get("name") == MACHINE:
                fn = s["r"]["fnames"]
                found.append(s["r"]["fields"][fn.index("step_mode")])
    ok = bool(found)
    for op in found:
        pl = mirutil.place_of(op)
        if pl is None:
            ok = False
            continue
        defs = mirutil.local_def_sites(nb, pl["l"])
        ok = ok and len(defs) == 1 and defs[0][2].get("r", {}).get("k") == "agg" and defs[0][2]["r"].get("vi") == real
    chk.ob("run/real-step-mode", ok, "the runner's machine is created in Real step mode (one clock = one edge)",
           nb.loc(), "")
    # load happens before the configuration is applied
    calls = [(bb, mirutil.callee_name(t)) for bb, t in mirutil.calls_in(nb)]
    dom = mirutil.dominators(nb)
    lb = [bb for bb, c in calls if c == MACHINE + "::load"]
    ab = [bb for bb, c in calls if c == MACHINE + "::apply_configuration"]
    chk.ob("run/load-before-config", len(lb) == 1 and len(ab) == 1 and lb[0] in dom[ab[0]],
           "the program is loaded before the initial configuration is applied", nb.loc(), "load %s apply %s" % (lb, ab))

    # ---- 2. verify ----------------------------------------------------------------
    vb = p.need_body(VERIFY)
    exp_fields = p.field_names("L::runner::RunExpectations")
    names = [v["n"] for v in p.need_type(STATE)["variants"]]
    I = absint.Interp(p)

    def verify(exp_state, exp_fe, exp_ff, m_state, m_fe, m_ff):
        st = absint.State()
        I.heap_counter = 0
        ev = {"state": exp_state, "output_fe": exp_fe, "output_ff": exp_ff}
        ea = I.new_alloc(st, "exp", Agg([ev[f] for f in exp_fields]))
        m = shapes.build(p, MACHINE, shapes.top_leaf, (), {"raw.state": m_state,
                                                            "raw.bus.output_reg": Arr([m_fe, m_ff])})
        rv = {"machine": m, "emulated_cycles": D.top_of_int("usize"), "time_taken": TOP, "config": TOP,
              "_phantom": Agg(())}
        ra = I.new_alloc(st, "res", Agg([rv[f] for f in res_fields]))
        I.events.clear()
        r = I.run_body(vb, [Ref(ea), Ref(ra)], st, 0)
        return r

    none = En({0: ()})

    def some(v):
        return En({1: (v,)})
    SV = {n: En({i: ()}) for i, n in enumerate(names)}
    U8_NOT5 = frozenset(x for x in range(256) if x != 5)
    err_t = p.need_type("L::runner::VerificationError")
    err_names = [v["n"] for v in err_t["variants"]]
    n_v = 0
    for s_set in (False, True):
        for fe_set in (False, True):
            for ff_set in (False, True):
                for s_ok in ((True, False) if s_set else (True,)):
                    for fe_ok in ((True, False) if fe_set else (True,)):
                        for ff_ok in ((True, False) if ff_set else (True,)):
                            es = some(SV["Stopped"]) if s_set else none
                            ms = SV["Stopped"] if s_ok else En({names.index("Running"): (), names.index("ErrorStopped"): ()})
                            efe = some(5) if fe_set else none
                            mfe = 5 if fe_ok else U8_NOT5
                            eff = some(5) if ff_set else none
                            mff = 5 if ff_ok else U8_NOT5
                            if not s_set:
                                ms = En({i: () for i in range(len(names))})
                            if not fe_set:
                                mfe = D.top_of_int("u8")
                            if not ff_set:
                                mff = D.top_of_int("u8")
                            r = verify(es, efe, eff, ms, mfe, mff)
                            all_ok = s_ok and fe_ok and ff_ok
                            if all_ok:
                                good = isinstance(r, En) and set(r.vs) == {0}
                            else:
                                good = isinstance(r, En) and set(r.vs) == {1}
                                if good:
                                    # the reported mismatch is one of the failing expectations
                                    ev = r.vs[1][0]
                                    allowed = set()
                                    if not s_ok:
                                        allowed.add(err_names.index("StateMismatch"))
                                    if not fe_ok:
                                        allowed.add(err_names.index("OutputFeMismatch"))
                                    if not ff_ok:
                                        allowed.add(err_names.index("OutputFfMismatch"))
                                    good = isinstance(ev, En) and set(ev.vs) <= allowed
                            n_v += 1
                            key = "verify/%s%s%s/%s%s%s" % ("S" if s_set else "-", "E" if fe_set else "-", "F" if ff_set else "-",
                                                             "ok" if s_ok else "XX", "ok" if fe_ok else "XX", "ok" if ff_ok else "XX")
                            chk.ob(key, good,
                                   "verification succeeds exactly when every stated expectation (state, FE, FF) equals the "
                                   "machine's value, each compared with its own register",
                                   vb.loc(), "expectations set: state=%s fe=%s ff=%s; holding: %s %s %s; result %r"
                                   % (s_set, fe_set, ff_set, s_ok, fe_ok, ff_ok, r))
    chk.floor("verify cells", n_v, 27)
    # FE and FF are not swapped: FE mismatch with FF equal
    r = verify(none, some(5), none, En({i: () for i in range(len(names))}), 5, U8_NOT5)
    chk.ob("verify/fe-uses-fe", isinstance(r, En) and set(r.vs) == {0},
           "the FE expectation is compared with output register FE only", vb.loc(), repr(r)[:120])
    r = verify(none, none, some(5), En({i: () for i in range(len(names))}), U8_NOT5, 5)
    chk.ob("verify/ff-uses-ff", isinstance(r, En) and set(r.vs) == {0},
           "the FF expectation is compared with output register FF only", vb.loc(), repr(r)[:120])

    # ---- 3. CLI glue ------------------------------------------------------------------
    mb = p.need_body("B::main")
    exits = []
    for path, b in p.bodies.items():
        if b.crate != "B":
            continue
        for bb, t in mirutil.calls_in(b):
            if mirutil.callee_def(t) == "std::process::exit":
                exits.append((path, bb, t))
    chk.floor("process::exit call sites", len(exits), 1)
    for path, bb, t in exits:
        code = mirutil.const_of(t["args"][0])
        b = p.bodies[path]
        conds = mirutil.edge_conditions(b, bb)
        guarded_by_err = False
        for d, taken, sw in conds:
            src = mirutil.place_of(sw["d"])
            if src is None:
                continue
            for (dbb, idx, item) in mirutil.local_def_sites(b, src["l"]):
                if item.get("k") == "assign" and item["r"]["k"] == "discr" and "Result" in item["r"]["ty"]:
                    # Err has discriminant 1
                    if taken == 1 or (taken == "else" and all(v == 0 for v, _ in sw["vals"])):
                        guarded_by_err = True
        chk.ob("cli/exit/%s" % path, code == 1 and guarded_by_err and path == "B::main",
               "the process exits with status 1, only in main, only when the sub-command returned an error",
               "%s:%s" % (b.file, t["ln"]), "exit code %r, guarded by Err: %s" % (code, guarded_by_err))
    # failing to read or to parse the program makes every sub-command return an error (which main turns into exit 1)
    perr_t = p.need_type("L::parser::implementation::error::ParserError")
    parse_errs = {v["n"]: En({1: (En({i: tuple(TOP for _ in v["fields"])}),)}) for i, v in enumerate(perr_t["variants"])}
    from .. import shapes as _shapes

    def subcommand(fn, read_ok, parse_result):
        I2 = absint.Interp(p)
        I2.fn_overrides["std::fs::read_to_string"] = lambda I_, st_, d_, c_, a_, b_, l_: (
            En({0: (Opaque("TEXT"),)}) if read_ok else En({1: (Opaque("IOERR"),)}))
        I2.fn_overrides["L::parser::implementation::AsmParser::parse"] = lambda I_, st_, d_, c_, a_, b_, l_: parse_result
        st_ = absint.State()
        aty = p.need_body(fn).locals[1]["ty"].lstrip("&")
        v_ = _shapes.build(p, aty, _shapes.top_leaf, (), {}) if aty in p.types else TOP
        aa = I2.new_alloc(st_, "args", v_)
        r_ = I2.run_body(p.need_body(fn), [Ref(aa, (), False)], st_, 0)
        return set(r_.vs) if isinstance(r_, En) else None
    for fn in ("B::run_verification", "B::run_runner"):
        short = fn.rsplit("::", 1)[-1]
        got = subcommand(fn, False, None)
        chk.ob("cli/error-propagates/%s/unreadable-file" % short, got == {1},
               "a program file that cannot be read makes the sub-command fail", p.need_body(fn).loc(), "result variants: %s" % got)
        for en, ev in parse_errs.items():
            got = subcommand(fn, True, ev)
            chk.ob("cli/error-propagates/%s/%s" % (short, en), got == {1},
                   "a program that does not parse (%s) makes the sub-command fail, whatever the kind of parse error" % en,
                   p.need_body(fn).loc(), "result variants: %s (0 = Ok, 1 = Err)" % got,
                   "abstract interpretation with stand-ins for fs::read_to_string and AsmParser::parse")
    got = subcommand("B::run_verification", True, En({0: (Opaque("ASM"),)}))
    chk.ob("cli/verify-accepts-valid", got == {0}, "`verify` succeeds for a program that parses", p.need_body("B::run_verification").loc(),
           "result variants: %s" % got)
    eb = p.need_body("B::runner::execute_runner_with_args_and_print_results")
    calls = [(bb, mirutil.callee_name(t), t) for bb, t in mirutil.calls_in(eb)]
    dom = mirutil.dominators(eb)
    runb = [bb for bb, c, t in calls if c == RUN]
    verb = [bb for bb, c, t in calls if c == VERIFY]
    prb = [bb for bb, c, t in calls if c == "B::runner::print_run_results"]
    brs = [bb for bb, c, t in calls if c and c.endswith("Try>::branch")]
    ok = len(runb) == 1 and len(verb) == 1 and len(prb) == 1 and runb[0] in dom[prb[0]] and runb[0] in dom[verb[0]]
    # the `?` applied to the verification status comes after printing
    later = [bb for bb in brs if prb and prb[0] in dom[bb]]
    ok = ok and len(later) == 1
    chk.ob("cli/print-before-status", ok,
           "the results are printed after the run and before the verification status decides the exit code",
           eb.loc(), "run %s verify %s print %s status-branches after print %s" % (runb, verb, prb, later))
    # the verified object is the printed object
    same = False
    if verb and prb:
        va = [t for bb, c, t in calls if c == VERIFY][0]["args"][1]
        pa = [t for bb, c, t in calls if c == "B::runner::print_run_results"][0]["args"][1]

        def root(l, depth=0):
            if depth > 8:
                return None
            for (dbb, idx, item) in mirutil.local_def_sites(eb, l):
                if item.get("k") != "assign":
                    return None
                rv = item["r"]
                if rv["k"] == "ref":
                    pl_ = rv["p"]
                    if not pl_["p"]:
                        return pl_["l"]
                    if pl_["p"] == ["*"]:
                        return root(pl_["l"], depth + 1)
                    return None
                if rv["k"] == "use":
                    p2 = mirutil.place_of(rv["o"])
                    if p2 is not None and not p2["p"]:
                        return root(p2["l"], depth + 1)
                return None
            return None

        def target(op):
            pl = mirutil.place_of(op)
            if pl is None or pl["p"]:
                return None
            return root(pl["l"])
        same = target(va) is not None and target(va) == target(pa)
    chk.ob("cli/print-verified-object", same, "the printed results are the verified results", eb.loc(), "")
    # the command line reaches the runner unaltered: each builder call of the RunnerConfig gets its value from the like-named
    # field of the arguments through copies and conversions only (clone, into, deref, the `?` on the file read) - a filter, a
    # merge of two lists or a constant between the argument and the builder changes the schedule the property is stated over
    TRANSPARENT = ("core::clone::Clone::clone", "core::convert::Into::into", "core::convert::From::from",
                   "core::ops::deref::Deref::deref", "alloc::string::String::as_str", "core::ops::try_trait::Try::branch",
                   "alloc::borrow::ToOwned::to_owned", "alloc::slice::<impl [T]>::to_vec", "core::convert::AsRef::as_ref",
                   "alloc::vec::Vec::<T, A>::as_slice", "core::borrow::Borrow::borrow")

    def origin(pl, depth=0):
        if pl is None or depth > 12:
            return None
        proj = [x for x in pl["p"] if x != "*" and not (isinstance(x, dict) and "d" in x)]
        if pl["l"] == 1:
            if len(proj) == 1 and isinstance(proj[0], dict) and proj[0].get("adt") == "B::args::RunArgs":
                return "args.%s" % proj[0]["n"]
            return None
        # a field of a local is only followed for the payload of ControlFlow::Continue (the `?` operator)
        if proj and not (len(proj) == 1 and isinstance(proj[0], dict) and proj[0].get("var") == "Continue"):
            return None
        defs = mirutil.local_def_sites(eb, pl["l"])
        if len(defs) != 1:
            return None
        item = defs[0][2]
        if item["k"] == "assign":
            rv = item["r"]
            if rv["k"] == "ref":
                return origin(rv["p"], depth + 1)
            if rv["k"] == "use":
                return origin(mirutil.place_of(rv["o"]), depth + 1)
            return None
        if item["k"] == "call":
            d_ = mirutil.callee_def(item) or ""
            if d_ in TRANSPARENT and len(item["args"]) == 1:
                return origin(mirutil.place_of(item["args"][0]), depth + 1)
            if d_ == "std::fs::read_to_string" and len(item["args"]) == 1:
                o_ = origin(mirutil.place_of(item["args"][0]), depth + 1)
                return "file(%s)" % o_ if o_ else None
        return None
    want_src = {"with_machine_config": "args.init", "with_max_cycles": "args.cycles", "with_resets": "args.resets",
                "with_interrupts": "args.interrupts", "with_program": "file(args.program)"}
    seen_b = {}
    for bb_, c_, t_ in calls:
        if c_ and "RunnerConfigBuilder" in c_ and c_.rsplit("::", 1)[-1].startswith("with_"):
            m_ = c_.rsplit("::", 1)[-1]
            seen_b.setdefault(m_, []).append(origin(mirutil.place_of(t_["args"][1])) if len(t_["args"]) == 2 else None)
    for m_, src_ in sorted(want_src.items()):
        chk.ob("cli/args-reach-runner/%s" % m_, seen_b.get(m_) == [src_],
               "the runner configuration is built from the command-line arguments as given: %s receives %s through copies and "
               "conversions only" % (m_, src_), eb.loc(), "provenance of the argument: %s" % (seen_b.get(m_),),
               "backward provenance over the MIR of the wrapper (single definitions; clone/into/deref/`?` transparent)")
    chk.ob("cli/args-reach-runner/no-other-setter", set(seen_b) == set(want_src),
           "no further builder call overrides a configured value", eb.loc(), "builder calls: %s" % sorted(seen_b))
    # the configuration that is run is the one built: run() receives the result of build().expect()
    bld = [t_ for bb_, c_, t_ in calls if c_ and c_.endswith("RunnerConfigBuilder::<'a>::build")]
    runs_ = [t_ for bb_, c_, t_ in calls if c_ == RUN]

    def chain_root(pl, depth=0):
        """the builder-call chain behind a place: follows refs and the with_* calls' receiver back to Default::default"""
        if pl is None or depth > 40:
            return None
        defs = mirutil.local_def_sites(eb, pl["l"])
        if len(defs) != 1:
            return None
        item = defs[0][2]
        if item["k"] == "assign" and item["r"]["k"] == "ref":
            return chain_root(item["r"]["p"], depth + 1)
        if item["k"] == "assign" and item["r"]["k"] == "use":
            return chain_root(mirutil.place_of(item["r"]["o"]), depth + 1)
        if item["k"] == "call":
            c_ = mirutil.callee_name(item) or ""
            if "RunnerConfigBuilder" in c_ and (c_.rsplit("::", 1)[-1].startswith("with_") or c_.endswith("::build")):
                return chain_root(mirutil.place_of(item["args"][0]), depth + 1)
            if c_.endswith("Result::<T, E>::expect") or c_.endswith("Result::<T, E>::unwrap"):
                return chain_root(mirutil.place_of(item["args"][0]), depth + 1)
            if "RunnerConfigBuilder" in c_ and c_.endswith("Default>::default"):
                return "default"
        return None
    ok_chain = len(bld) == 1 and len(runs_) == 1 and chain_root(mirutil.place_of(runs_[0]["args"][0])) == "default"
    chk.ob("cli/args-reach-runner/one-builder-chain", ok_chain,
           "run() is called on the configuration produced by the single builder chain that starts at the default builder",
           eb.loc(), "build calls %d, run calls %d" % (len(bld), len(runs_)))
    # radix parsing
    pb = p.need_body("B::args::parse_u8_auto_radix")
    radix = {}
    casts = []
    for bb, t in mirutil.calls_in(pb):
        nm = mirutil.callee_def(t) or ""
        if nm.endswith("from_str_radix"):
            radix[bb] = mirutil.const_of(t["args"][1])
    for blk in pb.blocks:
        for s in blk["s"]:
            if s["k"] == "assign" and s["r"]["k"] == "cast" and s["r"]["ck"].startswith("IntToInt") and s["r"]["ty"] == "u8":
                casts.append(s["ln"])
    prefixes = []
    for bb, t in mirutil.calls_in(pb):
        nm = mirutil.callee_def(t) or ""
        if nm.endswith("strip_prefix"):
            for a in t["args"]:
                k = a.get("k")
                if k and "str" in k:
                    prefixes.append((bb, k["str"]))
    pairs = set()
    domp = mirutil.dominators(pb)
    for rb_, rad in radix.items():
        best = None
        for pbb, pref in prefixes:
            if pbb in domp[rb_]:
                best = (pbb, pref) if best is None or pbb > best[0] else best
        # the closest dominating strip_prefix whose Some-edge leads here
        cands = [(pbb, pref) for pbb, pref in prefixes if pbb in domp[rb_]]
        pairs.add((cands[-1][1] if cands else None, rad))
    ok = pairs == {("0b", 2), ("0x", 16)} or pairs == {("0b", 2), ("0x", 16)}
    # when 0x is tested after 0b failed, both strip_prefix calls dominate the hex branch: accept the last one
    chk.ob("cli/radix", ok and not casts,
           "0b selects radix 2, 0x radix 16, anything else decimal, all through checked u8 parsing (no truncating cast)",
           pb.loc(), "prefix/radix pairs %s; casts to u8: %s" % (sorted(pairs, key=str), casts))
    dec = [t for bb, t in mirutil.calls_in(pb) if (mirutil.callee_def(t) or "").endswith("str>::parse")]
    chk.ob("cli/radix-decimal", len(dec) == 1 and "u8" in dec[0]["f"].get("defargs", ""),
           "the decimal branch parses into u8", pb.loc(), "%s" % [d["f"].get("defargs") for d in dec])
    # configuration mapping: CLI field -> MachineConfig field (A4 with opaque leaves)
    fb = [k for k in p.bodies if "From<B::args::InitialMachineConfiguration>" in k and k.endswith("::from")]
    if not fb:
        raise AnchorMissing("From<InitialMachineConfiguration> for MachineConfig")
    fb = p.bodies[fb[0]]
    I = absint.Interp(p)
    st = absint.State()
    init = shapes.build(p, "B::args::InitialMachineConfiguration", shapes.opaque_leaf)
    r = I.run_body(fb, [init], st, 0)
    want = {"analog_input1": "ai1", "analog_input2": "ai2", "digital_input1": "di1", "temp": "temp",
            "input_fc": "fc", "input_fd": "fd", "input_fe": "fe", "input_ff": "ff", "jumper1": "j1", "jumper2": "j2",
            "universal_input_output1": "uio1", "universal_input_output2": "uio2", "universal_input_output3": "uio3"}
    mc_fields = p.field_names("L::machine::MachineConfig")
    for f in mc_fields:
        got = r.f[mc_fields.index(f)] if isinstance(r, Agg) else None
        chk.ob("cli/config-map/%s" % f, f in want and got == Opaque(want[f]),
               "each command-line input reaches the like-named machine configuration field", fb.loc(),
               "%s <- %r (expected %s)" % (f, got, want.get(f)))
    # apply_configuration: field k goes to setter set_k
    ab = p.need_body(MACHINE + "::apply_configuration")
    seen = set()
    for bb, t in mirutil.calls_in(ab):
        nm = mirutil.callee_name(t) or ""
        if not nm.startswith(MACHINE + "::set_"):
            continue
        k = nm.split("::set_")[1]
        pl = mirutil.place_of(t["args"][1])
        src = None
        if pl is not None:
            if pl["p"]:
                src = mirutil.last_field(pl)
            else:
                for (dbb, idx, item) in mirutil.local_def_sites(ab, pl["l"]):
                    if item.get("k") == "assign" and item["r"]["k"] == "use":
                        p2 = mirutil.place_of(item["r"]["o"])
                        if p2 is not None:
                            src = mirutil.last_field(p2)
        seen.add(k)
        chk.ob("config-apply/%s" % k, src is not None and src[1] == k,
               "apply_configuration passes each configuration field to the like-named setter", "%s:%s" % (ab.file, t["ln"]),
               "set_%s <- %s" % (k, src))
    chk.ob("config-apply/all-fields", seen == set(mc_fields), "every configuration field is applied", ab.loc(),
           "missing: %s" % sorted(set(mc_fields) - seen))
    # expectations from CLI arguments
    xb = [k for k in p.bodies if "From<B::args::RunVerifyArgs>" in k and k.endswith("::from")]
    if xb:
        xb = p.bodies[xb[0]]
        I = absint.Interp(p)
        for label, sv, fe, ff in (("all", some(SV["Stopped"]), some(Opaque("FE")), some(Opaque("FF"))),
                                  ("none", none, none, none),
                                  ("fe-only", none, some(Opaque("FE")), none)):
            st = absint.State()
            argf = p.field_names("B::args::RunVerifyArgs")
            av = {"state": sv, "fe": fe, "ff": ff}
            I.events.clear()
            r = I.run_body(xb, [Agg([av[f] for f in argf])], st, 0)
            ok = isinstance(r, Agg) and len(r.f) == 3 and \
                r.f[exp_fields.index("state")] == sv and r.f[exp_fields.index("output_fe")] == fe and \
                r.f[exp_fields.index("output_ff")] == ff
            chk.ob("cli/expectations/%s" % label, ok,
                   "--state/--fe/--ff become exactly the state/FE/FF expectations", xb.loc(), "%r" % (r,))
    # the command line reaches run/verify as written: an option of `run` that may be given several times (--interrupt, --reset)
    # takes exactly one value per occurrence - without that bound clap keeps consuming the following words as values, and the
    # `verify` sub-command (or the program path) after `--reset N` is swallowed: the tool exits 1 although nothing failed
    ab = p.need_body("<B::args::RunArgs as structopt::StructOptInternal>::augment_clap")
    segs = []
    for bb_, t_ in mirutil.calls_in(ab):
        d_ = mirutil.callee_def(t_) or ""
        if "clap::args::arg::Arg" not in d_:
            continue
        m_ = d_.rsplit("::", 1)[-1]
        if m_ == "with_name":
            segs.append({"name": panics.str_const_of(ab, t_["args"][0]) if t_["args"] else None, "calls": []})
        elif segs:
            cv = mirutil.const_of(t_["args"][1]) if len(t_["args"]) > 1 else None
            segs[-1]["calls"].append((m_, cv))
    bad_cli = []
    nmulti = 0
    for sg in segs:
        names = [c_[0] for c_ in sg["calls"]]
        multi = any(c_[0] == "multiple" and c_[1] in (1, True) for c_ in sg["calls"])
        if "long" in names and multi:
            nmulti += 1
            if ("number_of_values", 1) not in sg["calls"]:
                bad_cli.append("--%s may occur several times without a fixed number of values per occurrence" % sg["name"])
    chk.ob("cli/multi-option-one-value", not bad_cli and nmulti >= 2,
           "every repeatable option of `run` takes exactly one value per occurrence, so the words after it (the verify "
           "sub-command) are never consumed as further values", ab.loc(),
           "; ".join(bad_cli) or "%d repeatable options, each with number_of_values(1)" % nmulti,
           "builder calls of the generated clap definition (MIR of StructOptInternal::augment_clap), per argument")
    chk.sample({"scenario": "budget-4-mixed", "interrupts": [1, 3, 3], "resets": [0, 3],
                "expected call log per cycle": [["reset"], ["interrupt"], [], ["interrupt", "reset"]]})
