"""C08 - the ALU computes its documented function and flags.

The numeric table (2 097 152 points) is not decided.  Decided:
  1. dependence sets (A9): for each of the 16 functions, result and carry-out
     depend on exactly the documented subset of (A, B, carry-in);
  2. shape facts by abstract interpretation (A4) on sub-domains selected by the
     bit the documentation talks about (no enumeration of operand values):
     constant outputs, pass-through identity, bit 0 -> carry for the four
     shifts, the value of bit 7 for LSR/RR/RRC/ASR, carry hold/invert for BH/
     INVC, carry-in forcing carry-out for the carry-holding add;
  3. Z/N derivation: zero/negative outputs are derived from the value that
     becomes the result (dependence + cells through the pass-B function).
"""
from .. import absint, shapes, mirutil, spec, depend
from .. import domain as D
from ..domain import Agg, En, Ref, TOP, BOT, Opaque
from ..facts import AnchorMissing

LEVEL = "other"
EXPLANATION = ("per-function dependence analysis on MIR + abstract interpretation on bit-defined sub-domains; "
               "the arithmetic itself (sums, carry polarity of the subtracting adds) is not decided")

FN = "L::machine::alu::AluOutput::from_input"
ALUSEL = "L::machine::alu::AluSelect"
INP = "L::machine::alu::AluInput"
OUT = "L::machine::alu::AluOutput"

EVEN = frozenset(range(0, 256, 2))
ODD = frozenset(range(1, 256, 2))
LOW = frozenset(range(0, 128))
HIGH = frozenset(range(128, 256))
U8 = frozenset(range(256))
BOOL = frozenset((0, 1))


def run(ctx):
    p = ctx.p
    chk = ctx.chk
    tab = spec.load("alu")
    body = p.need_body(FN)
    sel_t = p.need_type(ALUSEL)
    names = [v["n"] for v in sel_t["variants"]]
    chk.ob("functions/sixteen", sorted(names) == sorted(tab.keys()), "the ALU has exactly the 16 documented functions",
           sel_t["file"], "variants: %s" % names)
    in_fields = p.field_names(INP)
    out_fields = p.field_names(OUT)
    for f in ("input_a", "input_b", "carry_in"):
        if f not in in_fields:
            raise AnchorMissing("AluInput::%s" % f)
    for f in ("output", "carry_out", "zero_out", "negative_out"):
        if f not in out_fields:
            raise AnchorMissing("AluOutput::%s" % f)
    lab = {"input_a": "A", "input_b": "B", "carry_in": "Cin"}

    def roots(place):
        if place["l"] == 1 and len(place["p"]) >= 2 and place["p"][0] == "*" and isinstance(place["p"][1], dict):
            n = place["p"][1].get("n")
            if n in lab:
                return lab[n]
        if place["l"] == 2:
            return "F"
        return None

    # locate the dispatch switch on the function discriminant
    sw_bb = None
    for bb, blk in enumerate(body.blocks):
        t = blk["t"]
        if t["k"] == "switch" and len(t["vals"]) >= 15:
            sw_bb = bb
    if sw_bb is None:
        raise AnchorMissing("dispatch on AluSelect in from_input (no 16-way switch)")
    sw = body.blocks[sw_bb]["t"]
    discr = {v.get("discr", i): i for i, v in enumerate(sel_t["variants"])}
    targets = {}
    for v, tgt in sw["vals"]:
        if v in discr:
            targets[discr[v]] = tgt
    missing = [names[i] for i in range(len(names)) if i not in targets]
    if len(missing) == 1:
        targets[names.index(missing[0])] = sw["else"]

    I = absint.Interp(p)

    def alu(vi, a, b, cin):
        st = absint.State()
        I.heap_counter = 0
        ia = I.new_alloc(st, "in", Agg([{"input_a": a, "input_b": b, "carry_in": cin}[f] for f in in_fields]))
        fa = I.new_alloc(st, "fn", En({vi: ()}))
        I.events.clear()
        r = I.run_body(body, [Ref(ia), Ref(fa)], st, 0)
        bad = [e for e in I.events if e.kind in ("unknown_extern", "wild_write", "havoc", "panic")
               or (e.kind == "assert" and e.info["may_fail"])]
        if not isinstance(r, Agg) or bad:
            return None, bad
        return {f: r.f[i] for i, f in enumerate(out_fields)}, bad

    for vi, name in enumerate(names):
        row = tab.get(name)
        if row is None:
            continue
        where = "%s:%d (arm %s)" % (body.file, body.line, name)
        if vi not in targets:
            chk.fail("arm/%s" % name, "fail-closed: no arm found for the function", where, "", status="anchor-missing")
            continue
        # ---- 1. dependence ----
        dp = depend.Deps(body, roots, prune={sw_bb: {targets[vi]}})
        for fld, key in (("output", "result"), ("carry_out", "carry")):
            got = set(dp.at_return((0, out_fields.index(fld)))) - {"F"}
            want = set(row[key])
            chk.ob("depends/%s/%s" % (name, key), got == want,
                   "the %s of %s depends on exactly the documented inputs" % (key, name), where,
                   "depends on %s, documented %s" % (sorted(got), sorted(want)),
                   "A9 forward dependence over the arm's MIR")
        zd = set(dp.at_return((0, out_fields.index("zero_out")))) - {"F"}
        nd = set(dp.at_return((0, out_fields.index("negative_out")))) - {"F"}
        rd = set(dp.at_return((0, out_fields.index("output")))) - {"F"}
        chk.ob("zn-from-result/%s" % name, zd == rd and nd == rd,
               "zero and negative outputs depend on exactly what the result depends on", where,
               "zero: %s negative: %s result: %s" % (sorted(zd), sorted(nd), sorted(rd)))
        # ---- 2. shape facts ----
        full, bad = alu(vi, U8, U8, BOOL)
        chk.ob("total/%s" % name, full is not None, "the function cannot panic or overflow for any operands", where,
               "%s" % bad[:2])
        if full is None:
            continue
        if "carry_const" in row:
            chk.ob("carry-const/%s" % name, full["carry_out"] == int(row["carry_const"]),
                   "carry-out is the documented constant", where, "carry-out: %r" % (full["carry_out"],))
        if "result_const" in row:
            chk.ob("result-const/%s" % name, full["output"] == row["result_const"], "the result is the documented constant",
                   where, "result: %r" % (full["output"],))
        if "result_is" in row:
            a_in = Opaque("A") if row["result_is"] == "A" else U8
            b_in = Opaque("B") if row["result_is"] == "B" else U8
            r2, _ = alu(vi, a_in, b_in, BOOL)
            chk.ob("pass-through/%s" % name, r2 is not None and r2["output"] == Opaque(row["result_is"]),
                   "the result is the documented input, unchanged", where, "result: %r" % (r2 and r2["output"],))
        if name in ("LSR", "RR", "RRC", "ASR"):
            for cell, cname, want in ((EVEN, "even", 0), (ODD, "odd", 1)):
                r2, _ = alu(vi, cell, U8, BOOL)
                chk.ob("bit0-to-carry/%s/%s" % (name, cname), r2 is not None and r2["carry_out"] == want,
                       "bit 0 of A goes to carry", where, "A %s: carry-out %r" % (cname, r2 and r2["carry_out"]))
        def within(v, cell):
            vs = D.values(v) if D.is_scalar(v) else None
            return vs is not None and all(x in cell for x in vs)
        if name == "LSR":
            chk.ob("bit7/LSR", within(full["output"], LOW), "LSR clears the highest bit", where, "")
        if name == "RR":
            for cell, cname, want in ((EVEN, "even", LOW), (ODD, "odd", HIGH)):
                r2, _ = alu(vi, cell, U8, BOOL)
                chk.ob("bit7/RR/%s" % cname, r2 is not None and within(r2["output"], want),
                       "RR moves bit 0 of A into the highest bit of the result", where,
                       "A %s: result within %s: %s" % (cname, "0x80-0xff" if want is HIGH else "0x00-0x7f",
                                                       r2 is not None and within(r2["output"], want)))
        if name == "RRC":
            for cin, want in ((0, LOW), (1, HIGH)):
                r2, _ = alu(vi, U8, U8, cin)
                chk.ob("bit7/RRC/cin%d" % cin, r2 is not None and within(r2["output"], want),
                       "RRC moves the carry input into the highest bit of the result", where, "")
        if name == "ASR":
            for cell, cname, want in ((LOW, "positive", LOW), (HIGH, "negative", HIGH)):
                r2, _ = alu(vi, cell, U8, BOOL)
                chk.ob("bit7/ASR/%s" % cname, r2 is not None and within(r2["output"], want),
                       "ASR keeps the highest bit", where, "")
        if name in ("BH", "INVC"):
            for cin in (0, 1):
                r2, _ = alu(vi, U8, U8, cin)
                want = cin if name == "BH" else 1 - cin
                chk.ob("carry/%s/cin%d" % (name, cin), r2 is not None and r2["carry_out"] == want,
                       "the carry input is %s" % ("held" if name == "BH" else "inverted"), where,
                       "carry-out %r" % (r2 and r2["carry_out"],))
        if name == "ADDH":
            r2, _ = alu(vi, U8, U8, 1)
            chk.ob("carry-hold/ADDH", r2 is not None and r2["carry_out"] == 1,
                   "the carry-holding add keeps a set carry input (carry-out = carry-in or overflow)", where,
                   "with carry-in set: carry-out %r" % (r2 and r2["carry_out"],))
            r2, _ = alu(vi, 0, 0, 0)
        if name in ("B", "SETC", "BH", "INVC"):
            # Z/N derivation observed through the pass-B functions on cells of B
            for cell, cname, z, n in ((0, "zero", 1, 0), (frozenset(range(1, 128)), "small", 0, 0), (HIGH, "high", 0, 1)):
                r2, _ = alu(vi, U8, cell, BOOL)
                chk.ob("zn-cells/%s/%s" % (name, cname),
                       r2 is not None and r2["zero_out"] == z and r2["negative_out"] == n,
                       "zero is set exactly for result 0 and negative exactly for bit 7", where,
                       "B %s: zero %r negative %r" % (cname, r2 and r2["zero_out"], r2 and r2["negative_out"]))
    chk.assume("the arithmetic of the adds (sum modulo 256, carry polarity of ADDS/ADCS) is not decided by this check")
    chk.sample({"function": "RRC", "result depends on": ["A", "Cin"], "carry depends on": ["A"]})
