"""C08 - the ALU computes its documented function and flags.

The pointwise numeric table (2 097 152 points) is not decided as such.  Decided:
  1. dependence sets (A9): for each of the 16 functions, result and carry-out
     depend on exactly the documented subset of (A, B, carry-in);
  2. shape facts by abstract interpretation (A4) on sub-domains selected by the
     bit the documentation talks about (no enumeration of operand values):
     constant outputs, pass-through identity, bit 0 -> carry for the four
     shifts, the value of bit 7 for LSR/RR/RRC/ASR, carry hold/invert for BH/
     INVC, carry-in forcing carry-out for the carry-holding add;
  3. Z/N derivation: zero/negative outputs are derived from the value that
     becomes the result (dependence + cells through the pass-B function);
  4. arithmetic on a partition of the operand space into ~5600 cells on which the
     documented carry-out is constant: result set, carry, zero and negative sets
     per cell (adders: A fixed x B interval on one side of the carry threshold).
"""
import multiprocessing
import os

from .. import absint, shapes, mirutil, spec, depend
from .. import domain as D
from ..domain import Agg, En, Ref, TOP, BOT, Opaque
from ..facts import AnchorMissing

LEVEL = "other"
EXPLANATION = ("per-function dependence analysis on MIR + abstract interpretation on bit-defined sub-domains; "
               "the arithmetic itself (sums, carry polarity of the subtracting adds) is not decided")

FN = "L::machine::alu::AluOutput::from_input"
ALUSEL = "L::machine::alu::AluSelect"
INP = "L::machine::alu::AluInput"
OUT = "L::machine::alu::AluOutput"

EVEN = frozenset(range(0, 256, 2))
ODD = frozenset(range(1, 256, 2))
LOW = frozenset(range(0, 128))
HIGH = frozenset(range(128, 256))
U8 = frozenset(range(256))
BOOL = frozenset((0, 1))


CELL_DOC = {"ADD": "A+B, carry = sum exceeds 8 bits", "ADDH": "A+B, carry = carry-in or sum exceeds 8 bits",
            "ADDS": "A+B+1, carry inverted", "ADC": "A+B+carry-in", "ADCS": "A+B+inverted carry-in, carry inverted",
            "NOR": "not(A or B), carry clear", "LSR": "A>>1, bit 0 to carry", "RR": "A>>1 with bit 0 on top, bit 0 to carry",
            "RRC": "A>>1 with carry-in on top, bit 0 to carry", "ASR": "A>>1 keeping bit 7, bit 0 to carry"}
_CELL = None
_TIER = "quick"


def _alu_cell(I, vi, a, b, cin):
    p, body, in_fields, out_fields, names = _CELL
    st = absint.State()
    I.heap_counter = 0
    ia = I.new_alloc(st, "in", Agg([{"input_a": a, "input_b": b, "carry_in": cin}[f] for f in in_fields]))
    fa = I.new_alloc(st, "fn", En({vi: ()}))
    I.events.clear()
    r = I.run_body(body, [Ref(ia), Ref(fa)], st, 0)
    bad = [e for e in I.events if e.kind in ("unknown_extern", "wild_write", "havoc", "panic")
           or (e.kind == "assert" and e.info["may_fail"])]
    if not isinstance(r, Agg) or bad:
        return None
    return {f: r.f[i] for i, f in enumerate(out_fields)}


def _vals(v):
    if isinstance(v, bool):
        return {int(v)}
    if isinstance(v, int):
        return {v}
    if D.is_scalar(v):
        vs = D.values(v)
        return set(vs) if vs is not None else None
    return None


def _cmp(r, outs, carries, what):
    if r is None:
        return "%s: not analysable" % what
    exp = {"output": set(outs), "carry_out": set(carries), "zero_out": {int(o == 0) for o in outs},
           "negative_out": {int(o >= 128) for o in outs}}
    for f, want in exp.items():
        got = _vals(r[f])
        if got != want:
            return "%s: %s is %s, documented %s" % (what, f, _short(got), _short(want))
    return None


def _short(s):
    if s is None:
        return "unknown"
    l = sorted(s)
    return "{%s}" % ", ".join("%#x" % x for x in l) if len(l) <= 6 else "{%#x..%#x, %d values}" % (l[0], l[-1], len(l))


def _cell_job(job):
    kind, name, arg = job
    p, body, in_fields, out_fields, names = _CELL
    vi = names.index(name)
    I = absint.Interp(p)
    n = 0
    bad = []
    if kind == "adder":
        a = arg
        for cin in (0, 1):
            k = {"ADD": 0, "ADDH": 0, "ADDS": 1, "ADC": cin, "ADCS": 1 - cin}[name]
            inv = name in ("ADDS", "ADCS")
            t = 256 - a - k
            base_cells = [(0, min(t - 1, 255), 0), (max(t, 0), 255, 1)]
            if _TIER == "thorough":
                # finer partition: every cell cut into pieces of at most 16 values of B
                fine = []
                for lo, hi, over in base_cells:
                    x = lo
                    while x <= hi:
                        fine.append((x, min(x + 15, hi), over))
                        x += 16
                base_cells = fine
            for lo, hi, over in base_cells:
                if lo > hi:
                    continue
                c = over
                if name == "ADDH":
                    c = 1 if cin else over
                if inv:
                    c = 1 - over
                # the domain is non-relational: where an intermediate carry flips inside the cell the abstract
                # result is imprecise; such a cell is bisected until the result is exact (at worst a single B)
                work = [(lo, hi)]
                while work:
                    l2, h2 = work.pop()
                    cell = frozenset(range(l2, h2 + 1)) if l2 != h2 else l2
                    outs = {(a + b + k) & 0xFF for b in range(l2, h2 + 1)}
                    r = _alu_cell(I, vi, a, cell, cin)
                    n += 1
                    m = _cmp(r, outs, {c}, "A=%#04x, B in %#04x..%#04x, carry-in %d" % (a, l2, h2, cin))
                    if m and l2 < h2:
                        mid = (l2 + h2) // 2
                        work.append((l2, mid))
                        work.append((mid + 1, h2))
                    elif m:
                        bad.append(m)
    elif kind == "nor":
        a = arg
        r = _alu_cell(I, vi, a, U8, BOOL)
        n += 1
        m = _cmp(r, {(~(a | b)) & 0xFF for b in range(256)}, {0}, "A=%#04x, B any" % a)
        if m:
            bad.append(m)
    else:
        blk = arg
        subs = [(16 * blk, 16 * blk + 16)] if _TIER != "thorough" else [(16 * blk + 4 * q, 16 * blk + 4 * q + 4) for q in range(4)]
        for par, (s_lo, s_hi) in [(par_, sub_) for par_ in (0, 1) for sub_ in subs]:
            cell = frozenset(x for x in range(s_lo, s_hi) if x & 1 == par)
            for cin in (0, 1):
                f = {"LSR": lambda x: x >> 1, "RR": lambda x: (x >> 1) | ((x & 1) << 7),
                     "RRC": lambda x: (x >> 1) | (cin << 7), "ASR": lambda x: (x >> 1) | (x & 0x80)}[name]
                r = _alu_cell(I, vi, cell, U8, cin)
                n += 1
                m = _cmp(r, {f(x) for x in cell}, {par}, "A in %#04x..%#04x with bit0=%d, carry-in %d" % (s_lo, s_hi - 1, par, cin))
                if m:
                    bad.append(m)
    return n, bad


def run(ctx):
    p = ctx.p
    chk = ctx.chk
    tab = spec.load("alu")
    body = p.need_body(FN)
    sel_t = p.need_type(ALUSEL)
    names = [v["n"] for v in sel_t["variants"]]
    chk.ob("functions/sixteen", sorted(names) == sorted(tab.keys()), "the ALU has exactly the 16 documented functions",
           sel_t["file"], "variants: %s" % names)
    in_fields = p.field_names(INP)
    out_fields = p.field_names(OUT)
    for f in ("input_a", "input_b", "carry_in"):
        if f not in in_fields:
            raise AnchorMissing("AluInput::%s" % f)
    for f in ("output", "carry_out", "zero_out", "negative_out"):
        if f not in out_fields:
            raise AnchorMissing("AluOutput::%s" % f)
    lab = {"input_a": "A", "input_b": "B", "carry_in": "Cin"}

    def roots(place):
        if place["l"] == 1 and len(place["p"]) >= 2 and place["p"][0] == "*" and isinstance(place["p"][1], dict):
            n = place["p"][1].get("n")
            if n in lab:
                return lab[n]
        if place["l"] == 2:
            return "F"
        return None

    # locate the dispatch switch on the function discriminant
    sw_bb = None
    for bb, blk in enumerate(body.blocks):
        t = blk["t"]
        if t["k"] == "switch" and len(t["vals"]) >= 15:
            sw_bb = bb
    if sw_bb is None:
        raise AnchorMissing("dispatch on AluSelect in from_input (no 16-way switch)")
    sw = body.blocks[sw_bb]["t"]
    discr = {v.get("discr", i): i for i, v in enumerate(sel_t["variants"])}
    targets = {}
    for v, tgt in sw["vals"]:
        if v in discr:
            targets[discr[v]] = tgt
    missing = [names[i] for i in range(len(names)) if i not in targets]
    if len(missing) == 1:
        targets[names.index(missing[0])] = sw["else"]

    I = absint.Interp(p)

    def alu(vi, a, b, cin):
        st = absint.State()
        I.heap_counter = 0
        ia = I.new_alloc(st, "in", Agg([{"input_a": a, "input_b": b, "carry_in": cin}[f] for f in in_fields]))
        fa = I.new_alloc(st, "fn", En({vi: ()}))
        I.events.clear()
        r = I.run_body(body, [Ref(ia), Ref(fa)], st, 0)
        bad = [e for e in I.events if e.kind in ("unknown_extern", "wild_write", "havoc", "panic")
               or (e.kind == "assert" and e.info["may_fail"])]
        if not isinstance(r, Agg) or bad:
            return None, bad
        return {f: r.f[i] for i, f in enumerate(out_fields)}, bad

    for vi, name in enumerate(names):
        row = tab.get(name)
        if row is None:
            continue
        where = "%s:%d (arm %s)" % (body.file, body.line, name)
        if vi not in targets:
            chk.fail("arm/%s" % name, "fail-closed: no arm found for the function", where, "", status="anchor-missing")
            continue
        # ---- 1. dependence ----
        dp = depend.Deps(body, roots, prune={sw_bb: {targets[vi]}})
        for fld, key in (("output", "result"), ("carry_out", "carry")):
            got = set(dp.at_return((0, out_fields.index(fld)))) - {"F"}
            want = set(row[key])
            chk.ob("depends/%s/%s" % (name, key), got == want,
                   "the %s of %s depends on exactly the documented inputs" % (key, name), where,
                   "depends on %s, documented %s" % (sorted(got), sorted(want)),
                   "A9 forward dependence over the arm's MIR")
        zd = set(dp.at_return((0, out_fields.index("zero_out")))) - {"F"}
        nd = set(dp.at_return((0, out_fields.index("negative_out")))) - {"F"}
        rd = set(dp.at_return((0, out_fields.index("output")))) - {"F"}
        chk.ob("zn-from-result/%s" % name, zd == rd and nd == rd,
               "zero and negative outputs depend on exactly what the result depends on", where,
               "zero: %s negative: %s result: %s" % (sorted(zd), sorted(nd), sorted(rd)))
        # ---- 2. shape facts ----
        full, bad = alu(vi, U8, U8, BOOL)
        chk.ob("total/%s" % name, full is not None, "the function cannot panic or overflow for any operands", where,
               "%s" % bad[:2])
        if full is None:
            continue
        if "carry_const" in row:
            chk.ob("carry-const/%s" % name, full["carry_out"] == int(row["carry_const"]),
                   "carry-out is the documented constant", where, "carry-out: %r" % (full["carry_out"],))
        if "result_const" in row:
            chk.ob("result-const/%s" % name, full["output"] == row["result_const"], "the result is the documented constant",
                   where, "result: %r" % (full["output"],))
        if "result_is" in row:
            a_in = Opaque("A") if row["result_is"] == "A" else U8
            b_in = Opaque("B") if row["result_is"] == "B" else U8
            r2, _ = alu(vi, a_in, b_in, BOOL)
            chk.ob("pass-through/%s" % name, r2 is not None and r2["output"] == Opaque(row["result_is"]),
                   "the result is the documented input, unchanged", where, "result: %r" % (r2 and r2["output"],))
        if name in ("LSR", "RR", "RRC", "ASR"):
            for cell, cname, want in ((EVEN, "even", 0), (ODD, "odd", 1)):
                r2, _ = alu(vi, cell, U8, BOOL)
                chk.ob("bit0-to-carry/%s/%s" % (name, cname), r2 is not None and r2["carry_out"] == want,
                       "bit 0 of A goes to carry", where, "A %s: carry-out %r" % (cname, r2 and r2["carry_out"]))
        def within(v, cell):
            vs = D.values(v) if D.is_scalar(v) else None
            return vs is not None and all(x in cell for x in vs)
        if name == "LSR":
            chk.ob("bit7/LSR", within(full["output"], LOW), "LSR clears the highest bit", where, "")
        if name == "RR":
            for cell, cname, want in ((EVEN, "even", LOW), (ODD, "odd", HIGH)):
                r2, _ = alu(vi, cell, U8, BOOL)
                chk.ob("bit7/RR/%s" % cname, r2 is not None and within(r2["output"], want),
                       "RR moves bit 0 of A into the highest bit of the result", where,
                       "A %s: result within %s: %s" % (cname, "0x80-0xff" if want is HIGH else "0x00-0x7f",
                                                       r2 is not None and within(r2["output"], want)))
        if name == "RRC":
            for cin, want in ((0, LOW), (1, HIGH)):
                r2, _ = alu(vi, U8, U8, cin)
                chk.ob("bit7/RRC/cin%d" % cin, r2 is not None and within(r2["output"], want),
                       "RRC moves the carry input into the highest bit of the result", where, "")
        if name == "ASR":
            for cell, cname, want in ((LOW, "positive", LOW), (HIGH, "negative", HIGH)):
                r2, _ = alu(vi, cell, U8, BOOL)
                chk.ob("bit7/ASR/%s" % cname, r2 is not None and within(r2["output"], want),
                       "ASR keeps the highest bit", where, "")
        if name in ("BH", "INVC"):
            for cin in (0, 1):
                r2, _ = alu(vi, U8, U8, cin)
                want = cin if name == "BH" else 1 - cin
                chk.ob("carry/%s/cin%d" % (name, cin), r2 is not None and r2["carry_out"] == want,
                       "the carry input is %s" % ("held" if name == "BH" else "inverted"), where,
                       "carry-out %r" % (r2 and r2["carry_out"],))
        if name == "ADDH":
            r2, _ = alu(vi, U8, U8, 1)
            chk.ob("carry-hold/ADDH", r2 is not None and r2["carry_out"] == 1,
                   "the carry-holding add keeps a set carry input (carry-out = carry-in or overflow)", where,
                   "with carry-in set: carry-out %r" % (r2 and r2["carry_out"],))
            r2, _ = alu(vi, 0, 0, 0)
        if name in ("B", "SETC", "BH", "INVC"):
            # Z/N derivation observed through the pass-B functions on cells of B
            for cell, cname, z, n in ((0, "zero", 1, 0), (frozenset(range(1, 128)), "small", 0, 0), (HIGH, "high", 0, 1)):
                r2, _ = alu(vi, U8, cell, BOOL)
                chk.ob("zn-cells/%s/%s" % (name, cname),
                       r2 is not None and r2["zero_out"] == z and r2["negative_out"] == n,
                       "zero is set exactly for result 0 and negative exactly for bit 7", where,
                       "B %s: zero %r negative %r" % (cname, r2 and r2["zero_out"], r2 and r2["negative_out"]))
    # ---- 4. arithmetic on a partition of the operand space ----------------------------------
    # For the five adders the carry-out is constant on each side of the documented threshold
    # A + B + k >= 256; with A fixed the two cells are intervals of B.  The abstract result on each
    # cell must be: carry = the documented constant, result set = the documented sums of the cell,
    # zero/negative sets = those of that result set.  (Cells, not points: no operand pair is evaluated
    # on its own; equality of sets per cell is a necessary condition of the pointwise table.)
    global _CELL, _TIER
    _CELL = (p, body, in_fields, out_fields, names)
    _TIER = ctx.tier
    jobs = []
    for name in ("ADD", "ADDH", "ADDS", "ADC", "ADCS"):
        if name in names:
            for a in range(256):
                jobs.append(("adder", name, a))
    for a in range(256):
        jobs.append(("nor", "NOR", a))
    for name in ("LSR", "RR", "RRC", "ASR"):
        for blk in range(16):
            jobs.append(("shift", name, blk))
    with multiprocessing.get_context("fork").Pool(min(16, os.cpu_count() or 4)) as pool:
        results = pool.map(_cell_job, jobs, chunksize=16)
    ncells = 0
    per_fn = {}
    for (kind, name, arg), (n, bad) in zip(jobs, results):
        ncells += n
        e = per_fn.setdefault(name, [0, []])
        e[0] += n
        e[1].extend(bad)
    for name, (n, bad) in sorted(per_fn.items()):
        chk.ob("cells/%s" % name, not bad,
               "on every cell of the operand partition the result set, carry-out, zero and negative outputs are those of the "
               "documented function (%s)" % CELL_DOC.get(name, ""), "%s (arm %s)" % (body.file, name),
               "; ".join(bad[:3]) or "%d cells" % n,
               "abstract interpretation per cell: A fixed, B an interval on one side of the carry threshold (adders); "
               "A fixed, B any (NOR); A in an aligned block of 16 with fixed parity (shifts)")
    chk.floor("operand-space cells", ncells, 5500 if ctx.tier != "thorough" else 40000)
    chk.assume("within a cell only the *set* of results is compared; a function that permutes results inside a cell "
               "would not be noticed (the dependence and pass-through clauses bound what such a function could look like)")
    chk.sample({"function": "RRC", "result depends on": ["A", "Cin"], "carry depends on": ["A"]})
