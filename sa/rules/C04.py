"""C04 - key interrupts are taken once, at an instruction boundary, transparently.

Decided (the part visible in the shape of the code and of the control store):
 1. only at a boundary: in every reachable control state the pending flip-flop /
    interrupt-enable inputs influence the next micro-address only where the
    not-taken successor is an instruction-fetch (DONE) word; the taken
    successor resets the instruction register;
 2. entry: for every instruction form, on every micro-path on which the
    interrupt is taken, the instruction's own effect is complete (equal to the
    reference semantics without the following fetch) and the entry routine
    then pushes the flag register and the address of the next instruction,
    clears IE (C/Z/N kept), continues at address 2 and touches nothing else;
 3. exactly once: the clock edge of a word that can take the branch leaves the
    flip-flop clear; every other edge keeps it; skipped edges (halt, memory
    wait) do not touch it;
 4. enable gating: the only assignment of Some to the flip-flop is in
    RawMachine::trigger_key_edge_interrupt under the MICR key-edge enable bit;
    with the bit clear the call leaves the flip-flop as it was; the bus never
    produces edge or level interrupts; MICR is written only by a bus write to
    0xF9 and by the resets;
 5. RETI pops PC then the flag register (restoring IE with the flags).
Not decided: equality of final states of interrupted and uninterrupted runs as
such (follows from 1-5 for routines that preserve registers, but is a statement
about executions), MISR status bits."""
import multiprocessing
import os

from .. import microsym as ms
from .. import spec, absint, step, pipeline, mirutil
from .. import domain as D
from ..domain import En, Agg, Ref, Opaque
from ..facts import AnchorMissing
from . import C01

LEVEL = "other"
EXPLANATION = ("micro-CFG analysis of where the interrupt inputs can influence sequencing, symbolic register-transfer "
               "evaluation of every interrupted micro-path, abstract interpretation of the flip-flop's writers and of the "
               "enable gate; equality of interrupted and uninterrupted executions is not decided as such")

RM = step.RM
TRIGGER = RM + "::trigger_key_edge_interrupt"
FF = "pending_edge_interrupt"
LV = "pending_level_interrupt"
NONE = En({0: ()})
SOME = En({1: (Agg(()),)})


_P = None


def _ff_word(a):
    """flip-flop and level input after one clock edge of control word a, from set / clear"""
    p = _P
    outs = {}
    for label, init in (("set", SOME), ("clear", NONE)):
        I = absint.Interp(p)
        ov = step.machine_overrides(p, a, "Running", False, Opaque("IR"), Opaque("LBR"),
                                    extra={FF: init, LV: NONE})
        st, ma, _ = step.run_edge(p, I, ov)
        ff = step.field(p, I, st, ma, FF)
        lv = step.field(p, I, st, ma, LV)
        outs[label] = (sorted(ff.vs) if isinstance(ff, En) else None, sorted(lv.vs) if isinstance(lv, En) else None)
    return a, outs


def interrupted_paths(g, b, second=None, maxlen=64):
    """micro-paths of the form on which the interrupt branch is taken, continued through the
    entry routine to the next fetch.  -> [(prefix_len, path, conds, ended)]"""
    res = {}
    for s0 in sorted(ms.dispatch_states(g, b)):
        stack = [(s0, (s0,), (), None)]
        while stack:
            s, path, conds, cut = stack.pop()
            a, i = s
            if a not in g.prog:
                res[(path, conds, cut)] = "unprogrammed"
                continue
            if a in g.done:
                if cut is not None:
                    res[(path, conds, cut)] = "done"
                continue
            if len(path) > maxlen:
                res[(path, conds, cut)] = "long"
                continue
            for pins, a2, i2 in g.succ(a, i):
                if g.is_load(a) and second is not None and cut is None and i2 != second:
                    continue
                t = (a2, i2)
                if ms.is_int_taken(pins):
                    if cut is not None:
                        res[(path + (t,), conds, cut)] = "nested"
                        continue
                    c = conds + tuple(sorted((k, v) for k, v in pins.items() if k not in ms.INT_INPUTS))
                    stack.append((t, path + (t,), c, len(path)))
                    continue
                if cut is not None and any(k in pins for k in ms.INT_INPUTS):
                    # the entry routine itself must not test the interrupt inputs again
                    if pins.get("IEF") == 1 and (pins.get("IFF1") == 1 or pins.get("LVL") == 1):
                        continue
                c = conds + tuple(sorted((k, v) for k, v in pins.items() if k not in ms.INT_INPUTS))
                if t in path:
                    if cut is not None:
                        res[(path + (t,), c, cut)] = "cycle"
                    continue
                stack.append((t, path + (t,), c, cut))
    return [(k[2], list(k[0]), dict(k[1]), v) for k, v in res.items()]


def run(ctx):
    from .. import wrappers
    wrappers.check(ctx, ["trigger_key_interrupt"])     # the outer Machine methods the callers use are the routines analysed below
    p, chk, g, mt = ctx.p, ctx.chk, ctx.graph, ctx.micro
    isa = spec.load("isa")
    sem = C01.load_sem()
    undefined = spec.expand_ranges(isa["undefined_first_bytes"]["ranges"])
    two_lo, two_hi = isa["two_byte"]["first_range"]
    def_second = sorted(spec.expand_ranges(isa["two_byte"]["second_ranges"]))
    err = isa["halting_first_bytes"]["error_stop"]
    pipeline.check(ctx)

    # ---- 1. where the interrupt inputs can influence sequencing ----------------------------
    seen, edges, bad = g.explore([(0, 0)], stop_at_done=False)
    sens = {}
    for s in seen:
        a, i = s
        if a not in g.prog:
            continue
        es = g.succ(a, i)
        if any(k in pins for pins, _, _ in es for k in ms.INT_INPUTS):
            sens[s] = es
    bad1 = []
    taken_words = set()
    for (a, i), es in sorted(sens.items()):
        nt = {(a2, i2) for pins, a2, i2 in es if not ms.is_int_taken(pins)}
        tk = {(a2, i2) for pins, a2, i2 in es if ms.is_int_taken(pins)}
        if not nt or not tk or not all(a2 in g.done for a2, _ in nt):
            bad1.append("%#x/ir=%#x: not-taken successors %s" % (a, i, sorted(hex(x) for x, _ in nt)))
        for a2, i2 in tk:
            taken_words.add(a2)
            if a2 not in g.prog or a2 in g.done:
                bad1.append("%#x/ir=%#x: taken successor %#x is not a word of an entry sequence" % (a, i, a2))
        # the decision must be exactly IEF and (IFF1 or LVL)
        for pins, a2, i2 in es:
            others = {k: v for k, v in pins.items() if k not in ms.INT_INPUTS}
            if others:
                bad1.append("%#x/ir=%#x: interrupt decision mixed with %s" % (a, i, others))
    chk.ob("boundary/only-before-a-fetch", not bad1,
           "the interrupt inputs (IE flag, pending flip-flop, level input) influence the next micro-address only in control "
           "states whose not-taken successor is an instruction-fetch word (where the taken successor leads is clause 2)",
           "control store + Signals::next_microprogram_address", "; ".join(bad1[:5]) or
           "%d of %d reachable control states test the interrupt inputs" % (len(sens), len(seen)),
           "exhaustive over reachable control states (micro-address x IR)")
    chk.floor("interrupt-sensitive control states", len(sens), 200)
    sens_words = {a for a, _ in sens}

    # ---- 3. exactly once: flip-flop after one clock edge, per control word ------------------
    bad3 = []
    nwords = 0
    global _P
    _P = p
    with multiprocessing.get_context("fork").Pool(min(16, os.cpu_count() or 4)) as pool:
        ffres = dict(pool.imap_unordered(_ff_word, mt.programmed(), chunksize=4))
    for a in mt.programmed():
        outs = ffres[a]
        nwords += 1
        # a word can take the branch iff AM1 selects the interrupt logic: those are the sensitive words
        w = mt.word[a]
        if a in sens_words:
            want = {"set": ([0], [0]), "clear": ([0], [0])}
        else:
            want = {"set": ([1], [0]), "clear": ([0], [0])}
        if outs != want:
            bad3.append("%#x (%s): flip-flop after the edge %s" % (a, "boundary word" if a in sens_words else "inner word", outs))
    chk.ob("once/flip-flop-per-word", not bad3,
           "the clock edge of a word that tests the interrupt leaves the pending flip-flop clear (so one key press enters the "
           "routine at most once); the edge of any other word keeps it (so it survives until the boundary); the level input "
           "stays clear", "raw/mod.rs fetch_interrupts / update_word, per control word", "; ".join(bad3[:4]) or
           "%d control words x {set, clear}" % nwords, "abstract interpretation of RawMachine::trigger_clock_edge per word")
    # skipped edges do not touch it
    bad3b = []
    for label, kw in (("halted", dict(state=["Stopped", "ErrorStopped"], wait=False)), ("memory wait", dict(state="Running", wait=True))):
        I = absint.Interp(p)
        ov = step.machine_overrides(p, None, kw["state"], kw["wait"], Opaque("IR"), Opaque("LBR"), extra={FF: SOME, LV: NONE})
        st, ma, _ = step.run_edge(p, I, ov)
        ff = step.field(p, I, st, ma, FF)
        if not (isinstance(ff, En) and set(ff.vs) == {1}):
            bad3b.append("%s: %r" % (label, ff))
    chk.ob("once/skipped-edges-keep", not bad3b, "a clock edge skipped because the machine is halted or waits for memory keeps "
           "the pending flip-flop", "raw/mod.rs RawMachine::trigger_clock_edge", "; ".join(bad3b))

    # ---- 4. enable gating ---------------------------------------------------------------
    ws = mirutil.field_writers(p, RM, FF)
    allowed = {TRIGGER: "sets under the enable bit",
               RM + "::cpu_reset": "clears",
               RM + "::new": "initialises to None",
               "L::machine::raw::MachineAfterInstructionUpdate::<'a>::fetch_interrupts": "keeps, or takes the bus's edge interrupt",
               "L::machine::raw::MachineAfterInterruptFetching::<'a>::update_word": "clears when sampled"}
    stray = sorted({w["body"] for w in ws if w["body"] not in allowed and not w["body"].startswith(TRIGGER)
                    and not any(w["body"].startswith(k + "::{closure") for k in allowed)})
    chk.ob("gate/writers", not stray and len(ws) >= 4,
           "the pending flip-flop is written only by the trigger, the reset, the constructor and the two pipeline stages",
           "writers of RawMachine::pending_edge_interrupt", "other writers: %s" % stray, "syntactic write sites over all MIR bodies")
    micr_t = "L::machine::bus::MICR"
    for label, micr, init, want in (("enable-clear/ff-clear", [v for v in range(256) if not v & 1], NONE, {0}),
                                    ("enable-clear/ff-set", [v for v in range(256) if not v & 1], SOME, {1}),
                                    ("enable-set", [v for v in range(256) if v & 1], NONE, {1})):
        I = absint.Interp(p)
        ov = step.machine_overrides(p, None, None, None, Opaque("IR"), Opaque("LBR"),
                                    extra={FF: init, LV: NONE, "bus.micr.bits": frozenset(micr)})
        st, ma, _ = step.run_method(p, I, TRIGGER, ov)
        ff = step.field(p, I, st, ma, FF)
        evs = [repr(e) for e in I.events if e.kind in step.BAD_EVENTS][:2]
        chk.ob("gate/trigger/%s" % label, isinstance(ff, En) and set(ff.vs) == want and not evs,
               "a key press sets the pending flip-flop exactly when MICR's key-edge enable bit (bit 0) is set and never clears it",
               "raw/mod.rs RawMachine::trigger_key_edge_interrupt",
               "flip-flop after the call: %r %s" % (ff, evs), "abstract interpretation with MICR restricted to the bit class")
    # the library-level trigger reaches the raw one
    mtrig = p.need_body("L::machine::Machine::trigger_key_interrupt")
    reach = mirutil.reachable_fns(p, ["L::machine::Machine::trigger_key_interrupt"])
    chk.ob("gate/public-trigger", TRIGGER in reach, "Machine::trigger_key_interrupt reaches the raw trigger",
           "machine/mod.rs", "reachable: %d functions" % len(reach))
    # the bus produces no interrupts of its own
    for fn_, what in (("L::machine::bus::Bus::take_edge_interrupt", "edge"), ("L::machine::bus::Bus::get_level_interrupt", "level")):
        I = absint.Interp(p)
        st = absint.State()
        from .. import shapes
        bus = shapes.build(p, "L::machine::bus::Bus", shapes.top_leaf, (), {})
        ba = I.new_alloc(st, "bus", bus)
        r = I.run_body(p.need_body(fn_), [Ref(ba, (), True)], st, 0)
        chk.ob("gate/bus-%s-none" % what, isinstance(r, En) and set(r.vs) == {0},
               "the bus never raises a %s interrupt (so the key is the only source)" % what, fn_, "returns %r" % (r,))
    mw = mirutil.field_writers(p, "L::machine::bus::Bus", "micr")
    mallowed = ("L::machine::bus::Bus::write", "L::machine::bus::Bus::new", "L::machine::bus::Bus::cpu_reset",
                "L::machine::bus::Bus::master_reset", "L::machine::bus::Bus::reset")
    mstray = sorted({w["body"] for w in mw if w["body"] not in mallowed})
    chk.ob("gate/micr-writers", not mstray and bool(mw), "MICR is written only by Bus::write and the resets",
           "writers of Bus::micr", "other writers: %s" % mstray)

    # "the program has enabled it": a store to 0xF9 leaves the key-edge enable exactly as bit 0 of the stored byte says, whatever
    # the other bits of the byte are (bits 6 and 7 have no meaning in the MICR; a byte with them set still enables the key)
    from .. import shapes as shapes_
    bad_en = []
    for b_ in range(256):
        Iw = absint.Interp(p)
        stw = absint.State()
        busv = shapes_.build(p, "L::machine::bus::Bus", shapes_.top_leaf, (), {})
        bw = Iw.new_alloc(stw, "bus", busv)
        Iw.events.clear()
        Iw.run_body(p.need_body("L::machine::bus::Bus::write"), [Ref(bw, (), True), 0xF9, b_], stw, 0)
        en_ = Iw.run_body(p.need_body("L::machine::bus::Bus::is_key_edge_int_enabled"), [Ref(bw, (), False)], stw, 0)
        evw = [repr(e)[:80] for e in Iw.events if e.kind in step.BAD_EVENTS and not e.in_log][:1]
        if en_ not in (b_ & 1, bool(b_ & 1)) or isinstance(en_, frozenset) or evw:
            bad_en.append("after storing %#04x: enabled = %r %s" % (b_, en_, evw))
    chk.ob("gate/enable-store", not bad_en,
           "after a program's store of byte b to 0xF9 the key interrupt is enabled exactly when bit 0 of b is set (all 256 bytes)",
           "bus.rs Bus::write / Bus::is_key_edge_int_enabled", "; ".join(bad_en[:3]) or "256 bytes",
           "constant propagation through Bus::write(0xF9, b) and the enable test on a bus with unknown contents")
    # ---- 2. entry routine on every interrupted path of every form ---------------------------
    nforms = 0
    npaths = 0
    untested = []

    def check_form(first, second):
        nonlocal nforms, npaths
        key = "%#04x" % first + ("/%#04x" % second if second is not None else "")
        probe = sem.expected(first, second, taken=True)
        if probe is None:
            return
        name = probe[1]
        where = "%s (%s) + interrupt entry, control store" % (key, name)
        ipaths = interrupted_paths(g, first, second)
        if probe[0].skip_values:
            # MUL/DIV: the loop makes path enumeration unbounded; the entry routine is the same words
            # (checked through the other forms); here: the branch exists only after the delivering word
            return
        nforms += 1
        ends = {e for _, _, _, e in ipaths}
        if not ipaths:
            # the form never tests the interrupt inputs (EI, DI, RETI today): a pending interrupt waits
            # for the boundary of the following instruction, which is still "between two instructions"
            untested.append(key)
            return
        chk.ob("entry/%s/paths" % key, ends == {"done"},
               "with IE set and the flip-flop pending, every micro-path of the form ends in the entry routine and the next fetch",
               where, "path endings: %s" % sorted(ends))
        for cut, path, conds, ended in ipaths:
            if ended != "done":
                continue
            npaths += 1
            pre = ms.run_path(mt, path[:cut])
            full = ms.run_path(mt, path)
            taken = C01.jr_taken(first, conds) if name == "JR" else None
            rs, _ = sem.expected(first, second, taken=taken, fetch=False)
            problems = []
            # (a) the instruction is complete at the branch
            for r in (0, 1, 2, 3, 5):
                if C01.canon(pre.regs[r]) != C01.canon(rs.regs[r]):
                    problems.append("before entry %s = %r, expected %r" % (mt.regnames[r], pre.regs[r], rs.regs[r]))
            if C01.canon(pre.writes) != C01.canon(rs.writes):
                problems.append("before entry bus writes %r, expected %r" % (pre.writes, rs.writes))
            fok, fdet = C01.flags_ok(rs.flags, pre, sem)
            if not fok:
                problems.append("before entry " + fdet)
            # (b) the entry routine
            fr = pre.flags.as_byte()
            sp1 = sem.dec(pre.regs[5])
            sp2 = sem.dec(sp1)
            want_w = list(pre.writes) + [(sp1, fr), (sp2, pre.regs[3])]
            if C01.canon(full.writes) != C01.canon(want_w):
                problems.append("entry pushes %r, expected flag register then next-instruction address: %r"
                                % (full.writes[len(pre.writes):], want_w[len(pre.writes):]))
            if C01.canon(full.regs[5]) != C01.canon(sp2):
                problems.append("SP = %r, expected %r" % (full.regs[5], sp2))
            for r in (0, 1, 2):
                if C01.canon(full.regs[r]) != C01.canon(pre.regs[r]):
                    problems.append("%s changed by the entry routine: %r" % (mt.regnames[r], full.regs[r]))
            if C01.canon(full.regs[3]) != C01.canon(("alu", "ADD", ms.const(2), ms.const(1))):
                problems.append("PC after the first fetch of the routine = %r, expected 2+1" % (full.regs[3],))
            if not any(ms.is_const(a_) == 2 for a_, _ in full.reads[len(pre.reads):]):
                problems.append("no fetch at address 2")
            f = full.flags
            okf = f.c is None and f.z is None and f.n is None and isinstance(f.base, ms.Bits)
            if okf:
                x, y = ms.unify(f.base, ms.as_bits(fr))
                okf = all(x.tables[k] == y.tables[k] for k in range(3)) and set(x.tables[3]) == {0}
            if not okf:
                problems.append("flags after entry %r, expected C/Z/N of %r with IE clear" % (f, fr))
            chk.ob("entry/%s/%s" % (key, C01._ck(conds)), not problems,
                   "taken between two instructions: the instruction's effect is complete, then FR and the address of the next "
                   "instruction are pushed, IE is cleared, execution continues at address 2 and nothing else changes", where,
                   "; ".join(problems)[:700] if problems else "path %s" % [hex(a) for a, _ in path],
                   "symbolic register-transfer evaluation of %d control words" % len(path))

    for first in range(1, 256):
        if first == err or first in undefined:
            continue
        if first in (isa["halting_first_bytes"].get("stop"),):
            continue
        if two_lo <= first <= two_hi:
            for second in def_second:
                check_form(first, second)
        else:
            check_form(first, None)
    chk.note("forms that never test the interrupt inputs (a pending interrupt waits for the next instruction's boundary): %s" % untested)
    chk.floor("instruction forms with interrupted paths", nforms, 1400)
    chk.floor("interrupted micro-paths evaluated", npaths, 1400)

    # MUL/DIV: the only interrupt-sensitive words of the routine are its delivering words
    for first in list(range(0xB0, 0xD0)):
        seenr = set()
        stack = list(ms.dispatch_states(g, first))
        sensr = set()
        while stack:
            s_ = stack.pop()
            if s_ in seenr:
                continue
            seenr.add(s_)
            if s_[0] in g.done or s_[0] not in g.prog:
                continue
            for pins, a2, i2 in g.succ(*s_):
                if any(k in pins for k in ms.INT_INPUTS):
                    sensr.add(s_)
                if not ms.is_int_taken(pins):
                    stack.append((a2, i2))
        okl = bool(sensr) and all(s_ in sens for s_ in sensr)
        chk.ob("entry/%#04x/loop-boundary" % first, okl,
               "MUL/DIV test the interrupt only in a word whose not-taken successor is the next fetch (clause 1 applies)",
               "%#04x, control store" % first, "sensitive states: %s" % sorted((hex(a), i) for a, i in sensr))

    # ---- 5. RETI -----------------------------------------------------------------------------
    for first in range(0x2C, 0x30):
        for path, conds, ended in ms.instruction_paths(g, first):
            st_ = ms.run_path(mt, path)
            sp = ms.sym("R5")
            pc = ("mem", sp, 0)
            fl = ("mem", sem.inc(sp), 0)
            ok = (ended == "done" and C01.canon(st_.regs[5]) == C01.canon(sem.inc(sem.inc(sp)))
                  and C01.canon(st_.regs[3]) == C01.canon(sem.inc(pc)) and not st_.writes
                  and st_.flags.c is None and st_.flags.z is None and st_.flags.n is None
                  and C01.canon(st_.flags.base) == C01.canon(fl)
                  and all(st_.regs[r] == ms.sym("R%d" % r) for r in (0, 1, 2)))
            chk.ob("reti/%#04x" % first, ok,
                   "RETI pops the return address, then the flag register (IE restored with it); SP+2; nothing else changes",
                   "%#04x (RETI), control store" % first,
                   "PC=%r SP=%r flags=%r writes=%r" % (st_.regs[3], st_.regs[5], st_.flags, st_.writes))
    chk.assume("the interrupt routine itself is the program's; 'transparent' is decided as: entry and RETI touch only SP, PC, FR "
               "and the two stack cells, and the interrupted instruction is complete")
    chk.assume("level and bus edge interrupts do not exist in this emulator (Bus::get_level_interrupt / take_edge_interrupt return None)")
    chk.sample({"form": "0x69 ADD R1,R2 interrupted", "expected": "R1 := ADD(R1,R2), flags from it; then [SP-1] := FR, [SP-2] := PC+1 "
                "(address of the next instruction), IE := 0, PC := 2"})
