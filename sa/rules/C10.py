"""C10 - bus address map: RAM, I/O registers and ports never alias or leak.

The address space [0,255] is partitioned by the constants the decoders compare
the address with; Bus::write and Bus::read are abstractly interpreted (A4) once
per cell with the written byte and the whole bus unknown.  Per cell the mod-set
(write) and the returned storage location (read) are compared with
spec/address_map.toml.  RAM identity (index = address, value = byte) is decided
by def-use chains in the MIR of the two decoders (A9)."""
from .. import absint, step, shapes, mirutil, spec, harness
from .. import domain as D
from ..domain import Agg, En, Ref, TOP, BOT, Rng, Opaque, ArrS, Arr, Fl
from ..facts import AnchorMissing

LEVEL = "proof"
EXPLANATION = ("decoder-constant partition of the address space + abstract interpretation of Bus::write/Bus::read "
               "per cell + def-use identity of the RAM index/value + writer index of the register fields")

BUS = "L::machine::bus::Bus"


def cmp_constants(body):
    """integer constants the body compares something with"""
    out = set()
    for blk in body.blocks:
        for s in blk["s"]:
            if s["k"] == "assign" and s["r"]["k"] == "bin" and s["r"]["op"] in D._CMP:
                for o in (s["r"]["a"], s["r"]["b"]):
                    c = mirutil.const_of(o)
                    if c is not None:
                        out.add(c)
        t = blk["t"]
        if t["k"] == "switch":
            for v, _ in t["vals"]:
                out.add(v)
    return out


def cells_from(consts):
    cuts = {0, 256}
    for c in consts:
        if 0 <= c <= 255:
            cuts.add(c)
            cuts.add(c + 1)
    cs = sorted(cuts)
    return [(a, b - 1) for a, b in zip(cs, cs[1:]) if a <= 255]


def opaque_bus(p):
    def leaf(path, ty):
        return Opaque(".".join(str(x) for x in path))
    return shapes.build(p, BUS, leaf)


concrete_values = []


def concrete_bus(p):
    """a bus whose u8 registers hold pairwise different constants (floats and wider integers stay unknown)"""
    del concrete_values[:]

    def leaf(path, ty):
        if ty == "u8":
            v = 0x11 + 0x0D * len(concrete_values)
            if v > 0xEE:
                return shapes.top_leaf(path, ty)
            concrete_values.append(v)
            return v
        return shapes.top_leaf(path, ty)
    ov = {"ram.0": ArrS(D.norm_rng(0, 255), 240)}
    return shapes.build(p, BUS, leaf, (), ov)


def origin_of(body, local, depth=8):
    """follow copies / widening casts back: returns ('param', n) | ('expr', stmt)"""
    for _ in range(depth):
        if 1 <= local <= body.argc:
            return ("param", local)
        defs = mirutil.local_def_sites(body, local)
        if len(defs) != 1:
            return ("multi", defs)
        item = defs[0][2]
        if item.get("k") == "assign":
            r = item["r"]
            if r["k"] == "use":
                pl = mirutil.place_of(r["o"])
                if pl is not None and not pl["p"]:
                    local = pl["l"]
                    continue
            if r["k"] == "cast" and r["ck"].startswith("IntToInt") and absint._widening(r["from"], r["ty"]):
                pl = mirutil.place_of(r["o"])
                if pl is not None and not pl["p"]:
                    local = pl["l"]
                    continue
        return ("expr", item)
    return ("deep", None)


def run(ctx):
    from .. import wrappers
    wrappers.check(ctx, ["set_input_fc", "set_input_fd", "set_input_fe", "set_input_ff"])     # the outer Machine methods the callers use are the routines analysed below
    p = ctx.p
    chk = ctx.chk
    I = absint.Interp(p)
    amap = spec.load("address_map")["range"]
    wb = p.need_body(BUS + "::write")
    rb = p.need_body(BUS + "::read")
    consts = cmp_constants(wb) | cmp_constants(rb)
    cells = cells_from(consts)
    chk.floor("decoder comparison constants", len([c for c in consts if 0 <= c <= 255]), 16)
    chk.note("address cells from decoder constants: %s" % [("%#x-%#x" % c) for c in cells])

    def spec_for(lo, hi):
        for r in amap:
            if r["lo"] <= lo and hi <= r["hi"]:
                return r
        return None

    covered = set()
    bt = p.need_type(BUS)
    ram_idx = p.field_index(BUS, "ram")
    for (lo, hi) in cells:
        sp = spec_for(lo, hi)
        name = "%#04x-%#04x" % (lo, hi)
        if sp is None:
            chk.ob("cell-homogeneous/%s" % name, False, "every decoder cell lies inside one row of the address map",
                   wb.loc(), "cell straddles rows of the address map")
            continue
        covered.update(range(lo, hi + 1))
        addr = D.norm_rng(lo, hi)
        # ---- write ----
        st = absint.State()
        I.heap_counter = 0
        ba = I.new_alloc(st, "machine", opaque_bus(p))   # named 'machine' so the write log applies
        I.events.clear()
        r = I.run_body(wb, [Ref(ba, (), True), addr, Opaque("BYTE")], st, 0)
        written = set()
        for e in I.events:
            if e.kind == "write" and e.info[0] == ba:
                written.add(shapes.name_path(p, BUS, e.info[1]))
        bad = [e for e in I.events if e.kind in step.BAD_EVENTS and not e.in_log]
        fails = [e for e in I.events if (e.kind == "assert" and e.info["may_fail"]) or e.kind == "panic"]
        allowed = sp["write"]

        def ok_w(w):
            return any(w == a or w.startswith(a + ".") or w.startswith(a + "[") for a in allowed)
        extra = sorted(w for w in written if not ok_w(w))
        chk.ob("write/modset/%s" % name, not extra and not bad and r is not BOT,
               "a write to the address range modifies only the storage the address map assigns to it",
               wb.loc(), "written: %s; not allowed: %s; unanalysable: %s" % (sorted(written), extra, bad[:2]),
               "A4 on Bus::write with addr in [%#x,%#x], byte and bus unknown" % (lo, hi))
        for must in sp["write_must"]:
            got = any(w == must or w.startswith(must + ".") or w.startswith(must + "[") for w in written)
            chk.ob("write/reaches/%s/%s" % (name, must), got,
                   "a write to the address reaches the storage behind it", wb.loc(), "written: %s" % sorted(written))
        chk.ob("write/total/%s" % name, not fails, "the write decoder cannot panic on this cell", wb.loc(),
               "%s" % fails[:2])
        if sp.get("store"):
            # the stored value is the written byte (for flag registers: its defined bits), whatever was stored before
            def stored_after(a_, byte, concrete=False):
                st2 = absint.State()
                I.heap_counter = 0
                bus0 = concrete_bus(p) if concrete else opaque_bus(p)
                if sp["store"].startswith("ram["):
                    # RAM with one opaque value per cell (the summarised array cannot show which cell changed)
                    rf = list(bus0.f)
                    inner = rf[ram_idx]
                    n_cells = 240
                    cells_ = Arr([Opaque("ramcell.%d" % i_) for i_ in range(n_cells)])
                    rf[ram_idx] = Agg((cells_,)) if isinstance(inner, Agg) else cells_
                    bus0 = Agg(rf)
                b2 = I.new_alloc(st2, "machine", bus0)
                I.events.clear()
                I.run_body(wb, [Ref(b2, (), True), a_, byte], st2, 0)
                nm = sp["store"].replace("[addr]", "[%d]" % a_)
                path = []
                ty = BUS
                for part in nm.replace("]", "").replace("[", ".").split("."):
                    if part.isdigit():
                        if ty.startswith("L::"):
                            path.append(0)     # newtype around the array
                        path.append(("i", int(part)))
                        continue
                    base, _ = shapes.split_generic_args(ty)
                    idx = p.field_index(base, part)
                    path.append(idx)
                    ty = p.need_type(base)["variants"][0]["fields"][idx]["ty"]
                return I.load(st2, b2, tuple(path)), st2, b2
            for a_ in sorted({lo, hi, (lo + hi) // 2}):
                if sp["store_kind"] == "exact" and not sp["store"].startswith("ram["):
                    # a register outside the RAM: over a bus whose byte-sized registers all hold different values, every one of
                    # those values (and 0x00, 0xFF) is written; the register must hold the written byte afterwards.  (A write
                    # that is skipped because the register already holds the byte passes; one that is skipped because some
                    # OTHER register holds it does not.)
                    pool = sorted(set(concrete_values) | {0x00, 0xFF})
                    wrong = []
                    for byte_ in pool:
                        vb, _s, _b = stored_after(a_, byte_, concrete=True)
                        if vb != byte_:
                            wrong.append("write %#04x -> %s" % (byte_, D.short(vb)))
                    okv = not wrong
                    det = "; ".join(wrong[:3]) or "%d byte values over a bus of distinct register contents" % len(pool)
                elif sp["store_kind"] == "exact":
                    v, st2, b2 = stored_after(a_, Opaque("BYTE"))
                    okv = v == Opaque("BYTE")
                    det = "stored: %r" % (v,)
                    if sp["store"].startswith("ram[") and okv:
                        # ... and no other RAM cell changed
                        ramv = I.load(st2, b2, (ram_idx,))
                        if isinstance(ramv, Agg):
                            ramv = ramv.f[0]
                        changed = [i for i, x in enumerate(ramv.e) if i != a_ and x != Opaque("ramcell.%d" % i)] if isinstance(ramv, Arr) else ["?"]
                        okv = not changed
                        det += "; other cells changed: %s" % changed[:4]
                else:
                    v0, _, _ = stored_after(a_, 0x00)
                    vf, _, _ = stored_after(a_, 0xFF)
                    v5, _, _ = stored_after(a_, 0x15)
                    okv = (v0 == 0 and isinstance(vf, int) and not isinstance(vf, bool) and isinstance(v5, int) and v5 == (0x15 & vf))
                    det = "stored after writing 0x00 / 0xff / 0x15 over an unknown old value: %s / %s / %s" % (D.short(v0), D.short(vf), D.short(v5))
                    if "store_mask" in sp:
                        # the defined bits are the documented ones, and each of them is stored at its own position
                        # (two flags of the register type sharing a bit would lose one of them)
                        singles = {}
                        for k_ in range(8):
                            vk, _, _ = stored_after(a_, 1 << k_)
                            singles[k_] = vk
                        want_ = {k_: ((1 << k_) & sp["store_mask"]) for k_ in range(8)}
                        okv = okv and vf == sp["store_mask"] and singles == want_
                        det += "; all bits -> %s (documented mask %#04x); single bits -> %s" % (
                            D.short(vf), sp["store_mask"], {k_: D.short(v_) for k_, v_ in singles.items() if v_ != want_[k_]} or "each at its place")
                chk.ob("write/stores-byte/%s/%#04x" % (name, a_), okv,
                       "after a write the register holds the written byte (its defined bits), independent of what it held before",
                       wb.loc(), det, "A4 on Bus::write with the old contents opaque")
        # ---- read ----
        st = absint.State()
        I.heap_counter = 0
        ba = I.new_alloc(st, "machine", opaque_bus(p))
        I.events.clear()
        rv = I.run_body(rb, [Ref(ba, (), False), addr], st, 0)
        wr = [e for e in I.events if e.kind == "write" and e.info[0] == ba]
        bad = [e for e in I.events if e.kind in step.BAD_EVENTS and not e.in_log]
        fails = [e for e in I.events if (e.kind == "assert" and e.info["may_fail"]) or e.kind == "panic"]
        chk.ob("read/pure/%s" % name, not wr and not bad, "a read changes no state", rb.loc(),
               "writes: %s unanalysable: %s" % (wr[:2], bad[:2]))
        chk.ob("read/total/%s" % name, not fails and rv is not BOT, "the read decoder cannot panic on this cell",
               rb.loc(), "%s" % fails[:2])
        want = sp["read"]
        if want == "ram":
            ok = isinstance(rv, Opaque) and rv.tag.startswith("ram.")
        elif want.startswith("const:"):
            ok = rv == int(want.split(":")[1])
        elif want == "computed":
            ok = not isinstance(rv, Opaque) or rv.tag.startswith("board.")
        else:
            tag = want.replace("[", ".").replace("]", "")
            ok = isinstance(rv, Opaque) and rv.tag == tag
        chk.ob("read/source/%s" % name, ok, "a read of the address returns the storage the address map assigns to it",
               rb.loc(), "returns %r, expected %s" % (rv, want))
    chk.ob("cells-cover-address-space", covered == set(range(256)), "the decoder cells cover all 256 addresses",
           wb.loc(), "missing: %s" % sorted(set(range(256)) - covered)[:8])

    # ---- RAM identity (A9): index is the address, stored value is the byte ----
    ram_t = p.need_type("L::machine::bus::Ram")
    ram_len = None
    import re
    m = re.match(r"^\[u8; (\d+)\]$", ram_t["variants"][0]["fields"][0]["ty"])
    if m:
        ram_len = int(m.group(1))
    chk.ob("ram/length", ram_len == 0xF0, "the RAM has 240 bytes (addresses 0x00-0xEF)", ram_t["file"],
           "length %s" % ram_len)
    for body, kind in ((wb, "write"), (rb, "read")):
        found = 0
        for blk in body.blocks:
            for s in blk["s"]:
                if s["k"] != "assign":
                    continue
                places = []
                if kind == "write":
                    places = [s["p"]]
                else:
                    pl = mirutil.place_of(s["r"]["o"]) if s["r"]["k"] == "use" else None
                    if s["r"]["k"] == "ref":
                        pl = s["r"]["p"]
                    if pl is not None:
                        places = [pl]
                for pl in places:
                    idx = [pe for pe in pl["p"] if isinstance(pe, dict) and "i" in pe]
                    if not idx:
                        continue
                    lt = body.locals[pl["l"]]["ty"]
                    if "[u8; %d]" % (ram_len or 240) not in lt:
                        continue
                    found += 1
                    o = origin_of(body, idx[0]["i"])
                    chk.ob("ram/%s-index-is-address" % kind, o == ("param", 2),
                           "the RAM element accessed is indexed by the address argument itself (no arithmetic)",
                           "%s:%s" % (body.file, s["ln"]), "index origin: %r" % (o,))
                    if kind == "write":
                        src = mirutil.place_of(s["r"]["o"]) if s["r"]["k"] == "use" else None
                        ov = origin_of(body, src["l"]) if (src is not None and not src["p"]) else ("expr", s["r"])
                        chk.ob("ram/write-value-is-byte", ov == ("param", 3),
                               "the value stored in RAM is the byte argument itself", "%s:%s" % (body.file, s["ln"]),
                               "value origin: %r" % (ov,))
        chk.floor("RAM element accesses in Bus::%s" % kind, found, 1)

    # ---- the outside view agrees with the bus view ----------------------------------------------
    # setting an input register from outside is what the program reads at the like-named address, and the
    # output getters return what the program wrote to FE / FF
    MACH = "L::machine::Machine"
    for k, nm in enumerate(("fc", "fd", "fe", "ff")):
        I2 = absint.Interp(p)
        st2 = absint.State()
        m = shapes.build(p, MACH, lambda path, ty: Opaque(".".join(str(x) for x in path)))
        ma = I2.new_alloc(st2, "machine", m)
        I2.run_body(p.need_body("%s::set_input_%s" % (MACH, nm)), [Ref(ma, (), True), Opaque("V")], st2, 0)
        bus_path = (p.field_index(MACH, "raw"), p.field_index("L::machine::raw::RawMachine", "bus"))
        got = [I2.run_body(rb, [Ref(ma, bus_path, False), 0xFC + j], st2, 0) for j in range(4)]
        ok = all((g == Opaque("V")) == (j == k) for j, g in enumerate(got))
        chk.ob("outside/input-%s" % nm, ok,
               "Machine::set_input_%s is what a program reads at %#04x (and at no other input address)" % (nm, 0xFC + k),
               p.need_body("%s::set_input_%s" % (MACH, nm)).loc(), "reads of 0xfc..0xff afterwards: %s" % got)
    for k, nm in enumerate(("fe", "ff")):
        I2 = absint.Interp(p)
        st2 = absint.State()
        ba2 = I2.new_alloc(st2, "machine", opaque_bus(p))
        I2.run_body(wb, [Ref(ba2, (), True), 0xFE + k, Opaque("V")], st2, 0)
        got = [I2.run_body(p.need_body("%s::output_%s" % (BUS, g_)), [Ref(ba2, (), False)], st2, 0) for g_ in ("fe", "ff")]
        ok = all((g == Opaque("V")) == (j == k) for j, g in enumerate(got))
        chk.ob("outside/output-%s" % nm, ok,
               "Bus::output_%s returns what the program wrote to %#04x" % (nm, 0xFE + k), p.need_body("%s::output_%s" % (BUS, nm)).loc(),
               "output_fe(), output_ff() after the write: %s" % got)

    # ---- "set from outside" at construction: the input registers named by a configuration are what the program reads,
    # also when the machine is constructed together with a program (the load's master reset must not wipe them) - for the
    # library constructors and for the interactive front end's own constructor
    rb_ = p.need_body(BUS + "::read")
    MC = "L::machine::MachineConfig"
    mcf = p.field_names(MC)
    progv = shapes.build(p, "L::compiler::ByteCode")

    def inputs_after(fn_path, args_of, mpath):
        Ic = absint.Interp(p)
        Ic.unroll = 8
        stc = absint.State()
        mv = Ic.run_body(p.need_body(fn_path), args_of(Ic, stc), stc, 0)
        badc = [e for e in Ic.events if e.kind in ("wild_write", "unknown_call_value", "recursion_or_depth", "unknown_terminator")]
        ma_ = Ic.new_alloc(stc, "constructed", mv)
        bus_path = mpath
        return [Ic.run_body(rb_, [Ref(ma_, bus_path, False), ad_], stc, 0) for ad_ in (0xFC, 0xFD, 0xFE, 0xFF, 0xF0)], badc
    conf_v = Agg([Opaque("IN." + f_[len("input_"):].upper()) if f_.startswith("input_") else
                  (Opaque("IN.DI1") if f_ == "digital_input1" else
                   (Fl(0.0, 5.0) if f_ in ("temp", "analog_input1", "analog_input2") else TOP)) for f_ in mcf])
    # (the four input registers and the board's digital input port, which the configuration sets as well)
    want_in = [Opaque("IN.FC"), Opaque("IN.FD"), Opaque("IN.FE"), Opaque("IN.FF"), Opaque("IN.DI1")]
    raw_i = p.field_index(MACH, "raw")
    bus_i = p.field_index("L::machine::raw::RawMachine", "bus")
    cases_c = [("Machine::new", MACH + "::new", lambda Ic, stc: [conf_v], (raw_i, bus_i)),
               ("Machine::new_with_program", MACH + "::new_with_program", lambda Ic, stc: [conf_v, progv], (raw_i, bus_i))]
    MS_ = "B::tui::supervisor_wrapper::MachineState"
    if MS_ in p.types and "B::args::InitialMachineConfiguration" in p.types:
        icf = p.field_names("B::args::InitialMachineConfiguration")
        iconf = Agg([Opaque("IN." + f_.upper()) if f_ in ("fc", "fd", "fe", "ff", "di1") else
                     (Fl(0.0, 5.0) if f_ in ("temp", "ai1", "ai2") else TOP) for f_ in icf])
        mi = p.field_index(MS_, "machine")

        def ms_args(with_prog):
            def f(Ic, stc):
                ca = Ic.new_alloc(stc, "conf", iconf)
                return [Ref(ca, (), False)] + ([Opaque("PATH"), progv] if with_prog else [])
            return f
        for nm_ in [k for k in p.bodies if k.startswith(MS_ + "::new") and "{closure" not in k]:
            cases_c.append(("MachineState::" + nm_.rsplit("::", 1)[-1], nm_, ms_args(nm_.endswith("new_with_program")), (mi, raw_i, bus_i)))
    for label_, fnp_, argf_, mpath_ in cases_c:
        try:
            got_, badc_ = inputs_after(fnp_, argf_, mpath_)
        except absint.AnalysisLimit as e_:
            got_, badc_ = None, [str(e_)]
        chk.ob("construct/%s" % label_, got_ == want_in and not badc_,
               "a machine constructed from a configuration (with or without a program) presents the configured input registers at "
               "0xFC-0xFF and the configured digital input at 0xF0", p.need_body(fnp_).loc(), "reads of 0xfc..0xff, 0xf0 after construction: %s %s" % (got_, [repr(x)[:80] for x in badc_[:1]]),
               "A4 of the constructor with opaque configured values, then Bus::read")
    # ---- a program's load/store is the bus access the control word asks for: on every path, at the address in the
    # selected register, storing the ALU output (pipeline agreement, shared with C01) ---------------------------------
    from .. import pipeline
    pipeline.check(ctx, prefix="cpu-pipeline")
    # ---- the CPU reaches bus state only through Bus::read / Bus::write ------------------------------
    cg = mirutil.call_graph(p)
    RMP = "L::machine::raw::"
    stage_calls = {
        RMP + "MachineAfterAluCalculations::<'a>::write_to_memory": {BUS + "::write"},
        RMP + "MachineAfterWordUpdate::<'a>::read_from_memory": {BUS + "::read"},
        RMP + "MachineAfterMemoryRead::<'a>::calculate_alu_output": set(),
    }
    for fn_, allowed in stage_calls.items():
        b_ = p.need_body(fn_)
        busc = set()
        for path_ in [fn_] + [k_ for k_ in p.bodies if k_.startswith(fn_ + "::{closure")]:
            for c_ in cg.get(path_, ()):
                if c_.startswith(BUS + "::") or c_.startswith("L::machine::board::Board::"):
                    busc.add(c_)
        chk.ob("cpu-stage/%s" % fn_.rsplit("::", 1)[-1], busc <= allowed,
               "the data-path stage touches the bus only through %s" % (sorted(a_.rsplit("::", 1)[-1] for a_ in allowed) or "nothing"),
               b_.loc(), "bus calls: %s" % sorted(busc))
    callers = sorted(b_ for b_, cs_ in cg.items() if (BUS + "::misr_mut") in cs_ and "::tests::" not in b_)
    allowed_misr = {"L::machine::raw::RawMachine::trigger_key_edge_interrupt",
                    RMP + "MachineAfterRegWrite::<'a>::update_instruction_from_bus"}
    chk.ob("misr-writers", set(callers) <= allowed_misr,
           "the interrupt status register is changed only by the key trigger and by the RETI detection at an opcode fetch "
           "(never by a program's store: a write to 0xF9 sets the mask only)", p.need_type(BUS)["file"],
           "callers of Bus::misr_mut: %s" % callers)

    # the write port is the CPU's: "set from outside" goes through the input setters and never through the address decoder
    # (a write to 0xFC-0xFF reaches the timer and the output registers, not the input registers)
    wcallers = sorted(b_ for b_, cs_ in cg.items() if (BUS + "::write") in cs_ and "::tests::" not in b_)
    chk.ob("write-port-callers", set(wcallers) <= {RMP + "MachineAfterAluCalculations::<'a>::write_to_memory"} and wcallers,
           "Bus::write is driven only by the CPU's write stage; nothing outside the machine reaches the address decoder's write side",
           p.need_type(BUS)["file"], "callers of Bus::write: %s" % wcallers, "who-may-call over the resolved call graph")

    # "set from outside" by name: the interactive command `FC = v` ... `FF = v` names the register it sets - in the command
    # grammar every register keyword is paired with the InputRegister of the same name
    from .. import nomtree
    Bd_ = nomtree.Builder(p)
    root_ = Bd_.build("B::tui::input::parser::cmd_set_input_reg")
    seen_kw = {}
    bad_kw = []
    for ts_, v_ in nomtree.expand(p, root_):
        kws = [t_[1].lower() for t_ in ts_ if t_[0] == "lit" and t_[1].lower() in ("fc", "fd", "fe", "ff")]
        shown = nomtree.show_value(v_)
        if len(kws) != 1 or not shown.startswith("SetInputReg("):
            bad_kw.append("%s => %s" % (nomtree.show_tokens(ts_), shown))
            continue
        var_ = shown[len("SetInputReg("):].split(",")[0].strip().lower()
        seen_kw.setdefault(kws[0], set()).add(var_)
    for kw_ in ("fc", "fd", "fe", "ff"):
        if seen_kw.get(kw_) != {kw_}:
            bad_kw.append("keyword %s sets %s" % (kw_.upper(), sorted(seen_kw.get(kw_, []))))
    chk.ob("outside/command-register-names", not bad_kw,
           "the command `FC|FD|FE|FF = v` sets the input register it names", "emulator-2a/src/tui/input/parser.rs cmd_set_input_reg",
           "; ".join(bad_kw[:3]) or "4 keywords, %d alternatives" % sum(1 for _ in nomtree.expand(p, root_)),
           "combinator tree of cmd_set_input_reg reconstructed from MIR, keyword vs. value per alternative")

    # ---- single writers -----------------------------------------------------------
    expect_writers = {
        "input_reg": {BUS + "::input_fc", BUS + "::input_fd", BUS + "::input_fe", BUS + "::input_ff",
                      BUS + "::master_reset"},
        "output_reg": {BUS + "::write", BUS + "::cpu_reset"},
        "micr": {BUS + "::write", BUS + "::cpu_reset"},
        "ram": {BUS + "::write", BUS + "::reset_ram", BUS + "::memory_mut"},
    }
    ctor = {BUS + "::new", "<%s as core::clone::Clone>::clone" % BUS}
    for fld, allowed in expect_writers.items():
        ws = mirutil.field_writers(p, BUS, fld)
        funcs = {w["body"] for w in ws}
        chk.ob("writers/%s" % fld, funcs <= allowed | ctor and bool(funcs),
               "the register is written only by its documented writers", p.need_type(BUS)["file"],
               "writers: %s; unexpected: %s" % (sorted(funcs), sorted(funcs - allowed - ctor)))
    # memory_mut callers (who can write RAM from outside the bus)
    mm = []
    for path, b in p.bodies.items():
        for bb, t in mirutil.calls_in(b):
            if mirutil.callee_name(t) == BUS + "::memory_mut":
                mm.append(path)
    chk.note("callers of Bus::memory_mut (direct RAM access): %s" % sorted(set(mm)))
    allowed_mm = {"L::machine::Machine::load", "L::machine::Machine::load_raw"}
    bad_mm = [c for c in set(mm) if not any(c.startswith(a) for a in allowed_mm)]
    chk.ob("memory_mut-callers", not bad_mm, "direct mutable RAM access is used only by the program loaders",
           "", "other callers: %s" % bad_mm)
    # the other way to overwrite all of RAM: Bus::reset_ram belongs to the program load (a reset is not a write: RAM survives it)
    rr = sorted(b_ for b_, cs_ in cg.items() if (BUS + "::reset_ram") in cs_ and "::tests::" not in b_)
    bad_rr = [c for c in rr if not any(c == a or c.startswith(a + "::{closure") for a in allowed_mm)]
    chk.ob("reset_ram-callers", not bad_rr and bool(rr), "the RAM is cleared only by the program loaders, never by a reset",
           p.need_type(BUS)["file"], "callers of Bus::reset_ram: %s" % rr, "who-may-call over the resolved call graph")
    # the input registers set from outside are cleared by a master reset only, and a master reset is performed only by the
    # program load and by an explicit request on the machine (the runner's scheduled resets and the reset key are CPU resets)
    chain = ((BUS + "::master_reset", {"L::machine::raw::RawMachine::master_reset"}),
             ("L::machine::raw::RawMachine::master_reset", {"L::machine::Machine::master_reset"}),
             ("L::machine::Machine::master_reset", {"L::machine::Machine::load", "L::machine::Machine::load_raw"}))
    for callee_, allowed_ in chain:
        cs_ = sorted(b_ for b_, c2_ in cg.items() if callee_ in c2_ and "::tests::" not in b_)
        chk.ob("master-reset-callers/%s" % callee_.rsplit("::", 2)[-2], set(cs_) <= allowed_ and bool(cs_),
               "a master reset (which clears the input registers) is issued only by the program load", p.need_type(BUS)["file"],
               "callers of %s: %s" % (callee_, cs_), "who-may-call over the resolved call graph")
    # reads are pure by type: &self and no interior mutability
    chk.ob("read/receiver", rb.locals[1]["ty"].startswith("&L::") or rb.locals[1]["ty"].startswith("&'"),
           "Bus::read takes &self", rb.loc(), rb.locals[1]["ty"])
    for tn in (BUS, "L::machine::board::Board"):
        t = p.need_type(tn)
        chk.ob("freeze/%s" % tn.split("::")[-1], t.get("freeze") is True,
               "the bus state has no interior mutability (type fact from rustc)", t["file"], "freeze=%s" % t.get("freeze"))
