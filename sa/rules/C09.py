"""C09 - micro-sequencer control flow is well-formed.

Decided on the micro-CFG (A6) built from the repository's own next-address
logic evaluated on (control word, IR) constants:
  1. only programmed words are reachable (from reset and from every fetch) for
     defined opcodes;
  2. every defined first byte returns to an instruction fetch on every branch
     outcome; the only cycles are the MUL and DIV loops, each with an exit;
  3. the IR stays the fetched opcode inside a routine (IR changes only at the
     fetch, at the second-byte fetch of the 0xF_ forms and on the interrupt
     entry path);
  4. the first bytes that can fail to complete are exactly the undefined set;
     for two-byte forms no defined second byte fails to complete;
  5. structural loop-variant shape of the MUL and DIV loops.
"""
from .. import spec, mgraph
from ..facts import AnchorMissing

LEVEL = "proof"
EXPLANATION = ("graph analysis over the complete abstract control space (programmed control words x 256 IR "
               "values x every outcome of every data condition), successor function obtained by abstract "
               "interpretation of Signals::next_microprogram_address")
RULE_TEXT = ("one obligation per first opcode byte, per (two-byte first byte, second byte) pair, per cyclic "
             "SCC and per structural clause")


def cond_inputs(pins_list):
    out = set()
    for pins in pins_list:
        out.update(pins)
    return out


def run(ctx):
    chk = ctx.chk
    g = ctx.graph
    mt = ctx.micro
    isa = spec.load("isa")
    # the data-driven loops leave through ALU conditions (carry of the subtracting add, zero after a shift): the ALU
    # functions have the documented shape (the rule of C08, shared, as in C01)
    from . import C08
    outer = getattr(chk, "prefix", "")
    chk.prefix = outer + "alu/"
    try:
        C08.run(ctx)
    finally:
        chk.prefix = outer
    undefined = spec.expand_ranges(isa["undefined_first_bytes"]["ranges"])
    two_lo, two_hi = isa["two_byte"]["first_range"]
    two_first = set(range(two_lo, two_hi + 1))
    def_second = spec.expand_ranges(isa["two_byte"]["second_ranges"])
    loops = isa["loops"]
    loop_bytes = {}
    for name, l in loops.items():
        for b in range(l["first_range"][0], l["first_range"][1] + 1):
            loop_bytes[b] = name

    chk.floor("programmed control words", len(g.prog), 200)
    chk.floor("DONE (fetch) words", len(g.done), 10)
    chk.note("programmed words: %d, DONE words: %s" % (len(g.prog), [hex(a) for a in sorted(g.done)]))

    # fetch words must be exactly the IR-loading DONE words
    for d in sorted(g.done):
        chk.ob("fetch-loads-ir/%#05x" % d, g.is_load(d),
               "every DONE word loads the next opcode into IR", "control word %#05x" % d,
               "IR update kind: %r" % (g.irkind[d],))

    # halting bytes at fetch (from the abstract clock edge of each fetch word)
    err = isa["halting_first_bytes"]["error_stop"]
    for d in sorted(g.done):
        h = g.front[d].get("halts", {})
        ok = (h.get("0x00", {}).get("state") == ["ErrorStopped"]
              and h.get("0x01", {}).get("state") == ["Stopped"]
              and h.get("other", {}).get("state") == ["Running"])
        chk.ob("fetch-halts/%#05x" % d, ok, "fetching 0x00 error-stops, 0x01 stops, nothing else halts",
               "control word %#05x" % d, repr(h))

    # the graph is built from next_microprogram_address evaluated on a Signals value; the machine hands it the flags, ALU
    # conditions and flip-flops through Signals::from: each input is wired to the source of the same name
    from .. import pipeline
    pipeline.accessors(ctx, prefix="sequencer-inputs")

    from .. import fetchlatch
    fetchlatch.obligations(ctx)
    fetchlatch.stop_edge_advances(ctx)      # STOP is a defined opcode: it completes (after continue) like any other
    fetchlatch.continue_resumes(ctx)

    # ---- reset state ---------------------------------------------------
    a0, i0 = fetchlatch.reset_control_state(ctx)

    # ---- per first byte -------------------------------------------------
    def dispatch_states(b):
        out = set()
        for d in g.done:
            for i in range(256):
                for pins, a2, i2 in g.succ(d, i, loaded=b):
                    out.add((a2, i2))
        return out

    def analyse(starts, second=None):
        """explore from starts to the next DONE; returns dict with trap info"""
        if second is None:
            seen, edges, bad = g.explore(starts, stop_at_done=True)
        else:
            seen, edges, bad = g.explore(starts, stop_at_done=True, load_filter=lambda a, i2: i2 == second)
        # states from which a DONE state is reachable
        rev = {}
        for s, es in edges.items():
            for _, t in es:
                rev.setdefault(t, []).append(s)
        good = set(s for s in seen if s[0] in g.done and s not in starts)
        stack = list(good)
        while stack:
            t = stack.pop()
            for s in rev.get(t, ()):
                if s not in good:
                    good.add(s)
                    stack.append(s)
        traps = [s for s in seen if s not in good]
        return {"seen": seen, "edges": edges, "bad": bad, "traps": traps}

    non_completing = set()
    routine_words = {}
    nstates = 0
    ntrans = 0
    all_cyclic = []
    for b in range(1, 256):
        if b == err:
            continue
        starts = dispatch_states(b)
        res = analyse(starts)
        nstates += len(res["seen"])
        ntrans += sum(len(e) for e in res["edges"].values())
        routine_words[b] = sorted({a for a, _ in res["seen"]})
        fails = bool(res["traps"]) or bool(res["bad"])
        if b in two_first:
            # judged per second byte below; the first-byte part must reach the second fetch
            pass
        if fails and b not in two_first:
            non_completing.add(b)
        if b in undefined:
            chk.ob("undefined-never-completes/%#04x" % b, fails,
                   "an undefined first byte has a path that never returns to a fetch",
                   "first byte %#04x" % b,
                   "traps: %s" % [(hex(a), hex(i)) for a, i in res["traps"][:4]])
            continue
        if b in two_first:
            continue
        where = "first byte %#04x, dispatch %s" % (b, sorted({hex(a) for a, _ in starts}))
        chk.ob("completes/%#04x" % b, not res["traps"], "every path from dispatch reaches a DONE (fetch) word",
               where, "trap states: %s" % [(hex(a), hex(i)) for a, i in res["traps"][:6]],
               "reverse reachability from DONE states covers all %d reachable control states" % len(res["seen"]))
        chk.ob("programmed-only/%#04x" % b, not res["bad"], "only programmed control words are visited",
               where, "transitions into unprogrammed words: %s"
               % [("%#x/%#x" % s, hex(a2)) for s, a2, _ in res["bad"][:6]])
        # IR constancy inside the routine
        ir_ok = True
        detail = ""
        for (a, i) in res["seen"]:
            if (a, i) in starts:
                continue
            if i != b:
                # allowed only after an IR reset word on the interrupt-taken path
                ir_ok = ir_ok and (i in {k[1] for k in g.irkind.values() if k[0] == "reset"})
                if not ir_ok:
                    detail = "state (%#x, IR %#x)" % (a, i)
                    break
        chk.ob("ir-constant/%#04x" % b, ir_ok,
               "inside a routine the IR is the fetched opcode (or the reset value on the interrupt path)",
               where, detail)
        # cycles
        comps = [c for c in mgraph.sccs(list(res["seen"]), res["edges"]) if len(c) > 1 or
                 any(t == c[0] for _, t in res["edges"].get(c[0], ()))]
        if comps:
            all_cyclic.append((b, comps, res))
        if b not in loop_bytes:
            chk.ob("acyclic/%#04x" % b, not comps, "routines other than MUL/DIV contain no cycle",
                   where, "cyclic SCCs: %s" % [[hex(a) for a, _ in c] for c in comps[:3]])
    chk.extra["states"] = nstates
    chk.extra["transitions"] = ntrans

    # exactness of the undefined set
    extra = sorted(non_completing - undefined)
    chk.ob("undefined-set-exact", not extra,
           "the first bytes that can fail to complete are exactly the undefined set", "",
           "additional non-completing first bytes: %s" % [hex(b) for b in extra])

    # ---- two-byte forms ---------------------------------------------------
    for b in sorted(two_first):
        starts = dispatch_states(b)
        # phase 1: up to the second-byte fetch (a non-DONE IR-loading word)
        seen, edges, bad = g.explore(starts, stop_at_done=True, load_filter=lambda a, i2: False)
        loaders = {s for s in seen if s[0] in g.prog and g.is_load(s[0]) and s[0] not in g.done}
        where = "first byte %#04x" % b
        chk.ob("two-byte/reaches-second-fetch/%#04x" % b, bool(loaders) and not bad,
               "the operand-fetch part of a two-byte form reaches the second opcode fetch on programmed words",
               where, "second-fetch states: %s; unprogrammed: %s" % ([(hex(a), hex(i)) for a, i in sorted(loaders)][:4], bad[:3]))
        # all phase-1 paths must end in a loader (no trap before the second fetch)
        rev = {}
        for s, es in edges.items():
            for _, t in es:
                rev.setdefault(t, []).append(s)
        good = set(loaders)
        stack = list(loaders)
        while stack:
            t = stack.pop()
            for s in rev.get(t, ()):
                if s not in good:
                    good.add(s)
                    stack.append(s)
        # states after which nothing follows (loader successors filtered) are the loaders themselves
        traps1 = [s for s in seen if s not in good and not (s[0] in g.done and s not in starts)]
        chk.ob("two-byte/no-trap-before-second-fetch/%#04x" % b, not traps1,
               "no path gets stuck before the second opcode fetch", where,
               "%s" % [(hex(a), hex(i)) for a, i in traps1[:5]])
        for b2 in range(256):
            st2 = set()
            for (a, i) in loaders:
                for pins, a2, i2 in g.succ(a, i, loaded=b2):
                    st2.add((a2, i2))
            res = analyse(st2)
            nstates += len(res["seen"])
            fails = bool(res["traps"]) or bool(res["bad"])
            if b2 in def_second:
                chk.ob("two-byte/completes/%#04x/%#04x" % (b, b2), not fails,
                       "a defined second byte completes on every path over programmed words",
                       "first byte %#04x second byte %#04x" % (b, b2),
                       "traps %s bad %s" % ([(hex(a), hex(i)) for a, i in res["traps"][:4]], res["bad"][:2]))
                comps = [c for c in mgraph.sccs(list(res["seen"]), res["edges"]) if len(c) > 1 or
                         any(t == c[0] for _, t in res["edges"].get(c[0], ()))]
                chk.ob("two-byte/acyclic/%#04x/%#04x" % (b, b2), not comps,
                       "two-byte routines contain no cycle", "first byte %#04x second byte %#04x" % (b, b2),
                       "%s" % [[hex(a) for a, _ in c] for c in comps[:2]])
    chk.extra["states"] = nstates

    # ---- loops -------------------------------------------------------------
    # the exits of the data-driven loops are decided on the register-transfer reading of their control words: the code's
    # pipeline does what the control signals of these words say (operands, ALU function - evaluated in every word, also
    # one that stores nothing: its condition outputs feed the next address - and the write-back of the result)
    ddw = g.data_driven_words(loop_bytes)
    chk.floor("data-driven control words", len(ddw), 20)
    pipeline.control_part(ctx, "loop-data-path", words=ddw, flags=False)
    seen_loop_names = set()
    for b, comps, res in all_cyclic:
        name = loop_bytes.get(b)
        if name is None:
            continue
        seen_loop_names.add(name)
        for c in comps:
            cset = set(c)
            words = sorted({a for a, _ in c})
            # exit edges and the inputs that control them
            exits = []
            for s in c:
                for pins, t in res["edges"].get(s, ()):
                    if t not in cset:
                        exits.append((s, pins, t))
            inputs = cond_inputs([p for _, p, _ in exits])
            where = "%s loop, first byte %#04x, words %s" % (name, b, [hex(a) for a in words])
            chk.ob("loop-exit/%s/%#04x" % (name, b), bool(exits) and inputs <= {"CO", "ZO", "NO"} and bool(inputs),
                   "the loop has an exit edge controlled by an ALU condition output of a word inside the loop",
                   where, "exit edges: %s" % [("%#x" % s[0], p, "%#x" % t[0]) for s, p, t in exits[:4]])
            # every cycle passes through an exit-tested word: removing the states that
            # carry an exit edge must leave the SCC acyclic
            exit_states = {s for s, _, _ in exits}
            sub_edges = {s: [(p, t) for p, t in res["edges"].get(s, ()) if t in cset and t not in exit_states]
                         for s in c if s not in exit_states}
            sub = [x for x in mgraph.sccs([s for s in c if s not in exit_states], sub_edges)
                   if len(x) > 1 or any(t == x[0] for _, t in sub_edges.get(x[0], ()))]
            chk.ob("loop-every-cycle-tests-exit/%s/%#04x" % (name, b), not sub,
                   "every cycle through the loop passes a word whose condition can leave the loop", where,
                   "cycles avoiding the exit test: %s" % [[hex(a) for a, _ in x] for x in sub[:2]])
            # variant shape
            rd = b & 3
            rs = (b >> 2) & 3
            regn = mt.regnames
            wr = {}     # word -> (written register, alu, a-reg, b-reg/const)
            for (a, i) in c:
                w = mt.word[a]
                ra, rb, rw = mt.regs(a, i)
                wr[a] = {"we": w["mrgwe"], "rw": regn[rw], "alu": w["alu"], "ra": regn[ra],
                         "rb": ("const %d" % w["bconst"]) if w["maluib"] else regn[rb],
                         "maluia": w["maluia"]}
            rdn = "R%d" % rd
            rsn = "R%d" % rs
            if name == "MUL":
                # shift word: LSR on Rd written back to Rd; exit tested on zero of pass-A of Rd
                shifts = [a for a, x in wr.items() if x["we"] and x["rw"] == rdn and x["alu"] == "LSR"
                          and x["ra"] == rdn and not x["maluia"]]
                other_w = [a for a, x in wr.items() if x["we"] and x["rw"] == rdn and a not in shifts]
                exit_ok = all(set(p) <= {"ZO"} and wr[s[0]]["ra"] == rdn and wr[s[0]]["alu"] in ("A", "LSR")
                              and not wr[s[0]]["maluia"] for s, p, _ in exits)
                # each cycle contains a shift word
                sub_edges = {s: [(p, t) for p, t in res["edges"].get(s, ()) if t in cset and t[0] not in shifts]
                             for s in c if s[0] not in shifts}
                sub = [x for x in mgraph.sccs([s for s in c if s[0] not in shifts], sub_edges)
                       if len(x) > 1 or any(t == x[0] for _, t in sub_edges.get(x[0], ()))]
                ok = bool(shifts) and not sub and exit_ok and (rd == rs or not other_w)
                if rd == rs:
                    # MUL Rn,Rn: Rd is also the shifted-left multiplicand copy source only at entry
                    ok = bool(shifts) and not sub and exit_ok and not other_w
                chk.ob("loop-variant/MUL/%#04x" % b, ok,
                       "MUL: Rd is shifted right once on every cycle, written by no other word of the loop, "
                       "and the exit tests zero of Rd", where,
                       "shift words %s, other writers of %s: %s, exits ok: %s, cycles without shift: %s; ops: %s"
                       % ([hex(a) for a in shifts], rdn, [hex(a) for a in other_w], exit_ok, len(sub),
                          {hex(a): x for a, x in sorted(wr.items())}))
            elif name == "DIV":
                subs = [a for a, x in wr.items() if x["we"] and x["rw"] == rdn and x["alu"] == "ADDS"
                        and x["ra"] == rdn and x["rb"] == "R6" and not x["maluia"]]
                other_w = [a for a, x in wr.items() if x["we"] and x["rw"] in (rdn, "R6") and a not in subs]
                exit_ok = all(set(p) <= {"CO"} and s[0] in subs for s, p, _ in exits)
                ok = bool(subs) and not other_w and exit_ok
                chk.ob("loop-variant/DIV/%#04x" % b, ok,
                       "DIV: the loop subtracts the (complemented) divisor copy R6 from Rd with the "
                       "subtracting add, exits on that word's carry, and no other word of the loop writes Rd or R6",
                       where, "sub words %s, other writers: %s, exits ok: %s; ops: %s"
                       % ([hex(a) for a in subs], [hex(a) for a in other_w], exit_ok,
                          {hex(a): x for a, x in sorted(wr.items())}))
                # divisor zero is branched away before the loop: some state before the SCC
                # tests ZO of a pass of Rs into R6 and its taken edge never enters the SCC
                pre = []
                for s, es in res["edges"].items():
                    if s in cset:
                        continue
                    for pins, t in es:
                        if "ZO" in pins:
                            pre.append((s, pins, t))
                guard_ok = False
                det = []
                for s, pins, t in pre:
                    if pins.get("ZO") == 1:
                        # the zero branch must not reach the loop
                        reach = set()
                        stack = [t]
                        while stack:
                            x = stack.pop()
                            if x in reach:
                                continue
                            reach.add(x)
                            for _, y in res["edges"].get(x, ()):
                                stack.append(y)
                        a = s[0]
                        w = mt.word[a]
                        ra, rb_, rw = mt.regs(a, s[1])
                        passes_rs = (regn[rb_] == rsn and w["alu"] in ("B", "BH", "SETC", "INVC") and not w["maluib"]) or \
                                    (regn[ra] == rsn and w["alu"] == "A" and not w["maluia"])
                        det.append((hex(a), passes_rs, not (reach & cset)))
                        if passes_rs and not (reach & cset):
                            guard_ok = True
                chk.ob("loop-guard/DIV/%#04x" % b, guard_ok,
                       "DIV: divisor zero is tested (zero output of a pass of Rs) and branched away before the loop",
                       where, "candidate guards (word, passes Rs, zero-branch avoids loop): %s" % det)
    for name in loops:
        if name not in seen_loop_names:
            chk.fail("loop-present/%s" % name, "fail-closed: expected data-driven loop not found", "",
                     "no cyclic SCC for %s opcodes" % name, status="anchor-missing")

    # ---- reachability from reset -------------------------------------------
    seen, edges, bad = g.explore([(a0, i0)], stop_at_done=False,
                                 load_filter=lambda a, i2: (i2 not in undefined) and i2 != err
                                 and not (False))
    # second bytes: restrict to defined second bytes when loaded by a non-DONE loader
    def lf(a, i2):
        if a in g.done:
            return i2 not in undefined and i2 != err
        return i2 in def_second
    seen, edges, bad = g.explore([(a0, i0)], stop_at_done=False, load_filter=lf)
    chk.ob("reset-reachable-programmed", not bad,
           "from the power-on control state, executing defined opcodes only, only programmed words are reachable",
           "power-on state (%#x, IR %#x)" % (a0, i0),
           "%d control states reachable; transitions into unprogrammed words: %s"
           % (len(seen), [("%#x/%#x" % s, hex(a2)) for s, a2, _ in bad[:5]]))
    words_reached = {a for a, _ in seen}
    chk.note("control words reachable from reset with defined opcodes: %d of %d programmed"
             % (len(words_reached & g.prog), len(g.prog)))
    chk.sample({"first byte 0x60 (ADD) routine words": [hex(a) for a in routine_words.get(0x60, [])]})
    chk.sample({"first byte 0xB1 (MUL) routine words": [hex(a) for a in routine_words.get(0xB1, [])]})
    chk.assume("termination of the MUL/DIV loops for all operand pairs additionally needs the numeric "
               "semantics of the ALU functions LSR/A/ADDS (C08), which are not decided here")
