"""C06 - every program the parser accepts can be compiled and loaded without a crash.

Every panic-capable MIR site reachable from the compile / load / display entry
points is an obligation.  The entry points are abstractly interpreted (A4) on
abstract ASTs: every Instruction variant with every operand shape the ADTs
admit (numeric payloads unknown, vectors non-empty as the grammar guarantees),
with the translator's address counter, the label table and the image size
unknown.  A site is discharged if it can fail in no run and was reached; the
label look-up sites additionally need the cross-stage key-normalisation
agreement between the parser's validation and the translator (A9)."""
from .. import absint, shapes, mirutil, panics, asmmodel, grammar, harness, step
from .. import domain as D
from ..domain import Agg, En, Ref, Arr, ArrS, Str, Opaque, TOP, BOT, It, BoxV
from ..facts import AnchorMissing

LEVEL = "other"
EXPLANATION = ("panic-site enumeration + abstract interpretation of the translator, loader and display code on "
               "exhaustively enumerated abstract AST shapes")

TR = asmmodel.TR
AST = asmmodel.AST
ENTRY_ROOTS = [
    "L::compiler::Translator::compile",
    "L::compiler::ByteCode::bytes",
    "L::machine::Machine::load",
    "L::machine::Machine::new_with_program",
    "B::tui::program_help_sidebar::program_display::ProgramDisplayState::from_bytecode",
    "<L::compiler::ByteCode as core::fmt::Display>::fmt",
]
DISPLAY_TYPES = ["Instruction", "Line", "Source", "Destination", "MemAddress", "Constant", "Register", "RegisterDi",
                 "RegisterDdi", "Stacksize", "Programsize", "Asm"]


def run(ctx):
    p = ctx.p
    chk = ctx.chk
    am = asmmodel.AsmModel(p)
    g = grammar.Grammar(p.grammar)
    I = absint.Interp(p)
    I.trace_blocks = True
    failing = {}
    unanalysable = []
    foreign = set()

    def harvest(label):
        for k, evs in panics.failing_sites(I).items():
            failing.setdefault(k, []).append((label, evs[0]))
        for e in I.events:
            if e.in_log:
                continue
            if e.kind in ("wild_write", "unknown_call_value", "recursion_or_depth", "unknown_terminator"):
                unanalysable.append((label, repr(e)[:200]))
            if e.kind == "unknown_extern":
                foreign.add(str(e.info))

    # grammar invariants on the AST used as premises
    for rule, what in (("db", "constant_bhd"), ("dw", "word_bhd")):
        alts = g.child_alts(rule)
        ok = all(what in s for s in alts)
        chk.ob("ast-invariant/%s-non-empty" % rule, ok,
               "the grammar guarantees at least one element for .DB/.DW (premise for the display code)",
               "grammar rule %s" % rule, "%s" % alts)

    # ---- A. push_instruction on every instruction shape ----------------------------
    nshapes = 0
    for vname, combo, value in am.instructions():
        nshapes += 1
        am.push_instruction(I, value)
        harvest("push_instruction(%s %s)" % (vname, ", ".join(c.desc for c in combo)))
    chk.floor("instruction shapes pushed through the translator", nshapes, 1900)
    # .ORG per direction: a site of the translator that can fail is keyed by the directions it fails for (the known finding
    # is the deliberate abort for a BACKWARD .ORG; a forward .ORG - however far - is a different input)
    ivi_ = am.vi["Instruction"]
    unroll0 = I.unroll
    I.unroll = 300            # the zero fill of a forward .ORG is interpreted exactly (up to 255 bytes)
    for dname, n0_, addr_ in (("backward", 200, D.norm_rng(0, 199)), ("backward", 1, 0), ("backward", 255, 254),
                              ("forward", 10, 10), ("forward", 10, 11), ("forward", 10, 137), ("forward", 10, 138),
                              ("forward", 10, 255), ("forward", 0, 127), ("forward", 0, 128), ("forward", 0, 255),
                              ("forward", 100, 239), ("forward", 200, 201), ("forward", 127, 255)):
        am.push_instruction(I, En({ivi_["AsmOrigin"]: (addr_,)}), next_addr=n0_)
        harvest("org[%s]" % dname)
    I.unroll = unroll0
    # ---- B. push for label / empty lines ----------------------------------------------
    lvi = am.vi["Line"]
    for desc, line in (("label", En({lvi["Label"]: (Opaque("LBL"), En({0: (), 1: (Opaque("c"),)}))})),
                       ("empty", En({lvi["Empty"]: (En({0: (), 1: (Opaque("c"),)}),)}))):
        st = absint.State()
        I.heap_counter = 0
        ta = I.new_alloc(st, "tr", am.new_translator())
        la = I.new_alloc(st, "line", line)
        I.events.clear()
        I.run_body(p.need_body(TR + "::push"), [Ref(ta, (), True), Ref(la)], st, 0)
        harvest("push(%s)" % desc)
    # ---- C. finish ----------------------------------------------------------------------
    # the translator state is built by pushing a relative jump, an absolute jump and a plain
    # instruction (so that Byte, Label and LabelFn entries with their real closure are present)
    ivi = am.vi["Instruction"]
    st = absint.State()
    I.heap_counter = 0
    ta = I.new_alloc(st, "tr", am.new_translator())
    ca = I.new_alloc(st, "comment", En({0: ()}))
    for k, inst in enumerate((En({ivi["Jr"]: (Opaque("L1"),)}), En({ivi["Jmp"]: (Opaque("L2"),)}), En({ivi["Nop"]: ()}))):
        ia = I.new_alloc(st, "inst%d" % k, inst)
        I.run_body(p.need_body(TR + "::push_instruction"), [Ref(ta, (), True), Ref(ia), Ref(ca)], st, 0)
    names = p.field_names(TR)
    trv = list(st.store[ta].f)
    trv[names.index("known_labels")] = Agg((Str("<hashmap>"), Opaque("KEYS"), asmmodel.U8))
    I.events.clear()
    I.run_body(p.need_body(TR + "::finish"), [Agg(trv)], st, 0)
    # the look-up sites are judged by the normalisation argument below, not by the map model
    for e in I.events:
        if e.kind == "panic" and isinstance(e.info, dict) and e.info.get("kind") == "expect":
            eb_ = p.bodies.get(e.body) if isinstance(e.body, str) else e.body
            term_ = eb_.blocks[e.bb]["t"] if (eb_ is not None and e.bb is not None) else None
            if term_ is not None and _receiver_is_map_get(eb_, term_):
                e.kind = "lookup-expect"
    harvest("finish")
    # ---- D. load --------------------------------------------------------------------------
    prog = shapes.build(p, "L::compiler::ByteCode")
    ov = step.machine_overrides(p, None, None, None, stacksize_notset=False)
    # one run per kind of *PROGRAMSIZE directive: a site that can fail is keyed by the directive kinds it fails for (the
    # known oversized-image findings belong to AUTO; a failure for a declared size is a different input)
    bcn = p.field_names("L::compiler::ByteCode")
    ps_t = p.need_type("L::parser::ast::Programsize")
    for vi_, v_ in enumerate(ps_t["variants"]):
        pv = En({vi_: tuple(asmmodel.U8 for _ in v_["fields"])})
        prog_v = Agg([pv if f_ == "programsize" else x_ for f_, x_ in zip(bcn, prog.f)]) if isinstance(prog, Agg) else prog
        I.events.clear()
        step.run_method(p, I, "L::machine::Machine::load", ov, extra_args=[prog_v], ty=step.MACHINE)
        harvest("Machine::load[%s]" % v_["n"])
    I.events.clear()
    st = absint.State()
    I.run_body(p.need_body("L::machine::Machine::new_with_program"),
               [shapes.build(p, "L::machine::MachineConfig"), prog], st, 0)
    harvest("Machine::new_with_program")
    I.events.clear()
    st = absint.State()
    pa = I.new_alloc(st, "prog", prog)
    I.run_body(p.need_body("L::compiler::ByteCode::bytes"), [Ref(pa)], st, 0)
    harvest("ByteCode::bytes")
    # ---- E. program display ----------------------------------------------------------------
    fb = p.need_body(ENTRY_ROOTS[4])
    I.events.clear()
    st = absint.State()
    lines = ArrS(Agg((TOP, ArrS(asmmodel.U8, D.norm_rng(0, (1 << 32) - 1)))), D.norm_rng(0, (1 << 32) - 1))
    bc = Agg([{"lines": lines, "stacksize": TOP, "programsize": TOP}[f] for f in p.field_names("L::compiler::ByteCode")])
    pa = I.new_alloc(st, "prog", bc)
    I.run_body(fb, [Ref(pa)], st, 0)
    harvest("ProgramDisplayState::from_bytecode")
    db = p.need_body(ENTRY_ROOTS[5])
    I.events.clear()
    st = absint.State()
    pa = I.new_alloc(st, "prog", bc)
    fa = I.new_alloc(st, "fmt", TOP)
    I.run_body(db, [Ref(pa), Ref(fa, (), True)], st, 0)
    harvest("<ByteCode as Display>::fmt")
    # ---- F. Display impls of the AST on every shape -------------------------------------------
    disp = {}
    for tn in DISPLAY_TYPES:
        b_ = p.find_trait_method("core::fmt::Display", AST + tn, "fmt")
        if b_ is not None:
            disp[tn] = b_
    chk.floor("Display impls of the AST", len(disp), 11)

    def run_display(tn, value, label):
        st = absint.State()
        I.heap_counter = 0
        va = I.new_alloc(st, "v", value)
        fa = I.new_alloc(st, "fmt", TOP)
        I.events.clear()
        I.run_body(disp[tn], [Ref(va), Ref(fa, (), True)], st, 0)
        harvest(label)
    for vname, combo, value in am.instructions():
        run_display("Instruction", value, "Display Instruction(%s %s)" % (vname, ", ".join(c.desc for c in combo)))
    for s in am.sources():
        run_display("Source", s.value, "Display Source %s" % s.desc)
    for s in am.destinations():
        run_display("Destination", s.value, "Display Destination %s" % s.desc)
    for s in am.memaddrs():
        run_display("MemAddress", s.value, "Display MemAddress %s" % s.desc)
    for s in am.constants():
        run_display("Constant", s.value, "Display Constant %s" % s.desc)
    for s in am.registers():
        run_display("Register", s.value, "Display Register %s" % s.desc)
        run_display("RegisterDi", Agg((s.value,)), "Display RegisterDi")
        run_display("RegisterDdi", Agg((s.value,)), "Display RegisterDdi")
    for s in am.field_shapes(AST + "Stacksize", 0):
        run_display("Stacksize", s.value, "Display Stacksize")
    for s in am.field_shapes(AST + "Programsize", 0):
        run_display("Programsize", s.value, "Display Programsize")
    optc = En({0: (), 1: (Opaque("comment"),)})
    for desc, line in (("label", En({lvi["Label"]: (Opaque("LBL"), optc)})), ("empty", En({lvi["Empty"]: (optc,)})),
                       ("instruction", En({lvi["Instruction"]: (TOP, optc)}))):
        run_display("Line", line, "Display Line %s" % desc)
    if "Asm" in disp:
        asm = Agg([{"comment_after_shebang": optc, "lines": ArrS(TOP, D.top_of_int("usize"))}[f]
                   for f in p.field_names(AST + "Asm")])
        run_display("Asm", asm, "Display Asm")

    chk.ob("entry-points-analysable", not unanalysable, "every run is interpreted without an unmodelled construct", "",
           "%s" % unanalysable[:6])

    # ---- sites -------------------------------------------------------------------------------------
    gph = mirutil.call_graph(p)
    roots = [r for r in ENTRY_ROOTS if r in p.bodies] + [b.path for b in disp.values()]
    for r in ENTRY_ROOTS:
        if r not in p.bodies:
            chk.fail("anchor/%s" % r, "fail-closed: entry point missing", "", r, status="anchor-missing")
    reach = mirutil.reachable_fns(p, roots, gph)
    fns = [f for f in reach if f in p.bodies and not (f.startswith("<") and ("core::fmt::Debug" in f or "core::hash::" in f))
           and "/src/machine/" not in ("/" + p.bodies[f].file) or f in ("L::machine::Machine::load",
                                                                        "L::machine::Machine::new_with_program")]
    fns = [f for f in fns if f in p.bodies]
    fns += [k for k in p.bodies if k.startswith("L::machine::Machine::load::{closure")]
    sites = panics.enumerate_sites(p, sorted(set(fns)))
    chk.floor("panic-capable sites reachable from compile/load/display", len(sites), 20)
    # calls to std routines that panic on a contract violation (the interpreter takes unmodelled foreign functions as total)
    for c_ in panics.contract_calls(p, fns):
        chk.ob("contract/%s/%s#%d" % (c_["fn"], c_["api"].rsplit("::", 2)[-2].split("<")[0] + "::" + c_["api"].rsplit("::", 1)[-1], c_["k"]),
               c_["ok"], "a std routine with a panic contract is called only where the call site guarantees the contract (%s)" % c_["rule"],
               "%s:%s" % (p.bodies[c_["fn"]].file, c_["ln"]), "%s: %s" % (c_["api"], c_["why"]),
               "call sites of contract-bearing std routines in the analysed functions; whole-range forms discharged by type")
    hit_fns = {k[0] for k in I.block_hits}
    # cross-stage normalisation for the label look-ups
    from .. import symkeys
    bad_keys = symkeys.obligations(ctx, "symbol-key")
    norm_ok = not bad_keys
    norm_detail = ("definition and look-up keys are to_lowercase(name), like the parser's label check" if norm_ok else
                   "symbol table key is not the case-folded name at: %s" % bad_keys)
    from .. import labelscan
    nscan, bad_scan = labelscan.scan(p)
    if bad_scan:
        norm_ok = False
        norm_detail = "the parser's undefined-label scan misses references: %s" % "; ".join(bad_scan[:3])
    chk.note("validate_lines interpreted on %d (shape, definition mode) cases: every label of every operand position is checked" % nscan)
    # ... and a failing label check really makes the parser reject the text (the look-ups below rely on it)
    from . import C03
    chk.prefix = "parse/"
    try:
        C03.run(ctx, only_entry=True)
    finally:
        chk.prefix = ""
    for s in sites:
        if s["in_log"] and s["kind"] == "assert":
            pass
        b = p.bodies[s["fn"]]
        where = "%s:%s" % (b.file, s["ln"])
        fl = failing.get((s["fn"], s["bb"]))
        if fl:
            kinds_ = sorted({lab_[len("Machine::load["):-1] for lab_, _e in fl if lab_.startswith("Machine::load[")})
            if kinds_:
                s = dict(s, key="%s@%s" % (s["key"], ",".join(kinds_)))
            dirs_ = sorted({lab_[len("org["):-1] for lab_, _e in fl if lab_.startswith("org[")})
            if dirs_:
                s = dict(s, key="%s@%s" % (s["key"], ",".join(dirs_)))
        reached = (s["fn"], s["bb"]) in I.block_hits
        rule = "a site reachable for an accepted program can never fail"
        is_lookup = s["kind"] in ("expect", "unwrap") and _receiver_is_map_get(b, s["term"])
        if is_lookup:
            chk.ob("site/%s" % s["key"], norm_ok,
                   "the label look-up cannot miss: the parser validated every reference, and definition, look-up and "
                   "validation normalise label names identically", where, norm_detail,
                   "cross-stage invariant from validate_lines + key normalisation agreement (A9)")
            continue
        if fl:
            lab, ev = fl[0]
            chk.ob("site/%s" % s["key"], False, rule, where,
                   "can fail in %s: %s" % (lab, D.short({k: v for k, v in ev.info.items() if k not in ("bb",)})
                                          if isinstance(ev.info, dict) else ev.info))
        elif not reached and s["fn"] not in hit_fns:
            chk.ob("site/%s" % s["key"], False, rule, where, "function never entered by the analysis (cannot discharge)")
        else:
            chk.ob("site/%s" % s["key"], True, rule, where, "%s %s" % (s["kind"], s["detail"]),
                   "A4 over all instruction shapes" if reached else "block unreachable on every abstract path")
    chk.note("functions analysed: %d, sites: %d, instruction shapes: %d" % (len(set(fns)), len(sites), nshapes))
    chk.note("foreign functions without a model, assumed total and effect-free beyond their &mut arguments: %s" % sorted(foreign))
    chk.assume("stack exhaustion, allocation failure and panics inside dependencies are outside the check")
    chk.assume("a source text has fewer than 2^32 lines and a single line produces fewer than 2^32 bytes")
    chk.assume(".DB/.DW payloads are analysed with 1, 2, 3 and 40 elements (the grammar guarantees at least one); the "
               "code treats the elements uniformly and indexes relative to len()")
    chk.sample({"shape": "Mov (LBL), ((R2+))", "entry": "Translator::push_instruction"})


def _receiver_is_map_get(body, term):
    """is the Option being unwrapped the direct result of HashMap::get?"""
    if term.get("k") != "call" or not term["args"]:
        return False
    pl = mirutil.place_of(term["args"][0])
    seen = 0
    while pl is not None and not pl["p"] and seen < 6:
        defs = mirutil.local_def_sites(body, pl["l"])
        if len(defs) != 1:
            return False
        item = defs[0][2]
        if item.get("k") == "call":
            return (mirutil.callee_def(item) or "").endswith("HashMap::<K, V, S, A>::get")
        if item.get("k") == "assign" and item["r"]["k"] == "use":
            pl = mirutil.place_of(item["r"]["o"])
            seen += 1
            continue
        return False
    return False
