"""C13 - no program and no external stimulus can crash the emulator core.

Every panic-capable MIR site (assert terminators: bounds, overflow, division;
calls to panicking functions: expect/unwrap/unreachable!/panic!) reachable from
the stimulus entry points of the machine is an obligation.  It is discharged if
abstract interpretation (A4) of every entry point, with the whole machine state
and all arguments unknown (only the two proved struct invariants assumed),
never finds the site able to fail, and the site was actually reached by the
analysis (or is statically unreachable)."""
from .. import absint, step, shapes, mirutil, panics, harness
from .. import domain as D
from ..domain import Agg, En, Ref, TOP, BOT, Rng
from ..facts import AnchorMissing

LEVEL = "proof"
EXPLANATION = ("panic-site enumeration over MIR + abstract interpretation of every stimulus entry point on a fully "
               "unknown machine (interval / finite-set / float-interval domain)")

RM = step.RM
MACHINE = step.MACHINE
MPR = "L::machine::microprogram_ram::MicroprogramRam"

EXCLUDE_ENTRY = {
    MACHINE + "::load": "program images are C06's subject",
    MACHINE + "::load_raw": "deprecated loader, program images are C06's subject",
    MACHINE + "::new_with_program": "program images are C06's subject",
    MPR + "::set_address": "public setter that can break the invariant current_index < 512; not part of the "
                           "property's stimulus set (clock edges, keys, resets, inputs)",
    "<%s as core::ops::index::Index<usize>>::index" % MPR:
        "raw table lookup by caller-chosen index; not part of the property's stimulus set",
}


def in_machine(b):
    return b.crate == "L" and "/src/machine/" in ("/" + b.file) and "Arbitrary" not in b.path


def run(ctx):
    p = ctx.p
    chk = ctx.chk
    # the premise "the stack limit of the raw machine is never NOSET" (which discharges the unreachable! arm of the stack
    # supervision) is established where the limit is stored: the load clauses of C07's rule, shared - for every value of the
    # two directives, on a machine that holds earlier limits, Machine::load never stores Stacksize::NotSet.
    from . import C07 as _C07
    chk.prefix = "premise/"
    chk.keep_only = lambda k: k.startswith(("load/limits/", "load/stacksize-never-notset", "load/analysable"))
    try:
        _C07.run(ctx)
    finally:
        chk.prefix = ""
        chk.keep_only = None
    I = absint.Interp(p)
    I.trace_blocks = True

    # ---- struct invariants used as premises, each proved here -----------------
    # (1) MicroprogramRam::current_index < 512
    writers = mirutil.field_writers(p, MPR, "current_index")
    wf = sorted({w["body"] for w in writers})
    whole = sorted({w["body"] for w in mirutil.whole_writers(p, MPR)})
    allowed = {MPR + "::set_address", MPR + "::reset", MPR + "::new", "<%s as core::clone::Clone>::clone" % MPR}
    chk.ob("invariant/current_index/writers", set(wf) | set(whole) <= allowed,
           "the micro-address is written only by new/reset (0) and set_address",
           p.need_type(MPR)["file"], "writers: %s, constructors: %s" % (wf, whole))
    callers = []
    for path, b in p.bodies.items():
        for bb, t in mirutil.calls_in(b):
            if mirutil.callee_name(t) == MPR + "::set_address":
                callers.append((path, bb, t))
    chk.floor("callers of MicroprogramRam::set_address", len(callers), 1)
    # the value passed is the result of next_microprogram_address in [0, 511]
    st = absint.State()
    sig = shapes.build(p, "L::machine::raw::signals::Signals")
    sa = I.new_alloc(st, "signals", sig)
    nb = p.need_body("L::machine::raw::signals::Signals::<'a>::next_microprogram_address")
    r = I.run_body(nb, [Ref(sa)], st, 0)
    bnd = D.bounds(r) if D.is_scalar(r) else None
    chk.ob("invariant/current_index/range", bnd is not None and 0 <= bnd[0] and bnd[1] <= 511,
           "next_microprogram_address is a 9-bit value for unknown signals", nb.loc(), "result bounds %s" % (bnd,),
           "A4 with every signal unknown")
    for path, bb, t in callers:
        b = p.bodies[path]
        arg = mirutil.place_of(t["args"][1])
        ok = False
        if arg is not None and not arg["p"]:
            # follow copies to the defining call
            l = arg["l"]
            for _ in range(6):
                defs = mirutil.local_def_sites(b, l)
                if len(defs) != 1:
                    break
                item = defs[0][2]
                if item.get("k") == "call":
                    ok = mirutil.callee_name(item) == nb.path
                    break
                if item.get("k") == "assign" and item["r"]["k"] == "use":
                    pl = mirutil.place_of(item["r"]["o"])
                    if pl is None or pl["p"]:
                        break
                    l = pl["l"]
                else:
                    break
        chk.ob("invariant/current_index/caller/%s" % path, ok,
               "every call of set_address passes the value of next_microprogram_address", "%s:%s" % (b.file, t["ln"]), "")
    chk.assume("MicroprogramRam::set_address is not called by code outside the workspace with a value >= 512")
    chk.assume("RawMachine::set_stacksize is never called with Stacksize::NotSet (its only workspace call site is guarded: C05)")

    # ---- entry points ------------------------------------------------------------
    entries = []
    for path, b in sorted(p.bodies.items()):
        if not in_machine(b) or b.kind not in ("Fn", "AssocFn") or b.generic:
            continue
        if b.vis != "Public":
            continue
        if b.self_ty:
            t = p.types.get(absint.strip_generics(b.self_ty))
            if t is not None and t.get("vis") != "Public":
                # method of a private type (pipeline stage wrappers): reachable only through
                # the public entry points, analysed from there
                continue
        if path in EXCLUDE_ENTRY:
            chk.note("entry point excluded: %s (%s)" % (path, EXCLUDE_ENTRY[path]))
            continue
        if path.startswith("<") and ("core::fmt::" in path or "core::hash::" in path):
            continue
        entries.append(path)
    chk.floor("stimulus entry points (public functions of the machine modules)", len(entries), 150)

    inv_raw = {"microprogram_ram.current_index": D.norm_rng(0, 511),
               "stacksize": En({vi: () for vi, v in enumerate(p.need_type(step.STACKSIZE)["variants"])
                                if v["n"] != "NotSet"})}
    ov_by_type = {
        "L::machine::raw::RawMachine": inv_raw,
        "L::machine::Machine": {("raw." + k): v for k, v in inv_raw.items()},
        MPR: {"current_index": D.norm_rng(0, 511)},
    }
    failing = {}
    unanalysable = []
    g = mirutil.call_graph(p)
    for path in entries:
        I.events.clear()
        try:
            harness.run_entry(p, I, path, ov_by_type)
        except absint.AnalysisLimit as e:
            unanalysable.append((path, str(e)))
            continue
        for k, evs in panics.failing_sites(I).items():
            failing.setdefault(k, []).append((path, evs[0]))
        for e in I.events:
            if e.kind in ("wild_write", "unknown_call_value", "recursion_or_depth", "unknown_terminator") and not e.in_log:
                unanalysable.append((path, repr(e)))
            if e.kind == "unknown_extern" and not e.in_log and not str(e.info).startswith("core::fmt"):
                unanalysable.append((path, repr(e)))
    chk.ob("entry-points-analysable", not unanalysable,
           "every entry point is interpreted without an unmodelled construct",
           "", "%s" % unanalysable[:6])

    # ---- sites ---------------------------------------------------------------------
    reach = mirutil.reachable_fns(p, entries, g)
    fns = [f for f in reach if f in p.bodies and p.bodies[f].crate == "L"
           and not (f.startswith("<") and ("core::fmt::" in f or "core::hash::" in f))]
    # every call returns: no function of the core can reach itself (a recursion guarded only by data - e.g. "clamp and retry" -
    # is an unbounded stack or an endless loop for the value that never satisfies the guard)
    local = {f for f in reach if f in p.bodies and p.bodies[f].crate == "L"}
    cyc = []
    color = {}

    def dfs(f0):
        stack = [(f0, iter(sorted(c for c in g.get(f0, ()) if c in local)))]
        color[f0] = 1
        path = [f0]
        while stack:
            f_, it_ = stack[-1]
            adv = False
            for c in it_:
                if color.get(c) == 1:
                    cyc.append(path[path.index(c):] + [c])
                elif c not in color:
                    color[c] = 1
                    path.append(c)
                    stack.append((c, iter(sorted(x for x in g.get(c, ()) if x in local))))
                    adv = True
                    break
            if not adv:
                color[f_] = 2
                stack.pop()
                path.pop()
    for f0 in sorted(local):
        if f0 not in color:
            dfs(f0)
    chk.ob("no-recursion", not cyc, "no function reachable from the entry points can call itself, directly or through others",
           "", "cycles: %s" % [" -> ".join(x.rsplit("::", 2)[-2] + "::" + x.rsplit("::", 1)[-1] for x in c_) for c_ in cyc[:3]]
           if cyc else "%d functions, call graph acyclic" % len(local), "cycle search on the resolved call graph")
    sites = panics.enumerate_sites(p, fns)
    chk.floor("panic-capable sites reachable from the entry points", len(sites), 15)
    # calls to std routines that panic on a contract violation (unmodelled foreign functions are otherwise taken as total)
    for c_ in panics.contract_calls(p, fns):
        chk.ob("contract/%s/%s#%d" % (c_["fn"], c_["api"].rsplit("::", 2)[-2].split("<")[0] + "::" + c_["api"].rsplit("::", 1)[-1], c_["k"]),
               c_["ok"], "a std routine with a panic contract is called only where the call site guarantees the contract (%s)" % c_["rule"],
               "%s:%s" % (p.bodies[c_["fn"]].file, c_["ln"]), "%s: %s" % (c_["api"], c_["why"]),
               "call sites of contract-bearing std routines in the analysed functions; whole-range forms discharged by type")
    hit_fns = {k[0] for k in I.block_hits}
    for s in sites:
        fl = failing.get((s["fn"], s["bb"]))
        b = p.bodies[s["fn"]]
        reached = (s["fn"], s["bb"]) in I.block_hits
        if fl:
            ent, ev = fl[0]
            chk.ob("site/%s" % s["key"], False, "a reachable panic-capable site can never fail",
                   "%s:%s" % (b.file, s["ln"]),
                   "may fail when entered through %s: %s %s" % (ent, ev.kind, _fmt(ev.info)))
        else:
            arg = "A4: condition holds on every path of every entry point" if reached else \
                  "block not reachable on any abstract path of any entry point"
            if not reached and s["fn"] not in hit_fns:
                # a function that the analysis never entered: do not discharge silently
                chk.ob("site/%s" % s["key"], False, "a reachable panic-capable site can never fail",
                       "%s:%s" % (b.file, s["ln"]), "function never entered by the analysis (cannot discharge)")
            else:
                chk.ob("site/%s" % s["key"], True, "a reachable panic-capable site can never fail",
                       "%s:%s" % (b.file, s["ln"]), "%s %s" % (s["kind"], s["detail"]), arg)
    chk.note("entry points analysed: %d; functions reached: %d; sites: %d" % (len(entries), len(hit_fns), len(sites)))
    chk.sample({"site": sites[0]["key"], "kind": sites[0]["kind"]} if sites else "none")


def _fmt(info):
    if isinstance(info, dict):
        return {k: (repr(v)[:80]) for k, v in info.items() if k not in ("bb",)}
    return repr(info)[:200]
