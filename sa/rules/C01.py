"""C01 - the CPU executes every emittable instruction per the instruction set.

Numeric results of the ALU are not decided (C08 decides the ALU's shape).
Decided: for every defined first byte (and every defined second byte of the
two-byte forms) and every micro-path from dispatch to the next instruction
fetch, the effect of the path on the architectural state - computed by symbolic
register-transfer evaluation of the control store (A6, sa/microsym.py) - equals
the reference semantics of spec/isa_sem.py: final expressions of R0-R3, PC and
SP over the initial values (so the write-set is exact: "nothing else changes"),
the result function and operand roles, operand fetch per addressing mode with
exactly one post-increment, pushes/pops, jump targets, bus reads and writes in
order, and the flag rule class (untouched / C,Z,N of the result / Z,N of the
result / loaded value).  Bitwise NOR networks are compared by truth table.
Additionally: every opcode byte the assembler can emit is a defined
instruction of the control store (compiler <-> control store agreement)."""
import importlib.util
import os

from .. import microsym as ms
from .. import spec, asmmodel, absint, pipeline
from .. import domain as D
from ..domain import En, Arr
from ..facts import AnchorMissing, VERIF

LEVEL = "other"
EXPLANATION = ("symbolic register-transfer evaluation of every micro-path of every instruction form, compared "
               "structurally with a reference ISA semantics; ALU arithmetic itself is not decided")


def load_sem():
    path = os.path.join(VERIF, "spec", "isa_sem.py")
    sp = importlib.util.spec_from_file_location("isa_sem", path)
    m = importlib.util.module_from_spec(sp)
    sp.loader.exec_module(m)
    return m


COND = {1: ("CF", 1), 2: ("ZF", 1), 3: ("NF", 1), 5: ("CF", 0), 6: ("ZF", 0), 7: ("NF", 0)}


def jr_taken(first, conds):
    c = first & 7
    if c == 0:
        return True
    if c == 4:
        return False
    flag, val = COND[c]
    if flag not in conds:
        return None
    return conds[flag] == val


COMMUTATIVE = {"ADD", "ADDS", "ADC", "ADCS"}


def canon(v):
    """canonical form: operands of the commutative adder functions in a fixed order"""
    if isinstance(v, tuple):
        if v and v[0] == "alu" and v[1] in COMMUTATIVE:
            a, b = canon(v[2]), canon(v[3])
            if repr(b) < repr(a):
                a, b = b, a
            return ("alu", v[1], a, b) + tuple(canon(x) for x in v[4:])
        return tuple(canon(x) for x in v)
    if isinstance(v, list):
        return [canon(x) for x in v]
    return v


def flags_ok(exp, st, sem):
    f = st.flags
    if exp == sem.UNSPEC:
        return True, ""
    if exp == "same":
        ok = f == ms.Flags(ms.sym("R4"))
        return ok, "flags %r, expected untouched" % (f,)
    if exp[0] == "value":
        ok = canon(f.as_byte()) == canon(exp[1]) and f.c is None and f.z is None and f.n is None
        return ok, "flags %r, expected the loaded byte %r" % (f, exp[1])
    if exp[0] == "ie":
        b = f.base
        ok = f.c is None and f.z is None and f.n is None and isinstance(b, ms.Bits)
        if ok:
            r4 = ms.sym("R4")
            x, y = ms.unify(b, r4)
            # C/Z/N keep their value; IE and the four upper bits of the flag register become 1 (EI: FR | 0xF8) resp. 0 (DI: FR & 0x07)
            ok = all(x.tables[k] == y.tables[k] for k in range(3)) and \
                all(ms.is_const(ms.Bits(x.vars, [x.tables[k]] * 8)) == (0xFF if exp[1] else 0) for k in range(3, 8))
        return ok, "flags %r, expected C/Z/N unchanged, IE and the upper four bits = %d" % (f, exp[1])
    if exp[0] in ("czn", "zn"):
        res = exp[1]
        recs = []
        for part, tag in ((f.z, "z"), (f.n, "n")) + (((f.c, "c"),) if exp[0] == "czn" else ()):
            if not (isinstance(part, tuple) and part[0] == tag and isinstance(part[1], tuple) and part[1][0] == "alures"):
                return False, "flag %s is %r, expected to come from the result" % (tag, part)
            recs.append(part[1])
        ok = all(r == recs[0] for r in recs) and canon(recs[0][5]) == canon(res)
        return ok, "flags derive from %r, expected from the result %r" % (recs[0][5] if recs else None, res)
    return False, "unknown flag expectation %r" % (exp,)


def run(ctx):
    p = ctx.p
    chk = ctx.chk
    g = ctx.graph
    mt = ctx.micro
    isa = spec.load("isa")
    sem = load_sem()
    undefined = spec.expand_ranges(isa["undefined_first_bytes"]["ranges"])
    two_lo, two_hi = isa["two_byte"]["first_range"]
    def_second = sorted(spec.expand_ranges(isa["two_byte"]["second_ranges"]))
    err = isa["halting_first_bytes"]["error_stop"]

    nforms = 0
    npaths = 0
    table = {}
    # ---- the register-transfer model is the code's pipeline ---------------------------------
    pipeline.check(ctx)
    # ... and the opcode whose routine runs is the byte that was fetched (also for STOP, resumed by the continue key)
    from .. import fetchlatch
    fetchlatch.obligations(ctx, prefix="fetch/")
    fetchlatch.stop_edge_advances(ctx, prefix="fetch/")
    # ---- ... and the ALU functions have the documented shape (the rule of C08, shared) -------
    from . import C08
    chk.prefix = "alu/"
    try:
        C08.run(ctx)
    finally:
        chk.prefix = ""

    # ---- ... and a load/store reaches the documented storage: RAM cell, output register, input register (the rule of
    # C10, shared; the oracle models the bus as that address map) --------------------------------------------------------
    from . import C10
    chk.prefix = "bus/"
    try:
        C10.run(ctx)
    finally:
        chk.prefix = ""

    def check_form(first, second):
        nonlocal nforms, npaths
        key = "%#04x" % first + ("/%#04x" % second if second is not None else "")
        probe = sem.expected(first, second, taken=True)
        if probe is None:
            chk.ob("defined/%s" % key, False, "every defined opcode has reference semantics", "spec/isa_sem.py",
                   "no reference semantics for %s" % key)
            return
        name = probe[1]
        nforms += 1
        paths = ms.instruction_paths(g, first, second)
        where = "%s (%s), control store" % (key, name)
        if probe[0].skip_values:
            # data-dependent loop: write-set of every control word of the routine
            # every control state of the routine (interrupt entry excluded: C04)
            seen = set()
            stack = list(ms.dispatch_states(g, first))
            while stack:
                s_ = stack.pop()
                if s_ in seen:
                    continue
                seen.add(s_)
                if s_[0] in g.done or s_[0] not in g.prog:
                    continue
                for pins, a2, i2 in g.succ(s_[0], s_[1]):
                    if not ms.is_int_taken(pins):
                        stack.append((a2, i2))
            rd = first & 3
            viol = []
            for (a, i) in seen:
                if a not in g.prog:
                    continue
                w = mt.word[a]
                ra, rb, rw = mt.regs(a, i)
                if w["mrgwe"] and rw not in (rd, 6, 7) and not (a in g.done and rw == 3):
                    viol.append((hex(a), mt.regnames[rw]))
                if w["buswr"]:
                    viol.append((hex(a), "bus write"))
            chk.ob("effect/%s/write-set" % key, not viol,
                   "%s writes only its destination register (and microcode scratch), no memory" % name, where,
                   "offending micro-operations: %s" % viol[:5])
            loop_clauses(first, key, name, where, seen, paths)
            return
        ends = {e for _, _, e in paths}
        chk.ob("effect/%s/paths" % key, ends == {"done"} and bool(paths),
               "every micro-path of the form reaches the next instruction fetch without a cycle", where,
               "path endings: %s" % sorted(ends))
        for path, conds, ended in paths:
            if ended != "done":
                continue
            npaths += 1
            st = ms.run_path(mt, path)
            taken = jr_taken(first, conds) if name == "JR" else None
            if name == "JR" and taken is None:
                # the path does not test the flag its condition names
                chk.ob("effect/%s/%s" % (key, _ck(conds)), False, "a conditional jump tests the flag of its condition",
                       where, "path conditions %s" % conds)
                continue
            rs, _ = sem.expected(first, second, taken=taken)
            problems = []
            for r in (0, 1, 2, 3, 5):
                if canon(st.regs[r]) != canon(rs.regs[r]):
                    problems.append("%s = %r, expected %r" % (mt.regnames[r], st.regs[r], rs.regs[r]))
            if canon(st.writes) != canon(rs.writes):
                problems.append("bus writes %r, expected %r" % (st.writes, rs.writes))
            # reads have no effect (C10); the values used are part of the expressions above.  Only
            # required: every operand fetch of the reference happens (extra re-reads are not an effect)
            got = [canon(a) for a, _ in st.reads]
            missing = [a for a in rs.reads if canon(a) not in got]
            if missing:
                problems.append("no bus read at %r" % (missing,))
            fok, fdet = flags_ok(rs.flags, st, sem)
            if not fok:
                problems.append(fdet)
            chk.ob("effect/%s/%s" % (key, _ck(conds)), not problems,
                   "the micro-path's effect on registers, PC, SP, flags and memory is the instruction's reference semantics "
                   "and nothing else changes", where,
                   "; ".join(problems)[:700] if problems else "path %s" % [hex(a) for a, _ in path],
                   "symbolic register-transfer evaluation of %d control words" % len(path))
            if key not in table:
                table[key] = {"mnemonic": name, "words": [hex(a) for a, _ in path]}

    alu = spec.load("alu")
    hold_fns = {f for f, d in alu.items() if d.get("carry") == ["Cin"] and d.get("result_is") and f != "INVC"}
    sticky_fns = {"ADDH"}     # documented: keeps the carry input or sets it when the sum exceeds 8 bits
    adder_fns = {"ADD", "ADDS", "ADC", "ADCS", "ADDH"}

    def carry_transfer(fn, cur):
        d = alu.get(fn, {})
        if d.get("carry_const") is False:
            return "zero"
        if d.get("carry_const") is True:
            return "one"
        if fn in hold_fns:
            return cur
        if fn in sticky_fns:
            return "sticky" if cur in ("zero", "sticky") else "other"
        return "other"

    def cjoin(a, b):
        if a is None:
            return b
        if b is None or a == b:
            return a
        if {a, b} <= {"zero", "sticky"}:
            return "sticky"
        return "other"

    def loop_clauses(first, key, name, where, seen, paths):
        """the clauses of C01 about MUL and DIV that are visible in the shape of the routine"""
        rd = first & 3
        succs = {}
        for s_ in seen:
            if s_[0] in g.done or s_[0] not in g.prog:
                continue
            succs[s_] = [(a2, i2) for pins, a2, i2 in g.succ(s_[0], s_[1]) if not ms.is_int_taken(pins)]
        if name == "MUL":
            # carry = "product exceeds 255" needs the overflow of *every* addition of the routine to
            # accumulate: forward dataflow of an abstract carry over the routine's control states
            #   untouched -> zero (cleared) -> sticky (cleared, then only carry-holding additions / holds)
            val = {s_: None for s_ in seen}
            work = []
            for s0 in ms.dispatch_states(g, first):
                val[s0] = "entry"
                work.append(s0)
            out = {}
            while work:
                s_ = work.pop()
                a, i = s_
                cur = val[s_]
                if a in g.done or a not in g.prog:
                    continue
                w = mt.word[a]
                o = carry_transfer(w["alu"], cur) if w["mchflg"] else cur
                if out.get(s_) == o:
                    continue
                out[s_] = o
                for t in succs.get(s_, ()):
                    j = cjoin(val.get(t), o)
                    if j != val.get(t):
                        val[t] = j
                        work.append(t)
                    elif t not in out:
                        work.append(t)
            ends = {val[s_] for s_ in seen if s_[0] in g.done}
            chk.ob("effect/%s/carry-accumulates" % key, bool(ends) and ends <= {"sticky"},
                   "MUL clears carry, then every flag-changing word up to the next fetch holds or accumulates it "
                   "(carry = some addition overflowed = product exceeds 255)", where,
                   "abstract carry at the instruction boundary: %s" % sorted(map(str, ends)))
            unrec = [hex(a) for (a, i) in seen if a in g.prog and a not in g.done
                     and mt.word[a]["alu"] in adder_fns and mt.word[a]["mrgwe"] and not mt.word[a]["mchflg"]]
            chk.ob("effect/%s/every-addition-recorded" % key, not unrec,
                   "every addition of the MUL routine records its overflow in the flags", where,
                   "additions without flag update: %s" % unrec)
            last = [(a, i) for (a, i) in seen if a in g.prog and a not in g.done
                    and any(t[0] in g.done for t in succs.get((a, i), ()))]
            okl = bool(last) and all(mt.word[a]["mchflg"] and mt.word[a]["mrgwe"] and mt.regs(a, i)[2] == rd
                                     and mt.word[a]["alu"] in hold_fns for a, i in last)
            chk.ob("effect/%s/result-flags" % key, okl,
                   "the word that delivers the product to the destination register sets Z/N from it and holds carry", where,
                   "delivering words: %s" % [(hex(a), mt.word[a]["alu"]) for a, i in last])
        if name == "DIV":
            # division by zero: the acyclic path taken when the divisor tests zero
            zp = [(path, conds) for path, conds, ended in paths if ended == "done" and conds.get("ZO") == 1]
            ok = bool(zp)
            det = []
            for path, conds in zp:
                st = ms.run_path(mt, path)
                f = st.flags
                cfun = f.c[1][1] if isinstance(f.c, tuple) and isinstance(f.c[1], tuple) else None
                zres = f.z[1][5] if isinstance(f.z, tuple) and isinstance(f.z[1], tuple) else None
                want = ms.const(0xFF) if rd != 3 else ("alu", "ADD", ms.const(0xFF), ms.const(1))
                good = (canon(st.regs[rd]) == canon(want) and alu.get(cfun, {}).get("carry_const") is True
                        and ms.is_const(zres) == 0xFF and f.n == ("n", f.z[1])
                        and all(st.regs[r] == ms.sym("R%d" % r) for r in (0, 1, 2, 5) if r != rd)
                        and (rd == 3 or canon(st.regs[3]) == canon(("alu", "ADD", ms.sym("R3"), ms.const(1)))))
                if not good:
                    ok = False
                    det.append("%s := %r, carry from %s, Z/N from %r" % (mt.regnames[rd], st.regs[rd], cfun, zres))
            chk.ob("effect/%s/division-by-zero" % key, ok,
                   "DIV by zero yields 0xFF with carry set (Z/N of 0xFF)", where,
                   "; ".join(det) if det else "%d zero-divisor paths" % len(zp))

    for first in range(1, 256):
        if first == err or first in undefined:
            continue
        if two_lo <= first <= two_hi:
            for second in def_second:
                check_form(first, second)
        else:
            check_form(first, None)
    chk.floor("instruction forms checked", nforms, 1500)
    chk.floor("micro-paths evaluated", npaths, 1500)

    # ---- clause 1: emittable subset of defined ---------------------------------------------
    am = asmmodel.AsmModel(p)
    I = absint.Interp(p)
    bol = p.need_type("L::compiler::ByteOrLabel")
    bvi = {v["n"]: i for i, v in enumerate(bol["variants"])}
    emitted_first = set()
    emitted_pairs = set()
    directives = {"AsmOrigin", "AsmByte", "AsmDefineBytes", "AsmDefineWords", "AsmEquals", "AsmStacksize", "AsmProgramsize"}
    for vname, combo, value in am.instructions():
        if vname in directives:
            continue
        res = am.push_instruction(I, value, next_addr=10)
        entries = res["tr"]["bytes"] if res["tr"] else None
        if not (isinstance(entries, Arr) and len(entries.e) == 1):
            continue
        bols = entries.e[0].f[1]
        bytes_ = []
        for b_ in bols.e:
            if isinstance(b_, En) and bvi["Byte"] in b_.vs:
                bytes_.append(b_.vs[bvi["Byte"]][0])
            else:
                bytes_.append(None)
        if not bytes_ or not isinstance(bytes_[0], int):
            continue
        f0 = bytes_[0]
        emitted_first.add(f0)
        if two_lo <= f0 <= two_hi:
            # the second opcode byte follows the optional source operand byte
            ms_ = (f0 >> 2) & 3
            rs_ = f0 & 3
            idx = 2 if (rs_ == 3 and ms_ in (2, 3)) else 1
            if idx < len(bytes_) and isinstance(bytes_[idx], int):
                emitted_pairs.add((f0, bytes_[idx]))
    bad_first = sorted(b for b in emitted_first if b in undefined or b == err)
    chk.ob("emittable/first-bytes-defined", not bad_first and len(emitted_first) > 150,
           "every first opcode byte the assembler can emit is a defined instruction", "compiler.rs vs control store",
           "emitted: %d distinct; undefined among them: %s" % (len(emitted_first), [hex(b) for b in bad_first]))
    bad_pairs = sorted(pr for pr in emitted_pairs if pr[1] not in def_second)
    chk.ob("emittable/second-bytes-defined", not bad_pairs and len(emitted_pairs) > 500,
           "every second opcode byte the assembler can emit is a defined second byte", "compiler.rs vs control store",
           "emitted pairs: %d; undefined: %s" % (len(emitted_pairs), bad_pairs[:5]))
    chk.extra["forms_sample"] = {k: table[k] for k in list(table)[:30]}
    chk.assume("the ALU functions compute what their names say (decided in shape by C08, numerically not at all)")
    chk.assume("R6/R7 are microcode scratch registers and not architectural (property: 'scratch registers are not part of the comparison')")
    chk.sample({"form": "0x69 ADD R1,R2", "expected": "R1 := ADD(R1,R2); flags C,Z,N from that result; PC := PC+1; one bus read at PC"})


def _ck(conds):
    if not conds:
        return "path"
    return ",".join("%s=%s" % kv for kv in sorted(conds.items()))
