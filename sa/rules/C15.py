"""C15 - clock-cycle cost of an instruction = micro-steps + one wait per RAM access.

  1. Wait-flag discipline: per control word, the data-path stages are abstractly
     interpreted with the address register restricted to the RAM cell [0,0xEF]
     and to the I/O cell [0xF0,0xFF]: the wait flag is raised exactly for bus
     words addressing RAM; a clock edge with the flag set consumes it and
     changes nothing else; the complete writer set of the flag is checked.
  2. One control word per un-skipped edge: the clock-edge function is a straight
     line through the seven stages and the micro-address is set exactly once.
  3. Fixed length per instruction form (micro-CFG): all paths of a form that
     differ only in data conditions have the same number of control words and the
     same sequence of bus accesses; exceptions exactly: conditional relative
     jumps, MUL, DIV; the interrupt entry adds a fixed tail.
"""
from .. import absint, step, shapes, mirutil, spec, mgraph
from .. import domain as D
from ..domain import Agg, En, Ref, TOP, BOT
from ..facts import AnchorMissing

LEVEL = "proof"
EXPLANATION = ("abstract interpretation of the bus stages per control word and address cell + path enumeration "
               "over the micro-CFG + structural checks of the clock-edge function")

RM = step.RM
INT_INPUTS = {"IEF", "IFF1", "LVL"}


def run(ctx):
    p = ctx.p
    chk = ctx.chk
    g = ctx.graph
    mt = ctx.micro
    isa = spec.load("isa")
    I = absint.Interp(p)

    # ---- 0. who issues clock edges --------------------------------------------
    # "the number of clock edges between two boundaries" counts the edges the user issues; an edge issued from anywhere
    # else (a key handler that "helps" the machine out of a halt word, a setter that lets a pending wait elapse) is not
    # counted and consumes a wait or a micro-step, so the cost of the next instruction depends on history.  The only caller
    # of the raw clock edge in both crates is the clock key of `Machine`.
    EDGE = step.RM + "::trigger_clock_edge"
    p.need_body(EDGE)
    p.need_body(step.MACHINE + "::trigger_key_clock")
    cg = mirutil.call_graph(p)
    KC = step.MACHINE + "::trigger_key_clock"
    rev = {}
    for k_, v_ in cg.items():
        if k_ in p.bodies and p.bodies[k_].crate in ("L", "B"):
            for c_ in v_:
                rev.setdefault(c_, set()).add(k_)
    # functions from which an edge is reached without passing through the clock key (helpers of the clock key are such
    # functions too: they are fine as long as nobody but the clock key - or another such helper - calls them)
    reach, todo = set(), [EDGE]
    while todo:
        x_ = todo.pop()
        for c_ in rev.get(x_, ()):
            if c_ != KC and c_ not in reach:
                reach.add(c_)
                todo.append(c_)
    outside = sorted(f_ for f_ in reach if not rev.get(f_) or not rev[f_] <= (reach | {KC}))
    chk.ob("edges/only-the-clock-key", KC in rev.get(EDGE, set()) | {c_ for f_ in reach for c_ in rev.get(f_, ())} and not outside,
           "clock edges are issued by Machine::trigger_key_clock only (directly or through helpers nobody else calls): no other "
           "routine of the library or the binary advances the machine by an uncounted edge", p.need_body(EDGE).loc(),
           "routines that reach RawMachine::trigger_clock_edge without passing through the clock key and are called from "
           "elsewhere (or from nowhere): %s; direct callers besides the clock key: %s"
           % (outside, sorted(rev.get(EDGE, set()) - {KC})),
           "who-may-call over the resolved call graph (both crates)")

    # ---- 1. wait flag ---------------------------------------------------------
    nbus = 0
    for a in sorted(g.prog):
        w = mt.word[a]
        bk = g.back[a]
        bus = bool(w["busen"] or w["buswr"])
        where = "control word %#05x" % a
        if g.back[a]["bad"]:
            chk.ob("bus-stage-analysable/%#05x" % a, False, "the data-path stages are fully analysable", where,
                   "%s" % g.back[a]["bad"][:2])
            continue
        chk.ob("bus-use-matches-word/%#05x" % a,
               (bool(w["busen"]) == bk["bus_read"]) and (bool(w["buswr"]) == bk["bus_write"]),
               "Bus::read is reached iff BUSEN, Bus::write iff BUSWR", where,
               "busen=%s buswr=%s reads=%s writes=%s" % (w["busen"], w["buswr"], bk["bus_read"], bk["bus_write"]))
        if bus:
            nbus += 1
            ws = bk.get("waits", {})
            chk.ob("wait/ram/%#05x" % a, ws.get("ram") == [1],
                   "a bus word addressing 0x00-0xEF always raises the wait flag", where, "wait after: %s" % (ws.get("ram"),),
                   "A4 with every register in [0x00,0xEF]")
            chk.ob("wait/io/%#05x" % a, ws.get("io") == [0],
                   "a bus word addressing 0xF0-0xFF never raises the wait flag", where, "wait after: %s" % (ws.get("io"),),
                   "A4 with every register in [0xF0,0xFF]")
        else:
            chk.ob("wait/none/%#05x" % a, "pending_wait_for_memory" not in bk["writes"],
                   "a word without bus access does not touch the wait flag", where, "writes: %s" % bk["writes"])
    chk.floor("bus-access control words", nbus, 50)
    # ... and it is the address on the bus that decides, not the content of another register or the data byte: the data-path
    # stages on concrete register contents (six assignments in which any two registers differ in class at least once), per
    # (word, register-selection class), with the address handed to Bus::read / Bus::write recorded
    from .. import datapath
    dp_ = datapath.build(p, mt, cache_dir=p.facts_dir)
    bad_w = []
    ncases = 0
    for (a_, ir_), r_ in sorted(dp_["back"].items()):
        for bit_, flip_, rd_, wr_, w_ in r_.get("waitcases", []):
            addrs = [x for x in rd_ + wr_]
            ncases += 1
            if len(set(addrs)) != 1 or not isinstance(addrs[0], int):
                bad_w.append("word %#05x ir %#04x: bus addresses %s" % (a_, ir_, addrs))
                continue
            want_ = [1] if addrs[0] <= 0xEF else [0]
            if w_ != want_:
                bad_w.append("word %#05x ir %#04x: address %#04x on the bus, wait flag %s" % (a_, ir_, addrs[0], w_))
    chk.ob("wait/by-address", not bad_w and ncases >= 600,
           "a bus access waits exactly when the address on the bus is 0x00-0xEF, whatever the other registers hold",
           "raw/mod.rs read_from_memory / write_to_memory", "; ".join(bad_w[:3]) or "%d (word, class, assignment) cases" % ncases,
           "A4 of the data-path stages on concrete register contents with recording stand-ins for Bus::read / Bus::write")
    # a waiting edge consumes the flag and changes nothing else
    ov = step.machine_overrides(p, None, "Running", True)
    st, ma, r = step.run_method(p, I, step.EDGE, ov)
    w = step.written_fields(p, I)
    fin = step.field(p, I, st, ma, "pending_wait_for_memory")
    chk.ob("wait/consumed", w == {"pending_wait_for_memory"} and fin == En({0: ()}),
           "a clock edge with the wait flag set clears it and changes nothing else (one wait = one skipped edge)",
           p.need_body(step.EDGE).loc(), "written: %s, flag after: %r" % (sorted(w), fin))
    writers = {x["body"] for x in mirutil.field_writers(p, RM, "pending_wait_for_memory")}
    allowed = {RM + "::cpu_reset", step.EDGE, step.STAGES[0], step.STAGES[2]}
    chk.ob("wait/writers", writers <= allowed and len(writers) >= 3,
           "the wait flag is written only by the reset, the two bus stages and the consuming take()",
           p.need_type(RM)["file"], "writers: %s" % sorted(writers))
    # the RAM boundary of the wait logic equals the decoder's (C10): checked through the cells above
    # (a boundary other than 0xEF makes a cell inhomogeneous)

    # ---- 2. straight-line pipeline ------------------------------------------------
    eb = p.need_body(step.EDGE)
    stage_names = ["apply_pending_register_writes", "update_instruction_from_bus", "fetch_interrupts", "update_word",
                   "read_from_memory", "calculate_alu_output", "write_to_memory"]
    calls = [(bb, mirutil.callee_name(t)) for bb, t in mirutil.calls_in(eb)]
    dom = mirutil.dominators(eb)
    order = []
    for sn in stage_names:
        sites = [bb for bb, c in calls if c and c.endswith("::" + sn)]
        chk.ob("pipeline/once/%s" % sn, len(sites) == 1, "each pipeline stage is called exactly once per clock edge",
               eb.loc(), "call sites: %d" % len(sites))
        order.append(sites[0] if sites else None)
    ok = all(x is not None for x in order) and all(order[i] in dom[order[i + 1]] for i in range(len(order) - 1))
    chk.ob("pipeline/order", ok,
           "the stages run in the order commit, IR update, interrupt fetch, word update, bus read, ALU, bus write",
           eb.loc(), "blocks: %s" % order)
    # no stage call inside a cycle
    sc = mirutil.succs(eb)
    idx, heads, _ = absint.Interp(p).rpo(eb)
    in_loop = False
    for bb in [x for x in order if x is not None]:
        # bb lies on a cycle iff it can reach itself
        seen = set()
        stack = list(sc[bb])
        while stack:
            x = stack.pop()
            if x == bb:
                in_loop = True
                break
            if x in seen:
                continue
            seen.add(x)
            stack.extend(sc[x])
    chk.ob("pipeline/no-loop", not in_loop, "no pipeline stage is called inside a loop", eb.loc(), "")
    ub = p.need_body("L::machine::raw::MachineAfterInterruptFetching::<'a>::update_word")
    sa_sites = [bb for bb, t in mirutil.calls_in(ub)
                if mirutil.callee_name(t) == "L::machine::microprogram_ram::MicroprogramRam::set_address"]
    pdom = mirutil.postdominators(ub)
    chk.ob("pipeline/one-word-per-edge", len(sa_sites) == 1 and sa_sites[0] in pdom.get(0, set()),
           "the micro-address is set exactly once on every path of the word-update stage", ub.loc(),
           "set_address call sites: %s" % sa_sites)

    # semantic count: on an un-skipped edge the micro-address is written exactly once
    ov = step.machine_overrides(p, None, "Running", False)
    st, ma, r_ = step.run_method(p, I, step.EDGE, ov)
    idx_writes = [e for e in I.events if e.kind == "write" and e.info[0][1] == "machine"
                  and shapes.name_path(p, RM, e.info[1]) == "microprogram_ram.current_index"]
    chk.ob("pipeline/micro-address-written-once", len(idx_writes) == 1,
           "an un-skipped clock edge writes the micro-address exactly once (through whatever helpers)",
           eb.loc(), "writes: %s" % [(e.body, e.stack[-2:]) for e in idx_writes],
           "A4 write log of the whole clock edge, all control words")

    # ---- 3. fixed length per form -------------------------------------------------
    undefined = spec.expand_ranges(isa["undefined_first_bytes"]["ranges"])
    err = isa["halting_first_bytes"]["error_stop"]
    two_lo, two_hi = isa["two_byte"]["first_range"]
    def_second = spec.expand_ranges(isa["two_byte"]["second_ranges"])
    variable = set(range(0x21, 0x24)) | set(range(0x25, 0x28)) | set(range(0xB0, 0xC0)) | set(range(0xC0, 0xD0))
    regn = mt.regnames

    def paths_from(starts, load_filter):
        """all paths (lists of states) from starts to the first DONE state; interrupt-taken edges end a path
        with marker 'INT'.  Returns None if a cycle is found."""
        out = []
        for s0 in starts:
            stack = [(s0, [s0], frozenset([s0]))]
            while stack:
                s, path, onpath = stack.pop()
                a, i = s
                if a in g.done and len(path) > 0 and s is not s0:
                    out.append((path, "DONE"))
                    continue
                if a not in g.prog:
                    return None
                for pins, a2, i2 in g.succ(a, i):
                    if g.is_load(a) and not load_filter(a, i2):
                        continue
                    t = (a2, i2)
                    taken_int = any(k in INT_INPUTS for k in pins) and a2 not in g.done and \
                        g.irkind.get(a2, ("",))[0] != "x" and _is_int_edge(g, a, i, pins, a2)
                    if taken_int:
                        out.append((path + [t], "INT"))      # including the word that hands over to the interrupt entry
                        continue
                    if t in onpath:
                        return None
                    if a2 in g.done:
                        out.append((path + [t], "DONE"))
                        continue
                    stack.append((t, path + [t], onpath | {t}))
        return out

    def sig(path):
        """cycle-relevant signature: number of words, sequence of bus accesses by address register"""
        acc = []
        for (a, i) in path:
            w = mt.word[a]
            if w["busen"] or w["buswr"]:
                ra = mt.regs(a, i)[0]
                acc.append(("w" if w["buswr"] else "r") + regn[ra])
        return (len(path), tuple(acc))

    def dispatch_states(b):
        out = set()
        for d in g.done:
            for pins, a2, i2 in g.succ(d, 0, loaded=b):
                out.add((a2, i2))
        return out

    # "the instruction's documented path": where the path depends on data (the MUL/DIV routines, any word whose next address
    # tests an ALU condition) the code's pipeline does what the control signals of those words say - operands, ALU function
    # evaluated in every word (also one that stores nothing) and the write-back of the result (the rule of C01, restricted)
    from .. import pipeline
    ddw = g.data_driven_words([b_ for b_ in range(0xB0, 0xD0)])
    chk.floor("data-driven control words", len(ddw), 20)
    pipeline.control_part(ctx, "documented-path", words=ddw, flags=False)
    pipeline.accessors(ctx, "documented-path")

    # "does not depend on history": what follows a reset starts from one control state (the micro-address and the instruction
    # register of power-on), whatever was being executed when the reset came - the reset clause of C09, shared
    from .. import fetchlatch
    fetchlatch.reset_control_state(ctx, prefix="history/")
    # "between two instruction boundaries": the boundary test is the fetch-word test, nothing more and nothing less
    fetchlatch.boundary_predicate(ctx)

    table = {}
    nforms = 0
    for b in range(1, 256):
        if b == err or b in undefined or (two_lo <= b <= two_hi):
            continue
        ps = paths_from(dispatch_states(b), lambda a, i2: False)
        where = "first byte %#04x" % b
        if b in variable:
            if ps is None:
                chk.ob("length/variable-loop/%#04x" % b, 0xB0 <= b <= 0xCF, "only MUL and DIV contain a data-driven loop",
                       where, "")
                # MUL and DIV work on registers only: apart from the closing opcode fetch no word of the routine may
                # touch the bus (a bus word addressed through a scratch register would add a wait that depends on what
                # an earlier instruction left there, not on the instruction trace)
                seen_, _e, _b = g.explore(dispatch_states(b), stop_at_done=True)
                # (states whose IR no longer holds the opcode belong to the interrupt entry that may follow the routine)
                busw = sorted({a_ for (a_, i_) in seen_ if i_ == b and a_ in g.prog and a_ not in g.done
                               and (mt.word[a_]["busen"] or mt.word[a_]["buswr"])})
                chk.ob("length/loop-register-only/%#04x" % b, not busw and len(seen_) >= 5,
                       "the MUL/DIV routine touches the bus only for the closing opcode fetch, so its cycle count depends on "
                       "its operands alone", where, "bus words inside the routine: %s (%d control states)"
                       % ([hex(x) for x in busw], len(seen_)), "reachability over the micro-CFG from the dispatch of the opcode")
            else:
                sigs = {sig(pth) for pth, end in ps if end == "DONE"}
                lens = sorted({s[0] for s in sigs})
                chk.ob("length/jr/%#04x" % b, len(lens) <= 2,
                       "a conditional relative jump has exactly the taken and the not-taken length", where, "lengths %s" % lens)
                table["%#04x" % b] = sorted(sigs)
            continue
        if ps is None:
            chk.ob("length/fixed/%#04x" % b, False, "the instruction form has a fixed micro-step count", where,
                   "cycle or unprogrammed word on a path")
            continue
        sigs = {sig(pth) for pth, end in ps if end == "DONE"}
        isigs = {sig(pth) for pth, end in ps if end == "INT"}
        nforms += 1
        chk.ob("length/fixed/%#04x" % b, len(sigs) == 1,
               "all data-condition outcomes of the form take the same number of control words with the same bus accesses",
               where, "signatures (words, bus accesses): %s" % sorted(sigs),
               "path enumeration over the micro-CFG, %d paths" % len(ps))
        if isigs:
            chk.ob("length/int-prefix/%#04x" % b, len(isigs) == 1,
                   "the interrupt-taken paths leave the routine after a fixed number of words", where, "%s" % sorted(isigs))
            # leaving for the interrupt entry instead of fetching costs no bus access of its own: the accesses on the
            # interrupt-taken path are those of the normal path without its closing opcode fetch
            if len(sigs) == 1 and len(isigs) == 1:
                nacc = list(sorted(sigs)[0][1])
                iacc = list(sorted(isigs)[0][1])
                chk.ob("length/int-exit-no-bus/%#04x" % b, iacc == nacc[:-1],
                       "the word that hands over to the interrupt entry touches no bus address (its cost does not depend on "
                       "register contents)", where, "bus accesses: normal path %s, interrupt-taken path %s" % (nacc, iacc))
        if len(sigs) == 1:
            table["%#04x" % b] = sorted(sigs)[0]
    # two-byte forms
    for b in range(two_lo, two_hi + 1):
        starts = dispatch_states(b)
        ps1 = paths_to_loader(g, starts)
        where = "first byte %#04x" % b
        if ps1 is None:
            chk.ob("length/fixed-prefix/%#04x" % b, False, "the operand fetch of a two-byte form has fixed length", where, "cycle")
            continue
        s1 = {sig(pth) for pth, _ in ps1}
        chk.ob("length/fixed-prefix/%#04x" % b, len(s1) == 1,
               "the source-operand fetch of a two-byte form has a fixed number of control words and bus accesses",
               where, "%s" % sorted(s1))
        loaders = {pth[-1] for pth, _ in ps1}
        for b2 in sorted(def_second):
            st2 = set()
            for (a, i) in loaders:
                for pins, a2, i2 in g.succ(a, i, loaded=b2):
                    st2.add((a2, i2))
            ps = paths_from(st2, lambda a, i2: False)
            if ps is None:
                chk.ob("length/fixed/%#04x/%#04x" % (b, b2), False, "fixed micro-step count", where, "cycle")
                continue
            sigs = {sig(pth) for pth, end in ps if end == "DONE"}
            nforms += 1
            chk.ob("length/fixed/%#04x/%#04x" % (b, b2), len(sigs) == 1,
                   "all data-condition outcomes of the two-byte form take the same number of control words with the same bus accesses",
                   "first byte %#04x second byte %#04x" % (b, b2), "%s" % sorted(sigs))
            if len(sigs) == 1 and len(s1) == 1:
                table["%#04x %#04x" % (b, b2)] = (sorted(s1)[0], sorted(sigs)[0])
    chk.floor("instruction forms with a fixed length", nforms, 1493)
    # ---- the documented cost per form: sibling agreement and reference table -----------------
    # forms that differ only in register numbers run the same routine through aliased entry words;
    # their signatures (control words, bus accesses) must agree, and equal the documented cost
    ref = spec.load("cycles")["cost"]

    def group_of(key):
        parts = key.split()
        b = int(parts[0], 16)
        if len(parts) == 1:
            if 0x60 <= b <= 0xDF:
                return "%#04x" % (b & 0xF0)
            if 0x20 <= b <= 0x27:
                return "%#04x" % b          # each jump condition is its own form
            return "%#04x" % (b & 0xFC)
        b2 = int(parts[1], 16)
        return "%#04x %#04x" % (b & 0xFC, b2 & 0xFC)
    groups = {}
    for key, sg in table.items():
        groups.setdefault(group_of(key), {}).setdefault(_norm(sg), []).append(key)
    for gk, variants in sorted(groups.items()):
        chk.ob("cost/siblings/%s" % gk, len(variants) == 1,
               "instruction forms that differ only in the registers named cost the same number of control words and bus accesses",
               "forms %s.." % gk, "; ".join("%s: %s" % (v, sorted(ks)[:4]) for v, ks in sorted(variants.items(), key=lambda kv: str(kv[0]))))
        want = ref.get(gk)
        got = sorted(variants, key=str)
        chk.ob("cost/documented/%s" % gk, want is not None and len(variants) == 1 and _norm(want) == got[0],
               "the micro-step count and bus accesses of the form are the documented ones", "forms %s.." % gk,
               "measured %s, documented %s" % (got, want))
    chk.floor("instruction form groups with a documented cost", len(groups), 123)
    # the interrupt entry routine itself has a fixed length
    int_starts = set()
    for a in g.prog:
        if g.irkind[a][0] == "reset":
            for i in range(0, 256, 17):
                for pins, a2, i2 in g.succ(a, i):
                    int_starts.add((a2, i2))
    ps = paths_from(int_starts, lambda a, i2: False)
    sigs = {sig(pth) for pth, end in (ps or []) if end == "DONE"}
    chk.ob("length/interrupt-entry", ps is not None and len(sigs) == 1,
           "the interrupt entry routine has a fixed number of control words and bus accesses", "control store",
           "%s" % sorted(sigs))
    chk.extra["per_form_table_sample"] = {k: table[k] for k in list(table)[:40]}
    chk.sample({"form": "0x60 (ADD R0,R0)", "signature": table.get("0x60")})
    chk.sample({"form": "0xfb 0x13 (JMP)", "signature": table.get("0xfb 0x13")})
    # step mode independence
    readers = []
    for path, b in p.bodies.items():
        for blk in b.blocks:
            for s in blk["s"]:
                if s["k"] == "assign":
                    for o in mirutil._rvalue_operands(s["r"]):
                        pl = mirutil.place_of(o)
                        if pl and ("L::machine::Machine", "step_mode") in mirutil.place_fields(pl):
                            readers.append(path)
            t = blk["t"]
            if t["k"] == "switch":
                pl = mirutil.place_of(t["d"])
                if pl and ("L::machine::Machine", "step_mode") in mirutil.place_fields(pl):
                    readers.append(path)
    chk.ob("step-mode-not-read-by-clock", all(not r.startswith("L::machine::raw") for r in readers),
           "the clock-edge path never reads the step mode", "", "readers: %s" % sorted(set(readers)))


def _is_int_edge(g, a, i, pins, a2):
    """an edge whose condition involves the interrupt inputs and that is the interrupt-taken branch:
    the sibling edge with the interrupt inputs cleared goes elsewhere"""
    sib = None
    for p2, b2, i2 in g.succ(a, i):
        if all(p2.get(k, 0) == 0 for k in INT_INPUTS if k in p2) and b2 != a2:
            sib = b2
    return sib is not None and pins.get("IEF") == 1


def paths_to_loader(g, starts):
    out = []
    for s0 in starts:
        stack = [(s0, [s0], frozenset([s0]))]
        while stack:
            s, path, onpath = stack.pop()
            a, i = s
            if a not in g.prog:
                return None
            if g.is_load(a) and a not in g.done:
                out.append((path, "LOAD"))
                continue
            if a in g.done and s is not s0:
                continue
            for pins, a2, i2 in g.succ(a, i):
                t = (a2, i2)
                if t in onpath:
                    return None
                stack.append((t, path + [t], onpath | {t}))
    return out


def _norm(x):
    """signature as nested tuples; bus accesses reduced to their kind ('r'/'w'): which register
    supplies the address differs between sibling forms and does not enter the cost"""
    if isinstance(x, (list, tuple)):
        return tuple(_norm(y) for y in x)
    if isinstance(x, str) and x[:1] in ("r", "w"):
        return x[:1]
    return x
