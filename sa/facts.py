"""Fact loading: builds (or re-uses) the JSON facts for the current working
tree of the repository and exposes them as a Program object.

Facts come from engines/factgen (MIR, types, consts of both workspace crates)
and engines/gramgen (the pest grammar).  A content hash over the repository's
working tree (everything outside target/ and .git/) keys a cache under
/var/tmp so that the 17 quick checks on one tree share one fact build; any edit
gives a new key and a rebuild from the current tree.
"""
import fcntl
import hashlib
import json
import os
import shutil
import subprocess
import sys
import time

VERIF = os.path.dirname(os.path.dirname(os.path.abspath(__file__)))
CACHE_ROOT = os.environ.get("VERIF_CACHE", "/var/tmp/verif-facts-cache")

LIB = "L"   # canonical crate tag of emulator-2a-lib
BIN = "B"   # canonical crate tag of emulator-2a (binary)


def tree_hash(repo):
    h = hashlib.sha256()
    files = []
    for root, dirs, fs in os.walk(repo):
        dirs[:] = sorted(d for d in dirs if d not in ("target", ".git"))
        for f in sorted(fs):
            files.append(os.path.join(root, f))
    for p in files:
        rel = os.path.relpath(p, repo)
        h.update(rel.encode())
        h.update(b"\0")
        try:
            with open(p, "rb") as fh:
                h.update(hashlib.sha256(fh.read()).digest())
        except OSError:
            h.update(b"unreadable")
    # the analysers themselves are part of the key
    for sub in ("engines/factgen/src/main.rs", "engines/factgen/src/json.rs",
                "engines/gramgen/src/main.rs", "run_factgen.sh"):
        with open(os.path.join(VERIF, sub), "rb") as fh:
            h.update(hashlib.sha256(fh.read()).digest())
    return h.hexdigest()[:24]


def _canon_text(text, crate_tag):
    text = text.replace("crate::", crate_tag + "::")
    text = text.replace("emulator_2a_lib::", LIB + "::")
    return text


def _build(repo, out, extra_args=()):
    os.makedirs(out, exist_ok=True)
    cmd = [os.path.join(VERIF, "run_factgen.sh"), repo, out] + list(extra_args)
    r = subprocess.run(cmd, stdout=subprocess.PIPE, stderr=subprocess.STDOUT, text=True)
    if r.returncode != 0:
        raise RuntimeError("fact build failed (the repository does not compile under the "
                           "analysis driver):\n" + r.stdout[-4000:])
    gram = os.path.join(repo, "emulator-2a-lib", "syntax", "mrasm.pest")
    gg = os.path.join(VERIF, "engines", "gramgen", "target", "debug", "gramgen")
    r = subprocess.run([gg, gram], stdout=subprocess.PIPE, stderr=subprocess.PIPE, text=True)
    if r.returncode != 0:
        raise RuntimeError("grammar dump failed:\n" + r.stderr[-2000:])
    with open(os.path.join(out, "grammar.json"), "w") as fh:
        fh.write(r.stdout)
    for f in ("emulator_2a_lib.lib.json", "2a_emulator.bin.json"):
        if not os.path.exists(os.path.join(out, f)):
            raise RuntimeError("fact file missing after build: " + f)


def ensure_facts(repo="/repo", use_cache=True, extra_args=(), tag=""):
    """Return (facts_dir, tree_hash, built_now, seconds)."""
    t0 = time.time()
    th = tree_hash(repo)
    key = th + (("-" + tag) if tag else "")
    os.makedirs(CACHE_ROOT, exist_ok=True)
    d = os.path.join(CACHE_ROOT, key)
    lock = open(os.path.join(CACHE_ROOT, ".lock"), "w")
    fcntl.flock(lock, fcntl.LOCK_EX)
    try:
        ok = os.path.exists(os.path.join(d, "DONE"))
        if ok and use_cache:
            try:
                os.utime(d, None)
            except OSError:
                pass
            return d, th, False, time.time() - t0
        if not use_cache:
            # a fresh build for this process only: the shared entry may be in use by a concurrent check, so it is neither
            # removed nor replaced; the private entry is dropped when the process ends
            fresh = d + ".fresh%d" % os.getpid()
            if os.path.exists(fresh):
                shutil.rmtree(fresh)
            _build(repo, fresh, extra_args)
            with open(os.path.join(fresh, "DONE"), "w") as fh:
                fh.write(th)
            import atexit
            atexit.register(shutil.rmtree, fresh, True)
            return fresh, th, True, time.time() - t0
        if os.path.exists(d):
            shutil.rmtree(d)
        # keep the cache small: drop entries not used for two hours (entries in use are touched)
        for e in os.listdir(CACHE_ROOT):
            pth = os.path.join(CACHE_ROOT, e)
            if os.path.isdir(pth) and e != key:
                try:
                    if time.time() - os.path.getmtime(pth) > 2 * 3600:
                        shutil.rmtree(pth)
                except OSError:
                    pass
        # ... and bounded: at most 80 entries (mutation sweeps create one per variant)
        try:
            ents = sorted((os.path.getmtime(os.path.join(CACHE_ROOT, e)), e) for e in os.listdir(CACHE_ROOT)
                          if os.path.isdir(os.path.join(CACHE_ROOT, e)) and e != key and ".fresh" not in e)
            for _, e in ents[:-80]:
                shutil.rmtree(os.path.join(CACHE_ROOT, e), ignore_errors=True)
        except OSError:
            pass
        tmp = d + ".tmp%d" % os.getpid()
        if os.path.exists(tmp):
            shutil.rmtree(tmp)
        _build(repo, tmp, extra_args)
        os.rename(tmp, d)
        with open(os.path.join(d, "DONE"), "w") as fh:
            fh.write(th)
        return d, th, True, time.time() - t0
    finally:
        fcntl.flock(lock, fcntl.LOCK_UN)
        lock.close()


_CODE_HASH0 = None


def code_hash():
    """hash of the analysis code as it was when this process first asked (keys derived-table caches)"""
    global _CODE_HASH0
    if _CODE_HASH0 is None:
        _CODE_HASH0 = code_hash_now()
    return _CODE_HASH0


def code_unchanged():
    """False when the analysis sources were edited while this process runs: its derived tables must
    then not be cached (they were computed by a mixture of old and new code)"""
    return code_hash() == code_hash_now()


def code_hash_now():
    h = hashlib.sha256()
    d = os.path.join(VERIF, "sa")
    for fn in sorted(os.listdir(d)):
        if fn.endswith(".py"):
            with open(os.path.join(d, fn), "rb") as fh:
                h.update(fn.encode())
                h.update(fh.read())
    return h.hexdigest()[:12]


class Body:
    __slots__ = ("path", "kind", "file", "line", "line_hi", "body_hi", "argc", "locals",
                 "blocks", "mx", "vis", "is_const", "generic", "self_ty", "impl", "parent",
                 "crate", "raw", "_succ", "_pred", "_dom", "_rpo")

    def __init__(self, raw, crate):
        self.raw = raw
        self.crate = crate
        self.path = raw["path"]
        self.kind = raw["kind"]
        self.file = raw["file"]
        self.line = raw["line"]
        self.line_hi = raw.get("line_hi", raw["line"])
        self.body_hi = raw.get("body_hi", self.line_hi)
        self.argc = raw["argc"]
        self.locals = raw["locals"]
        self.blocks = raw["blocks"]
        self.mx = raw.get("mx", [])
        self.vis = raw.get("vis")
        self.is_const = raw.get("is_const", False)
        self.generic = raw.get("generic", False)
        self.self_ty = raw.get("self_ty")
        self.impl = raw.get("impl")
        self.parent = raw.get("parent")
        self._succ = None
        self._pred = None
        self._dom = None
        self._rpo = None

    def loc(self, ln=None):
        return "%s:%d" % (self.file, ln if ln else self.line)

    def __repr__(self):
        return "<Body %s>" % self.path


class Program:
    def __init__(self, facts_dir, tree_hash=None):
        self.facts_dir = facts_dir
        self.tree_hash = tree_hash
        self.bodies = {}
        self.types = {}
        self.consts = {}
        self.features = {}
        for fname, tag in (("emulator_2a_lib.lib.json", LIB), ("2a_emulator.bin.json", BIN)):
            with open(os.path.join(facts_dir, fname)) as fh:
                text = fh.read()
            data = json.loads(_canon_text(text, tag))
            self.features[tag] = data.get("features", [])
            for b in data["bodies"]:
                body = Body(b, tag)
                if body.path in self.bodies:
                    # closures etc. can share printed paths: disambiguate by line
                    body.path = "%s@%d" % (body.path, body.line)
                self.bodies[body.path] = body
            for t in data["types"]:
                self.types[t["path"]] = t
            for t in data.get("foreign_types", []):
                self.types.setdefault(t["path"], t)
            for c in data["consts"]:
                self.consts[c["path"]] = c
        with open(os.path.join(facts_dir, "grammar.json")) as fh:
            self.grammar = json.load(fh)

    # -- lookups ---------------------------------------------------------
    def body(self, path):
        return self.bodies.get(path)

    def need_body(self, path):
        b = self.bodies.get(path)
        if b is None:
            raise AnchorMissing("function %s" % path)
        return b

    def need_type(self, path):
        t = self.types.get(path)
        if t is None:
            raise AnchorMissing("type %s" % path)
        return t

    def need_const(self, path):
        c = self.consts.get(path)
        if c is None:
            raise AnchorMissing("const %s" % path)
        return c

    def find_trait_method(self, trait, self_ty, method):
        """body of `impl <trait> for <self_ty> { fn <method> }` whatever module the impl lives in"""
        for path, b in self.bodies.items():
            if b.self_ty == self_ty and path.endswith("::" + method) and trait in path and b.kind == "AssocFn":
                return b
        return None

    def field_index(self, adt, name, variant=0):
        t = self.need_type(adt)
        for i, f in enumerate(t["variants"][variant]["fields"]):
            if f["n"] == name:
                return i
        raise AnchorMissing("field %s::%s" % (adt, name))

    def field_names(self, adt, variant=0):
        t = self.need_type(adt)
        return [f["n"] for f in t["variants"][variant]["fields"]]

    def variant_index(self, adt, name):
        t = self.need_type(adt)
        for i, v in enumerate(t["variants"]):
            if v["n"] == name:
                return i
        raise AnchorMissing("variant %s::%s" % (adt, name))


class AnchorMissing(Exception):
    """An anchor (function, type, field, grammar rule) the rule relies on is
    absent from the analysed program: the rule fails closed."""


def load(repo="/repo", use_cache=True, extra_args=(), tag=""):
    d, th, built, secs = ensure_facts(repo, use_cache, extra_args, tag)
    p = Program(d, th)
    p.built_now = built
    p.build_seconds = secs
    return p


if __name__ == "__main__":
    p = load(sys.argv[1] if len(sys.argv) > 1 else "/repo")
    print("facts:", p.facts_dir, "built now:", p.built_now, "%.1fs" % p.build_seconds)
    print(len(p.bodies), "bodies", len(p.types), "types", len(p.consts), "consts")
