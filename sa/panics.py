"""A5: panic-site enumeration and discharge bookkeeping."""
import re
from . import mirutil
from .absint import LOG_MACROS

PANIC_CALLEES = {
    "std::panicking::begin_panic": "panic",
    "std::rt::begin_panic": "panic",
    "core::panicking::panic": "panic",
    "core::panicking::panic_fmt": "panic",
    "std::rt::panic_fmt": "panic",
    "core::panicking::panic_explicit": "panic",
    "core::panicking::unreachable_display": "unreachable",
    "core::panicking::panic_display": "panic",
    "core::panicking::panic_str_2015": "panic",
    "core::panicking::assert_failed": "assert_failed",
    "core::panicking::panic_nounwind": "panic",
    "core::option::expect_failed": "expect",
    "core::option::unwrap_failed": "unwrap",
    "core::result::unwrap_failed": "unwrap",
    "core::slice::index::slice_index_fail": "slice_index",
    "core::str::slice_error_fail": "str_slice",
    "core::option::Option::<T>::expect": "expect",
    "core::option::Option::<T>::unwrap": "unwrap",
    "core::result::Result::<T, E>::expect": "expect",
    "core::result::Result::<T, E>::unwrap": "unwrap",
}

# foreign functions that panic for some arguments (bounds / char boundaries ...)
CONDITIONAL_PANIC_CALLEES = {
    "core::ops::index::Index::index": "index",
    "core::ops::index::IndexMut::index_mut": "index",
    "alloc::vec::Vec::<T, A>::insert": "vec_insert",
    "alloc::vec::Vec::<T, A>::remove": "vec_remove",
    "alloc::vec::Vec::<T, A>::drain": "vec_drain",
    "alloc::vec::Vec::<T, A>::swap_remove": "vec_remove",
    "alloc::string::String::truncate": "string_truncate",
    "alloc::string::String::insert": "string_insert",
    "alloc::string::String::remove": "string_remove",
    "core::slice::<impl [T]>::split_at": "split_at",
    "core::str::<impl str>::split_at": "split_at",
    # operator traits on primitive integers with a reference operand (libcore routines with the crate's overflow checks)
    "core::ops::arith::Add::add": "arith-call",
    "core::ops::arith::Sub::sub": "arith-call",
    "core::ops::arith::Mul::mul": "arith-call",
    "core::ops::bit::Shl::shl": "arith-call",
    "core::ops::bit::Shr::shr": "arith-call",
}


def str_const_of(body, op, depth=0):
    """string literal an operand refers to (through copies and re-borrows)"""
    k = op.get("k")
    if k is not None:
        return k.get("str")
    if depth > 6:
        return None
    pl = mirutil.place_of(op)
    if pl is None:
        return None
    for (dbb, idx, item) in mirutil.local_def_sites(body, pl["l"]):
        if item.get("k") == "assign":
            r = item["r"]
            if r["k"] == "use":
                return str_const_of(body, r["o"], depth + 1)
            if r["k"] == "ref":
                return str_const_of(body, {"c": {"l": r["p"]["l"], "p": []}}, depth + 1)
        return None
    return None


def describe_operand(body, op, depth=0):
    """short structural description of where an operand comes from (field / variable name,
    constant, callee) -- used to give assert sites stable, line-independent names"""
    k = op.get("k")
    if k is not None:
        if "v" in k:
            return str(k["v"])
        return "const"
    pl = mirutil.place_of(op)
    if pl is None or depth > 6:
        return "?"
    fs = mirutil.place_fields(pl)
    if fs:
        return fs[-1][1]
    loc = body.locals[pl["l"]]
    if loc.get("n"):
        return loc["n"]
    for (dbb, idx, item) in mirutil.local_def_sites(body, pl["l"]):
        if item.get("k") == "call":
            nm = (mirutil.callee_def(item) or "call").split("::")[-1]
            return nm + "()"
        if item.get("k") == "assign":
            r = item["r"]
            if r["k"] in ("use", "cast"):
                return describe_operand(body, r["o"], depth + 1)
            if r["k"] == "bin":
                return "(%s %s %s)" % (describe_operand(body, r["a"], depth + 1), r["op"].replace("WithOverflow", ""),
                                       describe_operand(body, r["b"], depth + 1))
            if r["k"] == "ref":
                return describe_operand(body, {"c": r["p"]}, depth + 1)
        return "?"
    return "?"


def macro_kind(item):
    mx = item.get("mx", [])
    for m in ("unreachable", "unimplemented", "todo", "panic", "assert", "assert_eq", "assert_ne",
              "debug_assert", "debug_assert_eq", "inner_tuple"):
        if m in mx:
            return m
    return None


def enumerate_sites(p, fns, include_log=True):
    """All panic-capable sites in the given functions.
    -> list of dicts {fn, bb, ln, kind, detail, key, in_log}"""
    out = []
    counters = {}
    for f in sorted(fns):
        b = p.bodies.get(f)
        if b is None:
            continue
        # a site is keyed by the function that contains it in the source; whether the expression sits in a
        # closure of that function or in its body is an artefact of how it is written
        froot = re.sub(r"(::\{closure#\d+\})+$", "", f)
        for bb in sorted(mirutil.reachable_blocks(b)):
            blk = b.blocks[bb]
            if blk.get("cleanup"):
                continue
            t = blk["t"]
            site = None
            if t["k"] == "assert":
                m = t["msg"]
                if m["kind"] == "other" and (m.get("dbg", "").startswith("MisalignedPointerDereference")
                                             or m.get("dbg", "").startswith("NullPointerDereference")):
                    continue
                if m["kind"] == "bounds":
                    ln_ = m["len"].get("k", {}).get("v")
                    detail = "bounds(len=%s index %s)" % (ln_ if ln_ is not None else "dyn", describe_operand(b, m["index"]))
                elif m["kind"] == "overflow":
                    detail = "overflow(%s %s %s)" % (describe_operand(b, m["a"]), m["op"], describe_operand(b, m["b"]))
                else:
                    detail = m["kind"]
                site = ("assert", detail)
            elif t["k"] == "call":
                d = mirutil.callee_def(t)
                if d in PANIC_CALLEES:
                    mk = macro_kind(t)
                    msg = None
                    for a in t["args"]:
                        m_ = str_const_of(b, a)
                        if m_ is not None:
                            msg = m_
                    site = (PANIC_CALLEES[d] if not mk else mk, (msg or "")[:60])
                elif d in CONDITIONAL_PANIC_CALLEES:
                    # only foreign implementations (local Index impls are interpreted)
                    if (t["f"].get("res") or d) not in p.bodies:
                        if CONDITIONAL_PANIC_CALLEES[d] == "arith-call":
                            from .externs import _ARITH_RES
                            if _ARITH_RES.match(t["f"].get("res") or ""):
                                site = ("arith-call", (t["f"].get("res") or "")[:80])
                        else:
                            site = (CONDITIONAL_PANIC_CALLEES[d], t["f"].get("defargs", "")[:80])
            if site is None:
                continue
            base = "%s/%s/%s" % (froot, site[0], site[1])
            n = counters.get(base, 0)
            counters[base] = n + 1
            in_log = bool(set(t.get("mx", ())) & LOG_MACROS)
            out.append({"fn": f, "bb": bb, "ln": t.get("ln", 0), "kind": site[0], "detail": site[1],
                        "key": "%s#%d" % (base, n), "in_log": in_log, "term": t})
    return out


def failing_sites(I):
    """(fn, bb) pairs at which the interpreter saw a possible failure in the recorded events"""
    bad = {}
    for e in I.events:
        if e.kind == "assert" and e.info["may_fail"]:
            bad.setdefault((e.body, e.info["bb"]), []).append(e)
        elif e.kind == "panic":
            bad.setdefault((e.body, e.bb), []).append(e)
    return bad


# std routines that panic when an argument breaks their documented contract (an index beyond the length, a byte offset inside
# a character, a zero step).  The interpreter has no model for them and would take them as total: a call to one of them from
# analysed code is therefore an obligation of its own, discharged only by what the call site shows about the argument.
CONTRACT_APIS = (
    ("alloc::string::String::truncate", "new length must lie on a character boundary"),
    ("alloc::string::String::insert", "index must lie on a character boundary"),
    ("alloc::string::String::insert_str", "index must lie on a character boundary"),
    ("alloc::string::String::remove", "index must lie on a character boundary inside the string"),
    ("alloc::string::String::split_off", "index must lie on a character boundary"),
    ("alloc::string::String::drain", "range must lie on character boundaries"),
    ("alloc::string::String::replace_range", "range must lie on character boundaries"),
    ("split_at", "index must lie inside (on a character boundary of) the slice"),
    ("alloc::vec::Vec::<T, A>::remove", "index must be below the length"),
    ("alloc::vec::Vec::<T, A>::insert", "index must not exceed the length"),
    ("alloc::vec::Vec::<T, A>::swap_remove", "index must be below the length"),
    ("alloc::vec::Vec::<T, A>::split_off", "index must not exceed the length"),
    ("alloc::vec::Vec::<T, A>::drain", "range must lie inside the vector"),
    ("copy_from_slice", "both slices must have the same length"),
    ("clone_from_slice", "both slices must have the same length"),
    ("::step_by", "step must not be zero"),
    ("::chunks", "chunk size must not be zero"),
    ("::windows", "window size must not be zero"),
    ("core::cell::RefCell::<T>::borrow", "must not be mutably borrowed"),
)


def contract_calls(p, fns):
    """-> [{fn, api, rule, k, ln, ok, why}] calls from the given functions to std routines with a panic contract"""
    from . import mirutil
    out = []
    for fn in sorted(set(fns)):
        b = p.bodies.get(fn)
        if b is None:
            continue
        seen = {}
        for bb, t in mirutil.calls_in(b):
            d = mirutil.callee_def(t) or ""
            if d.startswith(("L::", "B::")):
                continue
            hit = None
            for api, rule in CONTRACT_APIS:
                if (d == api) or (not api.startswith(("alloc::", "core::")) and d.endswith(api)) or \
                        (api.startswith("::") and api in d and d.split("::")[0] in ("core", "alloc", "std")):
                    hit = (api, rule)
                    break
            if hit is None:
                continue
            k = seen.get(d, 0)
            seen[d] = k + 1
            ok, why = False, "the argument is not analysed"
            # the whole-range forms cannot fail
            argtys = []
            for a in t.get("args", []):
                pl = mirutil.place_of(a)
                if pl is not None and not pl["p"]:
                    argtys.append(b.locals[pl["l"]]["ty"])
                else:
                    ck = a.get("k") if isinstance(a, dict) else None
                    argtys.append(str(a.get("ty", "")) if isinstance(a, dict) else "")
            if d.endswith("::drain") and any("RangeFull" in str(ty) for ty in argtys):
                ok, why = True, "drains the full range `..`"
            out.append({"fn": fn, "api": d, "rule": hit[1], "k": k, "ln": t.get("ln") or b.line, "ok": ok, "why": why,
                        "argtys": argtys})
    return out
