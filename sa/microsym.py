"""Symbolic register-transfer evaluation of micro-program paths (A6, effect
summaries).  The micro-program is data (the control store); a path through the
micro-CFG is a straight-line sequence of micro-operations whose effect on the
architectural state is computed here as expression trees over the initial
register values.  No solver: expressions are compared structurally, bitwise
NOR/pass/complement networks are normalised to per-bit truth tables.

Values
  Bits(vars, tables)   bitwise function of the bits of `vars` (symbols) - tables[k]
                       is the truth table (tuple of 0/1, index = assignment) of bit k
  ("alu", fn, A, B, cin)   result of a non-bitwise ALU function (opaque operator)
A register holds a value; the flag register R4 is kept as a byte value plus
optional overrides of the C/Z/N bits by flag writes.
"""
from .facts import AnchorMissing

PASS_A = {"A"}
PASS_B = {"B", "SETC", "BH", "INVC"}
BITWISE = {"NOR", "ZERO"} | PASS_A | PASS_B


class Bits:
    __slots__ = ("vars", "tables")

    def __init__(self, vars_, tables):
        self.vars = tuple(vars_)
        self.tables = tuple(tuple(t) for t in tables)

    def __eq__(self, o):
        if not isinstance(o, Bits):
            return False
        a, b = unify(self, o)
        return a.tables == b.tables

    def __hash__(self):
        return hash(("Bits", self.reduced().vars, self.reduced().tables))

    def reduced(self):
        """drop variables no bit depends on"""
        keep = []
        n = len(self.vars)
        for vi in range(n):
            dep = False
            for t in self.tables:
                for idx in range(len(t)):
                    if t[idx] != t[idx ^ (1 << vi)]:
                        dep = True
                        break
                if dep:
                    break
            if dep:
                keep.append(vi)
        if len(keep) == n:
            return self
        tables = []
        for t in self.tables:
            nt = []
            for idx in range(1 << len(keep)):
                full = 0
                for j, vi in enumerate(keep):
                    if idx >> j & 1:
                        full |= 1 << vi
                nt.append(t[full])
            tables.append(nt)
        return Bits([self.vars[i] for i in keep], tables)

    def __repr__(self):
        r = self.reduced()
        if not r.vars:
            v = sum(t[0] << k for k, t in enumerate(r.tables))
            return "%#04x" % v
        if len(r.vars) == 1 and all(t == (0, 1) for t in r.tables):
            return str(r.vars[0])
        if len(r.vars) == 1 and all(t == (1, 0) for t in r.tables):
            return "~%s" % (r.vars[0],)
        return "bits%s%s" % (r.vars, ["".join(map(str, t)) for t in r.tables] if len(set(r.tables)) > 1
                             else "".join(map(str, r.tables[0])))


def const(v):
    return Bits((), [((v >> k) & 1,) for k in range(8)])


def sym(name):
    return Bits((name,), [(0, 1)] * 8)


def unify(a, b):
    vs = list(a.vars)
    for v in b.vars:
        if v not in vs:
            vs.append(v)

    def expand(x):
        pos = [vs.index(v) for v in x.vars]
        tables = []
        for t in x.tables:
            nt = []
            for idx in range(1 << len(vs)):
                sub = 0
                for j, p_ in enumerate(pos):
                    if idx >> p_ & 1:
                        sub |= 1 << j
                nt.append(t[sub])
            tables.append(nt)
        return Bits(vs, tables)
    return expand(a), expand(b)


def as_bits(v):
    """any value as a bitwise value: opaque expressions become a fresh variable"""
    if isinstance(v, Bits):
        return v
    return sym(v)


def bit_nor(a, b):
    a, b = unify(as_bits(a), as_bits(b))
    if len(a.vars) > 6:
        raise AnchorMissing("bitwise network over too many symbols")
    return Bits(a.vars, [[1 - (x | y) for x, y in zip(ta, tb)] for ta, tb in zip(a.tables, b.tables)]).reduced()


def is_const(v):
    if isinstance(v, Bits):
        r = v.reduced()
        if not r.vars:
            return sum(t[0] << k for k, t in enumerate(r.tables))
    return None


class Flags:
    """R4: base byte value + overrides for C (bit0), Z (bit1), N (bit2)"""
    __slots__ = ("base", "c", "z", "n")

    def __init__(self, base, c=None, z=None, n=None):
        self.base = base
        self.c = c
        self.z = z
        self.n = n

    def __eq__(self, o):
        return isinstance(o, Flags) and (o.base, o.c, o.z, o.n) == (self.base, self.c, self.z, self.n)

    def __hash__(self):
        return hash(("Flags", self.base, self.c, self.z, self.n))

    def carry(self):
        return self.c if self.c is not None else ("bit", self.base, 0)

    def as_byte(self):
        if self.c is None and self.z is None and self.n is None:
            return self.base
        return ("r4", self.base, self.c, self.z, self.n)

    def __repr__(self):
        if self.c is None and self.z is None and self.n is None:
            return "F[%r]" % (self.base,)
        return "F[%r c=%r z=%r n=%r]" % (self.base, self.c, self.z, self.n)


class SymState:
    def __init__(self):
        self.regs = [sym("R%d" % i) for i in range(8)]
        self.flags = Flags(sym("R4"))
        self.bus = const(0)          # last bus read
        self.reads = []              # (address value, tag)
        self.writes = []             # (address value, data value)
        self.pending = None          # (reg, value) committed at the next word
        self.pending_flags = None
        self.alu = None
        self.nread = 0
        self.trace = []

    def copy(self):
        s = SymState()
        s.regs = list(self.regs)
        s.flags = self.flags
        s.bus = self.bus
        s.reads = list(self.reads)
        s.writes = list(self.writes)
        s.pending = self.pending
        s.pending_flags = self.pending_flags
        s.alu = self.alu
        s.nread = self.nread
        s.trace = list(self.trace)
        return s

    def reg(self, n):
        if n == 4:
            return self.flags.as_byte()
        return self.regs[n]

    def commit(self):
        """the register / flag commit stage at the start of an edge"""
        if self.pending_flags is not None:
            r = self.pending_flags
            self.flags = Flags(self.flags.base, ("c", r), ("z", r), ("n", r))
            self.pending_flags = None
        if self.pending is not None:
            n, v = self.pending
            if n == 4:
                self.flags = Flags(v)
            else:
                self.regs[n] = v
            self.pending = None


def alu_apply(fn, a, b, cin):
    """-> result value"""
    if fn == "ZERO":
        return const(0)
    if fn in PASS_A:
        return a
    if fn in PASS_B:
        return b
    if fn == "NOR":
        return bit_nor(a, b)
    if fn in ("ADD", "ADDH", "ADDS"):
        return ("alu", fn, a, b)
    if fn in ("ADC", "ADCS", "RRC"):
        return ("alu", fn, a, b if fn != "RRC" else None, cin)
    if fn in ("LSR", "RR", "ASR"):
        return ("alu", fn, a)
    raise AnchorMissing("ALU function %s" % fn)


def exec_word(mt, st, a, ir):
    """one un-skipped clock edge whose *new* word is `a` (commit of the previous word, then the data path of a)"""
    st.commit()
    w = mt.word[a]
    ra, rb, rw = mt.regs(a, ir)
    addr = st.reg(ra)
    if w["busen"]:
        st.nread += 1
        data = ("mem", addr, len(st.writes))
        st.bus = data
        if not w["buswr"]:
            # (a bus-write word also enables the bus; the emulator performs a read there whose
            #  value is not used - reads are pure, see C10 - so it is not an operand fetch)
            st.reads.append((addr, data))
    else:
        st.bus = const(0)
    A = st.bus if w["maluia"] else st.reg(ra)
    B = const(w["bconst"]) if w["maluib"] else st.reg(rb)
    res = alu_apply(w["alu"], A, B, st.flags.carry())
    st.alu = res
    if w["mrgwe"]:
        st.pending = (rw, res)
    if w["mchflg"]:
        st.pending_flags = ("alures", w["alu"], A, B, st.flags.carry(), res)
    if w["buswr"]:
        st.writes.append((addr, res))
    st.trace.append(a)


# ---------------------------------------------------------------------------
# path enumeration over the micro-CFG

INT_INPUTS = {"IEF", "IFF1", "LVL"}


def is_int_taken(pins):
    return pins.get("IEF") == 1 and (pins.get("IFF1") == 1 or pins.get("LVL") == 1)


def dispatch_states(g, b):
    out = set()
    for d in g.done:
        for pins, a2, i2 in g.succ(d, 0, loaded=b):
            out.add((a2, i2))
    return out


def instruction_paths(g, b, second=None, maxlen=64, include_int=False):
    """all micro-paths of the instruction with first byte b (second byte `second` for the
    two-byte forms) from dispatch to the next DONE word.  -> list of (path, conds, ended)
    ended in {'done', 'int', 'cycle', 'unprogrammed', 'long'}; duplicates removed"""
    res = {}
    for s0 in sorted(dispatch_states(g, b)):
        stack = [(s0, (s0,), ())]
        while stack:
            s, path, conds = stack.pop()
            a, i = s
            if a not in g.prog:
                res[(path, conds)] = "unprogrammed"
                continue
            if a in g.done:
                res[(path, conds)] = "done"
                continue
            if len(path) > maxlen:
                res[(path, conds)] = "long"
                continue
            for pins, a2, i2 in g.succ(a, i):
                if g.is_load(a) and second is not None and i2 != second:
                    continue
                if is_int_taken(pins):
                    if include_int:
                        res[(path, conds + tuple(sorted(pins.items())), "->%#x" % a2)] = "int"
                    continue
                c = conds + tuple(sorted((k, v) for k, v in pins.items() if k not in INT_INPUTS))
                t = (a2, i2)
                if t in path:
                    res[(path + (t,), c)] = "cycle"
                    continue
                stack.append((t, path + (t,), c))
    out = []
    for k, ended in res.items():
        out.append((list(k[0]), dict(k[1]), ended))
    return out


def run_path(mt, path):
    st = SymState()
    for (a, i) in path:
        exec_word(mt, st, a, i)
    st.commit()
    return st
