"""Run a function of the analysed program on unknown arguments built from its
parameter types (entry-point harness for the panic-freedom rules)."""
from . import absint, shapes
from . import domain as D
from .domain import Agg, En, Ref, TOP, BOT, FTOP


def build_arg(p, I, st, ty, overrides=None, name="arg"):
    ty = ty.strip()

    def mkref(v, mut):
        return Ref(I.new_alloc(st, name + "_ref", v), (), mut)
    return shapes.build(p, ty, shapes.top_leaf, (), overrides, mkref)


def _old_build_arg(p, I, st, ty, overrides=None, name="arg"):
    ty = ty.strip()
    if ty.startswith("&mut "):
        v = shapes.build(p, ty[5:], shapes.top_leaf, (), overrides)
        a = I.new_alloc(st, name, v)
        return Ref(a, (), True)
    if ty.startswith("&"):
        inner = ty[1:].strip()
        if inner.startswith("'"):
            inner = inner.split(" ", 1)[1] if " " in inner else inner
        v = shapes.build(p, inner, shapes.top_leaf, (), overrides)
        a = I.new_alloc(st, name, v)
        return Ref(a, (), False)
    return shapes.build(p, ty, shapes.top_leaf, (), overrides)


def run_entry(p, I, path, overrides_by_type=None, arg_overrides=None):
    """-> (state, return value, [arg values])"""
    b = p.need_body(path)
    st = absint.State()
    I.heap_counter = 0
    args = []
    for i in range(1, 1 + b.argc):
        ty = b.locals[i]["ty"]
        ov = None
        if overrides_by_type:
            for k, v in overrides_by_type.items():
                if k in ty:
                    ov = v
        if arg_overrides and i in arg_overrides:
            args.append(arg_overrides[i])
        else:
            args.append(build_arg(p, I, st, ty, ov, "arg%d" % i))
    r = I.run_body(b, args, st, 0)
    return st, r, args
