"""Backward provenance of a value inside one MIR body: where does the operand handed to a call come from?

Follows single definitions through copies, borrows and a fixed list of conversions that do not change the value
(clone, into/from, deref/as_str, to_owned/to_vec, the `?` operator's Continue payload).  Roots are the function's
arguments ("arg1", "arg1.field") and files read with std::fs::read_to_string ("file(<origin of the path>)").
Anything else - a filter, a strip_prefix, an arithmetic operation, a constant, a local with two definitions - has no
provenance (None): the value is not "the user's input as given"."""
from . import mirutil

TRANSPARENT = ("core::clone::Clone::clone", "core::convert::Into::into", "core::convert::From::from",
               "core::ops::deref::Deref::deref", "alloc::string::String::as_str", "core::ops::try_trait::Try::branch",
               "alloc::borrow::ToOwned::to_owned", "alloc::slice::<impl [T]>::to_vec", "core::convert::AsRef::as_ref",
               "alloc::vec::Vec::<T, A>::as_slice", "core::borrow::Borrow::borrow")


def origin(body, pl, depth=0):
    if pl is None or depth > 14:
        return None
    proj = [x for x in pl["p"] if x != "*" and not (isinstance(x, dict) and "d" in x)]
    if 1 <= pl["l"] <= body.argc:
        if not proj:
            return "arg%d" % pl["l"]
        if len(proj) == 1 and isinstance(proj[0], dict) and "n" in proj[0]:
            return "arg%d.%s" % (pl["l"], proj[0]["n"])
        return None
    if proj and not (len(proj) == 1 and isinstance(proj[0], dict) and proj[0].get("var") == "Continue"):
        return None
    defs = mirutil.local_def_sites(body, pl["l"])
    if len(defs) != 1:
        return None
    item = defs[0][2]
    if item["k"] == "assign":
        rv = item["r"]
        if rv["k"] == "ref":
            return origin(body, rv["p"], depth + 1)
        if rv["k"] == "use":
            return origin(body, mirutil.place_of(rv["o"]), depth + 1)
        return None
    if item["k"] == "call":
        d_ = mirutil.callee_def(item) or ""
        if d_ in TRANSPARENT and len(item["args"]) == 1:
            return origin(body, mirutil.place_of(item["args"][0]), depth + 1)
        if d_ == "std::fs::read_to_string" and len(item["args"]) == 1:
            o_ = origin(body, mirutil.place_of(item["args"][0]), depth + 1)
            return "file(%s)" % o_ if o_ else None
    return None
