"""Clause "pipeline agreement" shared by C01 and C04: the register-transfer model
used for symbolic evaluation (microsym.exec_word / SymState.commit) is what the
clock-edge pipeline of raw/mod.rs does, for every programmed control word."""
from . import absint, datapath, mirutil, step
from . import domain as D
from .domain import Agg, En, Ref, Arr, Opaque
from .facts import AnchorMissing

STAGE_ORDER = [
    "L::machine::raw::RawMachine::apply_pending_register_writes",
    "L::machine::raw::MachineAfterRegWrite::<'a>::update_instruction_from_bus",
    "L::machine::raw::MachineAfterInstructionUpdate::<'a>::fetch_interrupts",
    "L::machine::raw::MachineAfterInterruptFetching::<'a>::update_word",
    "L::machine::raw::MachineAfterWordUpdate::<'a>::read_from_memory",
    "L::machine::raw::MachineAfterMemoryRead::<'a>::calculate_alu_output",
    "L::machine::raw::MachineAfterAluCalculations::<'a>::write_to_memory",
]
REG = "L::machine::register::Register"
FLAG_BITS = (("carry", 0), ("zero", 1), ("negative", 2), ("interrupt_enable", 3))


def check(ctx, prefix="pipeline"):
    dp = control_part(ctx, prefix, words=None, flags=True)
    flag_bits_and_frame(ctx, prefix)
    accessors(ctx, prefix)
    return dp


def control_part(ctx, prefix, words=None, flags=False):
    """Stage order, data path and commit stage. With `words`, the data-path clause is restricted to those control words and
    (flags=False) the commit clause to the register write: the part of the agreement that the micro control flow of the
    data-driven routines depends on (C09, C15) - operands, ALU function and write-back of the words of the MUL/DIV routines
    and of every word whose next address tests an ALU condition."""
    p, chk, mt = ctx.p, ctx.chk, ctx.micro
    dp = datapath.build(p, mt, cache_dir=p.facts_dir)
    # 1. stage order inside one clock edge
    body = p.need_body(step.EDGE)
    dom = mirutil.dominators(body)
    calls = [(bb, mirutil.callee_name(t)) for bb, t in mirutil.calls_in(body)]
    pos = {}
    for bb, c in calls:
        if c in STAGE_ORDER:
            pos.setdefault(c, []).append(bb)
    ok = all(len(pos.get(s, [])) == 1 for s in STAGE_ORDER)
    if ok:
        seq = [pos[s][0] for s in STAGE_ORDER]
        ok = all(seq[i] in dom[seq[i + 1]] and seq[i] != seq[i + 1] for i in range(len(seq) - 1))
    chk.ob("%s/stage-order" % prefix, ok,
           "a clock edge runs commit, IR update, interrupt fetch, word update, bus read, ALU, bus write - once each, in this order",
           "raw/mod.rs RawMachine::trigger_clock_edge", "stage call blocks: %s" % {k.rsplit("::", 1)[-1]: v for k, v in pos.items()})
    # 2. back half per control word and register-selection class
    bad = []
    nback = 0
    for (a, ir), r in sorted(dp["back"].items()):
        if words is not None and a not in words:
            continue
        nback += 1
        e = datapath.expected_back(mt, a, ir)
        got = {k: r[k] for k in e}
        if got != e or r["bad"] or r["bot"]:
            bad.append((a, ir, got, e, r["bad"]))
    for a, ir, got, e, b in bad[:20]:
        diff = {k: (got[k], e[k]) for k in e if got[k] != e[k]}
        chk.ob("%s/data-path/%#05x/ir=%#04x" % (prefix, a, ir), False,
               "operand sources, ALU function, bus address/value and pending writes of the word are those of its control signals",
               "raw/mod.rs read_from_memory / calculate_alu_output / write_to_memory",
               "code does vs. signals say: %s %s" % (diff, b))
    chk.ob("%s/data-path" % prefix, not bad and (nback >= 600 if words is None else nback >= len(words) > 0),
           "for every programmed word and register-selection class the pipeline's operand provenance equals the "
           "register-transfer model (A := bus|Ra, B := const|Rb, carry-in := CF, read/write address := Ra, "
           "written value := ALU output, pending register/flag write := MRGWE/MCHFLG)",
           "raw/mod.rs back-half stages", "%d (word, class) pairs, %d disagree" % (nback, len(bad)),
           "abstract interpretation with opaque register tags and recording stand-ins for Bus::read/write, AluOutput::from_input")
    # 3. commit stage
    cbad = []
    for k, r in dp["commit"].items():
        want = ["R%d" % j if j != k else "ALUOUT" for j in range(8)]
        if k != 4:
            want[4] = "F(R4)"      # the flag update, applied to the old flag register; for k == 4 the register write wins (LDFR)
        if (r["regs"] != want or (flags and r["flags"] != {"C": ["CO"], "Z": ["ZO"], "N": ["NO"]}) or r["bad"]
                or not r["prw_cleared"] or not r["pfw_cleared"]):
            cbad.append((k, r))
    chk.ob("%s/commit" % prefix, not cbad and len(dp["commit"]) == 9,
           "the commit stage writes exactly the pending register with the ALU output, sets C/Z/N from the ALU's carry/zero/negative "
           "outputs - before the register write, so that a write to the flag register itself (LDFR) is not overlaid - and clears "
           "both pending markers",
           "raw/mod.rs RawMachine::apply_pending_register_writes", "disagreeing cases: %s" % cbad[:2])
    return dp


def flag_bits_and_frame(ctx, prefix):
    p, chk, mt = ctx.p, ctx.chk, ctx.micro
    # 4. flag bit positions: setter and getter of each flag agree on one bit of R4, the others are kept
    fb = []
    for name, bit in FLAG_BITS:
        setter = p.need_body("%s::set_%s_flag" % (REG, name))
        getter = p.need_body("%s::%s_flag" % (REG, name))
        for start in (0x00, 0xFF, 0xA5, 0x5A):
            for val in (0, 1):
                I = absint.Interp(p)
                st = absint.State()
                ra = I.new_alloc(st, "reg", Agg((Arr([7, 7, 7, 7, start, 7, 7, 7]),)))
                I.run_body(setter, [Ref(ra, (), True), val], st, 0)
                after = I.load(st, ra, (0,))
                want = (start | (1 << bit)) if val else (start & ~(1 << bit) & 0xFF)
                got = after.e[4] if isinstance(after, Arr) else None
                g = I.run_body(getter, [Ref(ra, (), False)], st, 0)
                if got != want or g not in (val, bool(val)) or [x for i_, x in enumerate(after.e) if i_ != 4] != [7] * 7:
                    fb.append((name, hex(start), val, got, g))
    chk.ob("%s/flag-bits" % prefix, not fb,
           "C, Z, N, IE are bits 0..3 of R4; each setter changes only its bit and the getter reads it back",
           "register.rs Register::set_*_flag / *_flag", "disagreeing cases: %s" % fb[:4],
           "constant propagation through the setters/getters on four bit patterns")
    # 5. frame: registers change only through the commit stage
    fr = ctx.graph.front
    lost = sorted(a for a, r in fr.items() if not r.get("regs_kept"))
    chk.ob("%s/frame/registers" % prefix, not lost and len(fr) >= 200,
           "for every programmed word, a clock edge without a pending register or flag commit leaves R0-R7 (PC, flags with the "
           "interrupt-enable bit, SP) unchanged: the register file is written by the commit stage only",
           "raw/mod.rs RawMachine::trigger_clock_edge", "%d words analysed; words whose edge changes a register: %s"
           % (len(fr), [(hex(a), fr[a].get("regs_after")) for a in lost[:3]]),
           "abstract interpretation of the whole edge with eight opaque register tags, per programmed word")


def accessors(ctx, prefix="pipeline"):
    """The accessors the pipeline and the sequencer read through are plain getters of the named field (also run by C09:
    the next-address function sees the ALU conditions, flags and flip-flops only through Signals::from)."""
    p, chk = ctx.p, ctx.chk
    ALUO = "L::machine::alu::AluOutput"
    fn_out = p.field_names(ALUO)
    gb = []
    for getter, fld in (("output", "output"), ("carry_out", "carry_out"), ("zero_out", "zero_out"), ("negative_out", "negative_out")):
        I = absint.Interp(p)
        st = absint.State()
        a = I.new_alloc(st, "alu", Agg([Opaque("alu." + f) for f in fn_out]))
        r = I.run_body(p.need_body("%s::%s" % (ALUO, getter)), [Ref(a, (), False)], st, 0)
        if r != Opaque("alu." + fld):
            gb.append("AluOutput::%s returns %r" % (getter, r))
    # flag inputs of the sequencer / the ALU carry input: bit 0..3 of R4 through Signals
    sigs = "L::machine::raw::signals::Signals::<'a>::"
    frm = "<L::machine::raw::signals::Signals<'a> as core::convert::From<&'a L::machine::raw::RawMachine>>::from"
    for name, bit in (("carry_flag", 0), ("zero_flag", 1), ("negative_flag", 2), ("interrupt_enable_flag", 3)):
        for pat in (0x00, 0xFF, 1 << bit, 0xFF ^ (1 << bit)):
            I = absint.Interp(p)
            st = absint.State()
            ov = step.machine_overrides(p, 0, "Running", False, 0, 0, extra={"register.content": Arr([7, 7, 7, 7, pat, 7, 7, 7])})
            ma = step.new_machine(p, I, st, ov)
            sv = I.run_body(p.need_body(frm), [Ref(ma, (), False)], st, 0)
            sa_ = I.new_alloc(st, "signals", sv)
            r = I.run_body(p.need_body(sigs + name), [Ref(sa_, (), False)], st, 0)
            want = (pat >> bit) & 1
            if r not in (want, bool(want)):
                gb.append("Signals::%s with R4=%#04x returns %r" % (name, pat, r))
    # Signals::from wires the ALU condition outputs and the interrupt flip-flops to the sequencer inputs of the same name
    SIG = "L::machine::raw::signals::Signals"
    sn = p.field_names(SIG)
    I = absint.Interp(p)
    st = absint.State()
    ov = step.machine_overrides(p, 0, "Running", False, 0, 0,
                                extra={"alu_output": Agg([Opaque("alu." + f) for f in fn_out]),
                                       "pending_edge_interrupt": En({1: (Agg(()),)}), "pending_level_interrupt": En({0: ()})})
    ma = step.new_machine(p, I, st, ov)
    sv = I.run_body(p.need_body(frm), [Ref(ma, (), False)], st, 0)
    if isinstance(sv, Agg):
        fd = dict(zip(sn, sv.f))
        for f in ("carry_out", "zero_out", "negative_out"):
            if fd.get(f) != Opaque("alu." + f):
                gb.append("Signals.%s is wired to %r" % (f, fd.get(f)))
        sa_ = I.new_alloc(st, "signals", sv)
        r1 = I.run_body(p.need_body(sigs + "interrupt_flipflop_1"), [Ref(sa_, (), False)], st, 0)
        r2 = I.run_body(p.need_body(sigs + "level_interrupt"), [Ref(sa_, (), False)], st, 0)
        if r1 not in (1, True) or r2 not in (0, False):
            gb.append("flip-flop pending / level clear: interrupt_flipflop_1() = %r, level_interrupt() = %r" % (r1, r2))
    else:
        gb.append("Signals::from not analysable: %r" % (sv,))
    chk.ob("%s/accessors" % prefix, not gb,
           "the ALU output accessors return the field they name; the sequencer's C/Z/N/IE inputs and the ALU's carry input are "
           "bits 0..3 of R4", "alu.rs accessors, raw/signals.rs Signals::from / *_flag", "; ".join(gb[:4]),
           "abstract interpretation with opaque fields / constant propagation on four bit patterns")
