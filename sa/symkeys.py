"""Keys of the translator's symbol table: under which key is a name stored (label definition, .EQU) and looked up
(absolute and relative reference in Translator::finish)?  Decided by abstract interpretation with opaque names: the key
must be exactly to_lowercase(name) - the normalisation the parser's label check (validate_lines) compares with - at all
four sites.  Anything coarser lets two names share an entry, anything finer lets a reference miss its definition."""
from . import absint, asmmodel
from .domain import Agg, En, Ref, Str, Opaque

TR = asmmodel.TR
HGET = "std::collections::hash::map::HashMap::<K, V, S, A>::get"


def keys(p):
    """-> {site: (key seen, key expected)}"""
    from . import externs
    am = asmmodel.AsmModel(p)
    I = absint.Interp(p)
    names = p.field_names(TR)
    ki = names.index("known_labels")
    ivi = am.vi["Instruction"]
    out = {}
    res = am.push_instruction(I, En({ivi["AsmEquals"]: (Opaque("NAME"), 77)}), next_addr=10)
    kl = res["tr"]["known_labels"] if res["tr"] else None
    out["equ definition"] = (kl.f[1] if isinstance(kl, Agg) and len(kl.f) == 3 else kl, Opaque("lc:NAME"))
    st = absint.State()
    I.heap_counter = 0
    ta = I.new_alloc(st, "tr", am.new_translator(next_addr=42))
    lvi = am.vi["Line"]
    la = I.new_alloc(st, "line", En({lvi["Label"]: (Opaque("LBL"), En({0: ()}))}))
    I.run_body(p.need_body(TR + "::push"), [Ref(ta, (), True), Ref(la)], st, 0)
    kl = st.store[ta].f[ki]
    out["label definition"] = (kl.f[1] if isinstance(kl, Agg) and len(kl.f) == 3 else kl, Opaque("lc:LBL"))
    # look-ups in finish
    st = absint.State()
    I.heap_counter = 0
    ta = I.new_alloc(st, "tr", am.new_translator(next_addr=5))
    ca = I.new_alloc(st, "comment", En({0: ()}))
    for k, inst in enumerate((En({ivi["Jmp"]: (Opaque("L2"),)}), En({ivi["Jr"]: (Opaque("L1"),)}))):
        ia = I.new_alloc(st, "inst%d" % k, inst)
        I.run_body(p.need_body(TR + "::push_instruction"), [Ref(ta, (), True), Ref(ia), Ref(ca)], st, 0)
    trl = list(st.store[ta].f)
    trl[ki] = Agg((Str("<hashmap>"), Opaque("KEYS"), 77))
    trl[names.index("stacksize")] = En({am.vi["Stacksize"]["_32"]: ()})
    looked_up = []
    real_get = externs.TABLE.get(HGET)

    def rec_get(I_, st_, depth, callee, args, body, ln):
        k_ = args[1]
        n_ = 0
        while isinstance(k_, Ref) and n_ < 4:
            k_ = I_.load(st_, k_.alloc, k_.path)
            n_ += 1
        looked_up.append(k_)
        return real_get(I_, st_, depth, callee, args, body, ln)
    if real_get is not None:
        I.fn_overrides[HGET] = rec_get
    I.run_body(p.need_body(TR + "::finish"), [Agg(trl)], st, 0)
    two = len(looked_up) == 2
    out["look-up of an absolute reference"] = (looked_up[0] if two else looked_up, Opaque("lc:L2"))
    out["look-up of a relative reference"] = (looked_up[1] if two else looked_up, Opaque("lc:L1"))
    return out


def obligations(ctx, prefix="symbol-key"):
    p = ctx.p
    bad = []
    for site, (got, want) in keys(p).items():
        ok = got == want
        ctx.chk.ob("%s/%s" % (prefix, site.replace(" ", "-")), ok,
                   "names are stored and looked up under the whole case-folded name (the normalisation the parser's label check "
                   "uses): distinct names never share an entry, any spelling of a defined name finds it",
                   p.need_body(TR + "::finish").loc(), "key at the %s: %r, expected %r" % (site, got, want),
                   "A4 with an opaque name: the key must be exactly to_lowercase(name)")
        if not ok:
            bad.append(site)
    return bad
