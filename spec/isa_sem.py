"""Reference register-transfer semantics of the Minirechner 2a instruction set
(oracle for C01 / C04), written against the symbolic value constructors of
sa/microsym.py.  Scope: what property C01 states (result function, flag rule
classes, operand fetch for the four addressing modes with post-increment,
pushes/pops, jump targets, "nothing else changes") and the generic
addressing-mode table of the assembler manual (R, (R), (R+), ((R+)),
constant = (PC+), (address) = ((PC+))).

For every instruction form `expected(first, second)` returns a RefState: the
expected final values of R0-R3 (incl. PC=R3) and SP=R5 as expressions over the
initial register symbols, the expected bus reads and writes in order, and a
flag expectation.  R6/R7 (microcode scratch) and cycle counts are not part of
the comparison.  Entries marked UNSPEC are not fixed by the sources available
and are not compared.
"""
from sa import microsym as ms
from sa.microsym import Bits, const, sym, bit_nor

PC, FR, SP = 3, 4, 5
UNSPEC = ("unspecified",)


def inc(x):
    return ("alu", "ADD", x, const(1))


def dec(x):
    return ("alu", "ADD", x, const(0xFF))


def dec_borrow(x):
    """x - 1 computed as x + not(1) + 1 so that carry reports the borrow (property: SUB/CMP/DEC report borrow)"""
    return ("alu", "ADDS", x, const(0xFE))


def com(x):
    return bit_nor(x, x)


def band(a, b):
    return bit_nor(com(a), com(b))


def bor(a, b):
    return com(bit_nor(a, b))


def bxor(a, b):
    # (a AND NOT b) OR (NOT a AND b)
    return bor(band(a, com(b)), band(com(a), b))


class RefState:
    def __init__(self):
        self.regs = [sym("R%d" % i) for i in range(8)]
        self.flags = "same"          # 'same' | ('czn', result, fns) | ('zn', result) | ('value', byte) | UNSPEC | ('bits', Bits, mask)
        self.reads = []
        self.writes = []
        self.scratch_ok = True
        self.skip_values = False     # data-dependent loops: only the write-set is compared

    def read(self, addr):
        v = ("mem", addr, len(self.writes))
        self.reads.append(addr)
        return v

    def write(self, addr, value):
        self.writes.append((addr, value))

    def fetch_next(self):
        """the opcode fetch of the following instruction: read at PC, PC+1"""
        self.read(self.regs[PC])
        self.regs[PC] = inc(self.regs[PC])


def src_operand(rs, mode, r):
    """value of a source operand; applies post-increments"""
    if mode == 0:
        return rs.regs[r]
    if mode == 1:
        return rs.read(rs.regs[r])
    if mode == 2:
        v = rs.read(rs.regs[r])
        rs.regs[r] = inc(rs.regs[r])
        return v
    a = rs.read(rs.regs[r])
    rs.regs[r] = inc(rs.regs[r])
    return rs.read(a)


def dst_address(rs, mode, r):
    """effective address of a destination operand in memory (mode 1..3); applies post-increments"""
    if mode == 1:
        return rs.regs[r]
    if mode == 2:
        a = rs.regs[r]
        rs.regs[r] = inc(rs.regs[r])
        return a
    a = rs.read(rs.regs[r])
    rs.regs[r] = inc(rs.regs[r])
    return a


ARITH = {0x6: "ADD", 0x7: "ADC", 0x8: "SUB", 0x9: "AND", 0xA: "OR", 0xB: "MUL", 0xC: "DIV", 0xD: "XOR"}


def expected(first, second=None, taken=None, fetch=True):
    """-> (RefState, mnemonic) or None when the byte is not a defined instruction"""
    rs = RefState()
    hi, lo = first >> 4, first & 15
    rd, rsrc = first & 3, (first >> 2) & 3
    R = rs.regs
    name = None
    if first in (0x01,):
        name = "STOP"
    elif first in (0x02, 0x03):
        name = "NOP"
    elif 0x04 <= first <= 0x07:
        name = "CLR"
        R[rd] = const(0)
    elif 0x08 <= first <= 0x0B:
        name = "EI"
        rs.flags = ("ie", 1)
    elif 0x0C <= first <= 0x0F:
        name = "DI"
        rs.flags = ("ie", 0)
    elif 0x10 <= first <= 0x13:
        name = "PUSH"
        v = R[rd]
        R[SP] = dec(R[SP])
        rs.write(R[SP], v)
    elif 0x14 <= first <= 0x17:
        name = "POP" if rd != PC else "RET"
        v = rs.read(R[SP])
        R[SP] = inc(R[SP])
        R[rd] = v
    elif 0x18 <= first <= 0x1B:
        name = "PUSHF"
        R[SP] = dec(R[SP])
        rs.write(R[SP], sym("R4"))
    elif 0x1C <= first <= 0x1F:
        name = "POPF"
        v = rs.read(R[SP])
        R[SP] = inc(R[SP])
        rs.flags = ("value", v)
    elif 0x20 <= first <= 0x27:
        name = "JR"
        if taken:
            off = rs.read(R[PC])
            # target = address of the next instruction + offset
            R[PC] = ("alu", "ADDS", off, R[PC])
        else:
            R[PC] = inc(R[PC])
    elif 0x28 <= first <= 0x2B:
        name = "CALL"
        # (the order of the push and the target fetch is observable only when the stack runs into
        #  the code; the reference follows the machine: push first)
        ret = inc(R[PC])
        R[SP] = dec(R[SP])
        rs.write(R[SP], ret)
        target = rs.read(R[PC])
        R[PC] = target
    elif 0x2C <= first <= 0x2F:
        name = "RETI"
        pc = rs.read(R[SP])
        R[SP] = inc(R[SP])
        fl = rs.read(R[SP])
        R[SP] = inc(R[SP])
        R[PC] = pc
        rs.flags = ("value", fl)
    elif 0x30 <= first <= 0x33:
        name = "COM"
        R[rd] = com(R[rd])
        rs.flags = ("zn", R[rd])
    elif 0x34 <= first <= 0x37:
        name = "NEG"
        R[rd] = ("alu", "ADD", com(R[rd]), const(1))
        rs.flags = ("czn", R[rd])
    elif 0x38 <= first <= 0x3B:
        name = "LSR"
        R[rd] = ("alu", "LSR", R[rd])
        rs.flags = ("czn", R[rd])
    elif 0x3C <= first <= 0x3F:
        name = "ASR"
        R[rd] = ("alu", "ASR", R[rd])
        rs.flags = ("czn", R[rd])
    elif 0x40 <= first <= 0x43:
        name = "RRC"
        R[rd] = ("alu", "RRC", R[rd], None, ("bit", sym("R4"), 0))
        rs.flags = ("czn", R[rd])
    elif 0x44 <= first <= 0x47:
        name = "INC"
        R[rd] = inc(R[rd])
        rs.flags = ("czn", R[rd])
    elif 0x48 <= first <= 0x4B:
        name = "TST"
        rs.flags = ("zn", R[rd])
    elif 0x50 <= first <= 0x5F:
        name = "DEC"
        mode, r = rsrc, rd
        if mode == 0:
            R[r] = dec_borrow(R[r])
            rs.flags = ("czn", R[r])
        else:
            a = dst_address(rs, mode, r) if mode != 1 else R[r]
            v = rs.read(a)
            res = dec_borrow(v)
            rs.write(a, res)
            rs.flags = ("czn", res)
    elif hi in ARITH:
        name = ARITH[hi]
        a, b = R[rd], R[rsrc]
        if name == "ADD":
            R[rd] = ("alu", "ADD", a, b)
            rs.flags = ("czn", R[rd])
        elif name == "ADC":
            R[rd] = ("alu", "ADC", a, b, ("bit", sym("R4"), 0))
            rs.flags = ("czn", R[rd])
        elif name == "SUB":
            R[rd] = ("alu", "ADDS", a, com(b))
            rs.flags = ("czn", R[rd])
        elif name == "AND":
            R[rd] = band(a, b)
            rs.flags = ("zn", R[rd])
        elif name == "OR":
            R[rd] = bor(a, b)
            rs.flags = ("zn", R[rd])
        elif name == "XOR":
            R[rd] = bxor(a, b)
            rs.flags = ("zn", R[rd])
        else:
            rs.skip_values = True
            rs.flags = UNSPEC
            rs.dest = rd
    elif hi == 0xF:
        if second is None:
            return None
        ms_, rsn = (first >> 2) & 3, first & 3
        v = src_operand(rs, ms_, rsn)
        # the second opcode byte is fetched through PC
        rs.read(R[PC])
        R[PC] = inc(R[PC])
        shi = second >> 4
        md, rdn = (second >> 2) & 3, second & 3
        if shi == 0x1:
            name = "MOV"
            if md == 0:
                R[rdn] = v
            else:
                a = dst_address(rs, md, rdn)
                rs.write(a, v)
        elif shi in (0x2, 0x3, 0x5, 0x6):
            name = {0x2: "CMP", 0x3: "BITT", 0x5: "BITS", 0x6: "BITC"}[shi]
            if md == 0:
                d = R[rdn]
                a = None
            else:
                a = dst_address(rs, md, rdn)
                d = rs.read(a)
            if name == "CMP":
                res = ("alu", "ADDS", d, com(v))
                rs.flags = ("czn", res)
            elif name == "BITT":
                res = band(d, v)
                rs.flags = ("zn", res)
            else:
                res = bor(d, v) if name == "BITS" else band(d, com(v))
                rs.flags = ("zn", res)
                if md == 0:
                    R[rdn] = res
                else:
                    rs.write(a, res)
        elif second in (0x40, 0x41, 0x42, 0x43):
            name = "LDSP"
            R[SP] = v
            rs.flags = UNSPEC
        elif second in (0x44, 0x45, 0x46, 0x47):
            name = "LDFR"
            rs.flags = ("value", v)
        else:
            return None
    else:
        return None
    if fetch:
        rs.fetch_next()
    return rs, name
